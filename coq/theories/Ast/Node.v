(* Generic CPython AST: any ast tree is mapped structurally onto [node] by tools/py2node.py. *)
From Coq Require Import List NArith ZArith Bool String.
From Bandit Require Import Base.PyStr.
Import ListNotations.
Local Open Scope string_scope.
Local Open Scope list_scope.

Inductive const :=
| CNone | CBool (b : bool) | CInt (z : Z)
| CFloat (repr : pstr) (truth : bool) | CComplex (repr : pstr) (truth : bool)
| CStr (s : pstr) | CBytes (b : list N) | CEllipsis.

(* lineno, col_offset, end_lineno, end_col_offset *)
Record pos4 := Pos { p_line : Z; p_col : Z; p_eline : Z; p_ecol : Z }.

Inductive node :=
| Node (cls : string) (pos : option pos4) (fields : list (string * node))
| NList (l : list node)
| NConst (c : const)
| NId (s : pstr)
| NInt (z : Z)
| NNone.

Definition cls_of (n : node) : string :=
  match n with Node c _ _ => c | _ => "" end.
Definition is_ast (n : node) : bool :=
  match n with Node _ _ _ => true | _ => false end.
Definition is_cls (c : string) (n : node) : bool :=
  match n with Node c' _ _ => String.eqb c c' | _ => false end.
Definition pos_of (n : node) : option pos4 :=
  match n with Node _ p _ => p | _ => None end.
Definition fields_of (n : node) : list (string * node) :=
  match n with Node _ _ fs => fs | _ => [] end.

Fixpoint lookup_field (f : string) (fs : list (string * node)) : option node :=
  match fs with
  | [] => None
  | (k, v) :: fs' => if String.eqb f k then Some v else lookup_field f fs'
  end.
Definition field_opt (f : string) (n : node) : option node := lookup_field f (fields_of n).
(* getattr(n, f) where the schema guarantees presence; NNone otherwise (callers that can be offered
   a node without the attribute use field_opt and model the AttributeError). *)
Definition field (f : string) (n : node) : node :=
  match field_opt f n with Some v => v | None => NNone end.
Definition has_field (f : string) (n : node) : bool :=
  match field_opt f n with Some _ => true | None => false end.

Definition items (n : node) : list node :=
  match n with NList l => l | _ => [] end.
Definition field_list (f : string) (n : node) : list node := items (field f n).

Definition lineno_of (n : node) : option Z := option_map p_line (pos_of n).
Definition has_lineno (n : node) : bool := match pos_of n with Some _ => true | None => false end.

(* identifier-valued fields *)
Definition id_of (n : node) : option pstr := match n with NId s => Some s | _ => None end.

(* Constant helpers: the deprecated classes bandit still tests with isinstance *)
Definition const_of (n : node) : option const :=
  match n with
  | Node c _ fs => if String.eqb c "Constant" then
                     match lookup_field "value" fs with Some (NConst k) => Some k | _ => None end
                   else None
  | _ => None
  end.
Definition is_Str (n : node) : bool := match const_of n with Some (CStr _) => true | _ => false end.
Definition is_Bytes (n : node) : bool := match const_of n with Some (CBytes _) => true | _ => false end.
Definition is_Num (n : node) : bool :=
  match const_of n with Some (CInt _) | Some (CFloat _ _) | Some (CComplex _ _) => true | _ => false end.
Definition is_NameConstant (n : node) : bool :=
  match const_of n with Some CNone | Some (CBool _) => true | _ => false end.
Definition is_EllipsisC (n : node) : bool := match const_of n with Some CEllipsis => true | _ => false end.
Definition str_of (n : node) : option pstr := match const_of n with Some (CStr s) => Some s | _ => None end.

(* ast.iter_child_nodes *)
Definition child_nodes_of_fields (fs : list (string * node)) : list node :=
  flat_map (fun kv => match snd kv with
                      | Node _ _ _ as x => [x]
                      | NList l => filter is_ast l
                      | _ => []
                      end) fs.
Definition child_nodes (n : node) : list node := child_nodes_of_fields (fields_of n).

(* size, for fuel-free measures *)
Fixpoint node_size (n : node) : nat :=
  match n with
  | Node _ _ fs => S ((fix go (l : list (string * node)) : nat :=
                         match l with [] => O | (_, x) :: t => node_size x + go t end) fs)
  | NList l => S ((fix go (l : list node) : nat :=
                     match l with [] => O | x :: t => node_size x + go t end) l)
  | _ => 1
  end.

(* all AST nodes of a tree in pre-order (the order generic_visit reaches them), root excluded *)
Fixpoint descendants (n : node) : list node :=
  match n with
  | Node _ _ fs =>
      (fix go (l : list (string * node)) : list node :=
         match l with
         | [] => []
         | (_, v) :: t =>
             match v with
             | Node _ _ _ => v :: descendants v
             | NList items =>
                 (fix goi (is : list node) : list node :=
                    match is with
                    | [] => []
                    | i :: is' => match i with
                                  | Node _ _ _ => i :: descendants i
                                  | _ => []
                                  end ++ goi is'
                    end) items
             | _ => []
             end ++ go t
         end) fs
  | _ => []
  end.

(* Induction principle with Forall premises *)
Section NodeInd.
  Variable P : node -> Prop.
  Hypothesis HNode : forall c p fs, Forall (fun kv => P (snd kv)) fs -> P (Node c p fs).
  Hypothesis HList : forall l, Forall P l -> P (NList l).
  Hypothesis HConst : forall c, P (NConst c).
  Hypothesis HId : forall s, P (NId s).
  Hypothesis HInt : forall z, P (NInt z).
  Hypothesis HNone : P NNone.
  Fixpoint node_ind' (n : node) : P n :=
    match n with
    | Node c p fs =>
        HNode c p fs ((fix go (l : list (string * node)) : Forall (fun kv => P (snd kv)) l :=
                         match l with
                         | [] => Forall_nil _
                         | (k, v) :: t => Forall_cons (k, v) (node_ind' v) (go t)
                         end) fs)
    | NList l =>
        HList l ((fix go (l : list node) : Forall P l :=
                    match l with
                    | [] => Forall_nil _
                    | x :: t => Forall_cons x (node_ind' x) (go t)
                    end) l)
    | NConst c => HConst c
    | NId s => HId s
    | NInt z => HInt z
    | NNone => HNone
    end.
End NodeInd.
