(* bandit-baseline (bandit/cli/baseline.py main + baseline_setup) as a state machine over outcome oracles.
   Facts about the control flow (is the cleanup in a finally block? which exception classes are handled
   around the subprocess call?) are regenerated from the source. *)
From Coq Require Import List NArith ZArith Bool String.
From Bandit Require Import Base.PyStr Engine.Types Engine.Facts.
Import ListNotations.

Record tool_facts := ToolFacts {
  tf_cleanup_in_finally : bool;      (* baseline_setup: rmtree + reset sit in the finally of a try around the yield *)
  tf_handled : list pstr;            (* exception classes caught around subprocess.check_output *)
  tf_supers : list (pstr * list pstr)
}.

(* what one bandit subprocess does: it ends with an exit status (0/1/2/negative = killed by a signal,
   all delivered as CalledProcessError or as success), or launching it raises (executable missing,
   interruption, ...) *)
Inductive run_outcome := Exited (code : Z) | Raised (cls : pstr).
Inductive reset_outcome := ResetDone | ResetRaised (cls : pstr).

Record scenario := Scenario {
  sc_reset1 : reset_outcome; sc_run1 : run_outcome;
  sc_reset2 : reset_outcome; sc_run2 : run_outcome;
  sc_cleanup_reset : reset_outcome
}.

(* repository as far as the tool can change it: where HEAD/the branch point, and leftovers *)
Record repo_state (commit : Type) := RepoState {
  rs_head : commit; rs_tmpdir : bool; rs_report : bool
}.
Arguments RepoState {commit}.
Arguments rs_head {commit}.
Arguments rs_tmpdir {commit}.
Arguments rs_report {commit}.

Inductive tool_exit := ExitCode (c : Z) | ExitTraceback (cls : pstr).

Section Tool.
  Variable commit : Type.
  Variable F : tool_facts.
  Variables (cur parent : commit).
  Variable writes_report : bool.     (* -f json/html/txt given: the comparison run writes the report file *)

  Definition handled (cls : pstr) : bool :=
    existsb (fun h => is_subclass (tf_supers F) cls h || pstr_eqb cls h) (tf_handled F).

  (* the body of the with-block: Some exn = an exception leaves the block *)
  Definition body (S : scenario) (st : repo_state commit) : repo_state commit * option pstr * option Z :=
    match sc_reset1 S with
    | ResetRaised c => (st, Some c, None)
    | ResetDone =>
        let st1 := RepoState parent (rs_tmpdir st) (rs_report st) in
        match sc_run1 S with
        | Raised c => if handled c then (st1, None, None) (* not reachable for real classes *) else (st1, Some c, None)
        | Exited _ =>
            match sc_reset2 S with
            | ResetRaised c => (st1, Some c, None)
            | ResetDone =>
                let st2 := RepoState cur (rs_tmpdir st) (rs_report st) in
                match sc_run2 S with
                | Raised c => (st2, Some c, None)
                | Exited code =>
                    (RepoState cur (rs_tmpdir st) (writes_report && (Z.eqb code 0 || Z.eqb code 1)), None, Some code)
                end
            end
        end
    end.

  Definition cleanup (S : scenario) (st : repo_state commit) : repo_state commit * option pstr :=
    let st' := RepoState (rs_head st) false (rs_report st) in      (* rmtree(d, ignore_errors=True) *)
    match sc_cleanup_reset S with
    | ResetDone => (RepoState cur false (rs_report st), None)
    | ResetRaised c => (st', Some c)
    end.

  (* main() after the preconditions and the commit lookup succeeded *)
  Definition run_tool (S : scenario) : repo_state commit * tool_exit :=
    let st0 := RepoState cur true false in                          (* mkdtemp() *)
    let '(st1, exn, code) := body S st0 in
    match exn with
    | None =>
        let '(st2, cexn) := cleanup S st1 in
        match cexn with
        | None => (st2, ExitCode (match code with Some c => c | None => 0%Z end))
        | Some c => (st2, ExitTraceback c)
        end
    | Some c =>
        if tf_cleanup_in_finally F then
          let '(st2, _) := cleanup S st1 in (st2, ExitTraceback c)
        else (st1, ExitTraceback c)                                 (* code after the yield never runs *)
    end.
End Tool.

(* initialize(): any failed precondition means no reset is ever performed and exit status 2 *)
Record preconditions := Pre {
  p_git_available : bool; p_is_repo : bool; p_clean : bool; p_report_absent : bool;
  p_tmpfile_absent : bool; p_no_o_option : bool; p_has_parent : bool
}.
Definition pre_ok (p : preconditions) : bool :=
  p_git_available p && p_is_repo p && p_clean p && p_report_absent p && p_tmpfile_absent p && p_no_o_option p
  && p_has_parent p.
