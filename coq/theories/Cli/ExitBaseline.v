(* The tail of main() under -b: results_count(sev, conf) = len(get_issue_list(sev, conf)), and get_issue_list is
   filter_results with the baseline applied - the list the report is written from.  (bandit/core/manager.py
   results_count:130, get_issue_list, filter_results:105; bandit/cli/main.py main: the exit decision.) *)
From Coq Require Import List NArith ZArith Bool String Arith.
From Bandit Require Import Base.PyStr Engine.Types Engine.Tester Cli.Thresholds Manager.BaselineFilter.
Import ListNotations.

Definition exit_status_b (eqb : bissue -> bissue -> bool) (thr : bissue -> bool) (exit_zero : bool)
           (baseline results : list bissue) : outcome * report :=
  let rep := filter_results_b eqb thr baseline results in
  (if negb (Nat.eqb (report_count rep) 0) && negb exit_zero then Exit 1 else Exit 0, rep).

(* the findings a report lists (with a baseline each comes with its candidates) *)
Definition listed (r : report) : list bissue :=
  match r with Plain l => l | WithCandidates l => map fst l end.

(* Issue.filter through the ranking table, as a predicate on baseline-comparable issues *)
Definition thr_of (ranking : list pstr) (sev conf : pstr) (b : bissue) : bool :=
  match issue_filter ranking sev conf (snd b) with Some true => true | _ => false end.
