(* bandit/cli/main.py _log_option_source(default_val, arg_val, ini_val, option_name): which of the parser default, the command
   line value and the .bandit value is used.  Values are None or strings; truthiness is Python's (None and '' are false). *)
From Coq Require Import List NArith Bool.
From Bandit Require Import Base.PyStr.
Import ListNotations.

Definition truthy (v : option pstr) : bool := match v with Some (_ :: _) => true | _ => false end.
Definition opt_eqb (a b : option pstr) : bool :=
  match a, b with Some x, Some y => pstr_eqb x y | None, None => true | _, _ => false end.

Definition log_option_source (default_val arg_val ini_val : option pstr) : option pstr :=
  match default_val with
  | None => if truthy arg_val then arg_val else if truthy ini_val then ini_val else None
  | Some _ => if opt_eqb default_val arg_val then (if truthy ini_val then ini_val else arg_val) else arg_val
  end.
