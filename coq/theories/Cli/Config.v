(* BanditConfig.__init__ (as repaired), get_option, _get_profile, the CLI/INI carriers of a selection.
   The YAML/TOML/INI parsers are oracles: the model starts from the parsed document. Definitions only. *)
From Coq Require Import List NArith ZArith Bool String.
From Bandit Require Import Base.PyStr Engine.Types Engine.Scan Manager.TestSet.
Import ListNotations.

Inductive load_outcome := OpenFails | ParseFails | Loaded (doc : jv).
Inductive cfg_result := CfgOk (cfg : list (pstr * jv)) | CfgError | CfgTraceback (e : exn).

(* tomllib.load(f).get("tool", {}) then, if that is a table, .get("bandit", {}) *)
Definition toml_section (d : jv) : jv :=
  match d with
  | JDict kv => match assoc (s2p "tool") kv with
                | None => JDict []
                | Some (JDict tool) => match assoc (s2p "bandit") tool with Some b => b | None => JDict [] end
                | Some other => other
                end
  | other => other
  end.

(* the shapes of 'profiles' that validate()/convert_names_to_ids can walk without raising *)
Definition ids_ok (j : option jv) : bool :=
  match j with
  | None | Some JNull => true
  | Some (JList l) => forallb (fun x => match x with JStr _ => true | _ => false end) l
  | _ => false
  end.
Definition profiles_wf (kv : list (pstr * jv)) : bool :=
  match assoc (s2p "profiles") kv with
  | None => true
  | Some (JDict ps) => forallb (fun p => match snd p with
                                         | JDict f => ids_ok (assoc (s2p "include") f) && ids_ok (assoc (s2p "exclude") f)
                                         | _ => false end) ps
  | Some _ => false
  end.

(* validate(): tests/skips/exclude_dirs/include are lists of strings, profiles maps names to mappings *)
Definition strlist_ok (j : option jv) : bool :=
  match j with
  | None | Some JNull => true
  | Some (JList l) => forallb (fun x => match x with JStr _ => true | _ => false end) l
  | _ => false
  end.
Definition core_keys_ok (kv : list (pstr * jv)) : bool :=
  forallb (fun k => strlist_ok (assoc (s2p k) kv)) ["tests"; "skips"; "exclude_dirs"; "include"]%string.
Definition profiles_shape_ok (kv : list (pstr * jv)) : bool :=
  match assoc (s2p "profiles") kv with
  | None => true
  | Some (JDict ps) => forallb (fun p => match snd p with JDict _ => true | _ => false end) ps
  | Some _ => false
  end.

Definition legacy_names : list pstr := map s2p ["blacklist_imports"; "blacklist_import_func"; "blacklist_calls"]%string.
Definition profile_ids (f : list (pstr * jv)) (k : string) : list pstr :=
  match assoc (s2p k) f with Some (JList l) => flat_map (fun x => match x with JStr s => [s] | _ => [] end) l | _ => [] end.
(* validate(): a legacy test name in a profile without its data block is a ConfigError *)
Definition legacy_missing (kv : list (pstr * jv)) : bool :=
  match assoc (s2p "profiles") kv with
  | Some (JDict ps) =>
      existsb (fun p => match snd p with
                        | JDict f =>
                            let names := profile_ids f "include" ++ profile_ids f "exclude" in
                            ((mem_pstr (s2p "blacklist_imports") names || mem_pstr (s2p "blacklist_import_func") names)
                             && match assoc (s2p "blacklist_imports") kv with None | Some JNull => true | _ => false end)
                            || (mem_pstr (s2p "blacklist_calls") names
                                && match assoc (s2p "blacklist_calls") kv with None | Some JNull => true | _ => false end)
                        | _ => false end) ps
  | _ => false
  end.

Definition init_config (toml : bool) (o : load_outcome) : cfg_result :=
  match o with
  | OpenFails | ParseFails => CfgError
  | Loaded d =>
      match (if toml then toml_section d else d) with
      | JDict kv =>
          if negb (core_keys_ok kv && profiles_shape_ok kv) then CfgError      (* validate(): wrong value types *)
          else if profiles_wf kv then (if legacy_missing kv then CfgError else CfgOk kv)
          else CfgTraceback AttributeError        (* include/exclude of a profile malformed: outside the guarded shapes *)
      | _ => CfgError
      end
  end.

(* ---- the selection carried by the four sources ---- *)
Definition comma : N := 44%N.
Definition cli_ids (arg : option pstr) : list pstr :=       (* args.tests.split(",") if args.tests else [] *)
  match arg with Some (c :: s) => split_on comma (c :: s) | _ => [] end.
Definition yaml_ids (cfg : list (pstr * jv)) (k : string) : list pstr :=   (* set(config.get_option(k) or []) *)
  match assoc (s2p k) cfg with Some (JList l) => flat_map (fun x => match x with JStr s => [s] | _ => [] end) l | _ => [] end.

(* _log_option_source for options whose parser default is None: the command line wins, then the ini file *)
Definition option_source (arg ini : option pstr) : option pstr :=
  match arg with Some (c :: s) => Some (c :: s) | _ => match ini with Some (c :: s) => Some (c :: s) | _ => None end end.

Record selection := Selection { sel_inc : list pstr; sel_exc : list pstr }.

(* _get_profile without -p, then profile.update(cli) *)
Definition effective_selection (cfg : list (pstr * jv)) (cli_t cli_s ini_t ini_s : option pstr) : selection :=
  Selection (yaml_ids cfg "tests" ++ cli_ids (option_source cli_t ini_t))
            (yaml_ids cfg "skips" ++ cli_ids (option_source cli_s ini_s)).
