(* Issue.filter, BanditManager.filter_results/results_count (no baseline) and the exit decision of
   bandit.cli.main.main; definitions only. *)
From Coq Require Import List NArith ZArith Bool String Arith.
From Bandit Require Import Base.PyStr Engine.Types Engine.Tester.
Import ListNotations.

(* rank.index(x) >= rank.index(threshold); None = list.index raised ValueError *)
Definition index_ge (ranking : list pstr) (x thr : pstr) : option bool :=
  match index_of x ranking, index_of thr ranking with
  | Some a, Some b => Some (Nat.leb b a)
  | _, _ => None
  end.

(* Issue.filter(severity, confidence) *)
Definition issue_filter (ranking : list pstr) (sev conf : pstr) (f : finding) : option bool :=
  match index_ge ranking (rank_name (f_sev f)) sev with
  | Some true => index_ge ranking (rank_name (f_conf f)) conf   (* 'and' evaluates the right side only then *)
  | Some false => Some false
  | None => None
  end.

Fixpoint filter_results (ranking : list pstr) (sev conf : pstr) (l : list finding) : option (list finding) :=
  match l with
  | [] => Some []
  | f :: t => match issue_filter ranking sev conf f with
              | None => None
              | Some b => match filter_results ranking sev conf t with
                          | None => None
                          | Some t' => Some (if b then f :: t' else t')
                          end
              end
  end.

(* args.severity: -l repeated k times gives 1+k (count action, default 1); --severity-level assigns
   1..4; RANKING[n-1] *)
Definition level_of_count (ranking : list pstr) (n : nat) : option pstr :=
  match n with
  | O => None                    (* RANKING[-1] cannot arise: n >= 1 always *)
  | S k => nth_error ranking k
  end.

Inductive outcome := Exit (code : Z) | Traceback (e : exn).

(* tail of main(): report, then exit status.  [fmt_ok] = the formatter ran without raising. *)
Definition exit_status (ranking : list pstr) (sev conf : pstr) (exit_zero : bool) (results : list finding)
  : outcome * list finding :=
  match filter_results ranking sev conf results with
  | None => (Traceback ValueError, [])
  | Some reported =>
      (if (negb (Nat.eqb (List.length reported) 0)) && negb exit_zero then Exit 1 else Exit 0, reported)
  end.

(* the intended order, independent of the constant *)
Definition rank_ord (r : rank) : nat :=
  match r with UNDEFINED => 0 | LOW => 1 | MEDIUM => 2 | HIGH => 3 end.
Definition meets (sev conf : rank) (f : finding) : bool :=
  Nat.leb (rank_ord sev) (rank_ord (f_sev f)) && Nat.leb (rank_ord conf) (rank_ord (f_conf f)).

Definition std_ranking : list pstr := map rank_name all_ranks.
