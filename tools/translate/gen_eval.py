"""Translator (by evaluation): import bandit from the current /repo tree and dump tables as Gen/*.v.
Run with /venv/bin/python and PYTHONPATH=/repo.  Fail-closed: any surprise raises, and the caller
turns that into a failing obligation."""
import configparser
import importlib
import json
import os
import sys

sys.path.insert(0, os.path.join(os.path.dirname(__file__), "..", "lib"))
sys.path.insert(0, os.path.dirname(os.path.abspath(__file__)))
import coqlit as L  # noqa: E402

OUT = sys.argv[1]
REPO = os.environ.get("VERIF_REPO", "/repo")

HDR = ("(* GENERATED from %s by tools/translate/gen_eval.py -- do not edit, never committed *)\n"
       "From Coq Require Import List NArith ZArith Bool String.\n"
       "From Bandit Require Import Base.PyStr Ast.Node Engine.Types Engine.Tester Engine.Tables.\n"
       "Import ListNotations.\nLocal Open Scope string_scope.\nLocal Open Scope list_scope.\n\n") % REPO


def write(name, body):
    path = os.path.join(OUT, name)
    text = HDR + body
    if os.path.exists(path) and open(path).read() == text:
        return
    with open(path, "w") as f:
        f.write(text)


def rank(s):
    if s not in ("UNDEFINED", "LOW", "MEDIUM", "HIGH"):
        raise ValueError("not a rank: %r" % (s,))
    return s


def jv(v):
    if v is None:
        return "JNull"
    if v is True or v is False:
        return f"(JBool {L.B(v)})"
    if isinstance(v, int):
        return f"(JInt {L.Z(v)})"
    if isinstance(v, str):
        return f"(JStr {L.pstr(v)})"
    if isinstance(v, (list, tuple)):
        return f"(JList {L.lst([jv(x) for x in v], 'jv')})"
    if isinstance(v, dict):
        return "(JDict %s)" % L.lst([L.pair(L.pstr(str(k)), jv(x)) for k, x in v.items()], "pstr * jv")
    raise ValueError("config value %r" % (v,))


def main():
    from bandit.core import constants
    from bandit.core import extension_loader as el

    man = el.MANAGER

    # ---- Constants
    body = "Definition RANKING : list pstr := %s.\n" % L.lst([L.pstr(r) for r in constants.RANKING], "pstr")
    body += "Definition RANKING_VALUES : list (pstr * Z) := %s.\n" % L.lst(
        [L.pair(L.pstr(k), L.Z(v)) for k, v in constants.RANKING_VALUES.items()], "pstr * Z")
    body += "Definition CRITERIA : list (pstr * pstr) := %s.\n" % L.lst(
        [L.pair(L.pstr(a), L.pstr(b)) for a, b in constants.CRITERIA], "pstr * pstr")
    body += "Definition EXCLUDE : list pstr := %s.\n" % L.lst([L.pstr(x) for x in constants.EXCLUDE], "pstr")
    body += "Definition CONFIDENCE_DEFAULT : pstr := %s.\n" % L.pstr(constants.CONFIDENCE_DEFAULT)
    body += "Definition consts_gen : consts := Consts RANKING RANKING_VALUES.\n"
    from bandit.plugins import trojansource as _tj
    body += "Definition BIDI_CHARACTERS : list N := %s.\n" % L.lst([L.N(ord(ch)) for ch in _tj.BIDI_CHARACTERS], "N")
    write("Constants.v", body)

    # ---- Blacklists (as loaded by the extension manager)
    def rule(b):
        extra = set(b.keys()) - {"name", "id", "cwe", "qualnames", "message", "level"}
        if extra:
            raise ValueError("unknown blacklist keys %s" % extra)
        return "(BlRule %s %s %s %s %s %s)" % (
            L.pstr(b["name"]), L.pstr(b.get("id", "LEGACY")), L.Z(int(b.get("cwe", 0))),
            L.lst([L.pstr(q) for q in b["qualnames"]], "pstr"), L.pstr(b["message"]),
            rank(b.get("level", "MEDIUM")))
    body = "Definition blacklist : bl_table := %s.\n" % L.lst(
        [L.pair(L.cstring(k), L.lst([rule(b) for b in v], "bl_rule")) for k, v in man.blacklist.items()],
        "string * list bl_rule")
    # the two source tables separately (module -> node type -> rules)
    for short in ("calls", "imports"):
        mod = importlib.import_module("bandit.blacklists." + short)
        tab = mod.gen_blacklist()
        body += "Definition blacklist_%s : bl_table := %s.\n" % (short, L.lst(
            [L.pair(L.cstring(k), L.lst([rule(b) for b in v], "bl_rule")) for k, v in tab.items()],
            "string * list bl_rule"))
    write("Blacklists.v", body)

    # ---- Registry
    rows = []
    defaults = []
    for p in man.plugins:
        f = p.plugin
        tc = getattr(f, "_takes_config", None)
        rows.append("(RegRow %s %s %s %s %s %s)" % (
            L.pstr(f._test_id), L.pstr(p.name), L.pstr(f.__name__), L.pstr(f.__module__),
            L.lst([L.cstring(c) for c in f._checks], "string"), L.opt(tc, L.pstr, "pstr")))
        if tc is not None:
            mod = importlib.import_module(f.__module__)
            defaults.append((tc, mod.gen_config(tc)))
    body = "Definition registry : list reg_row := %s.\n" % L.lst(rows, "reg_row")
    body += "Definition builtin_ids : list pstr := %s.\n" % L.lst([L.pstr(x) for x in man.builtin], "pstr")
    body += "Definition formatter_names : list pstr := %s.\n" % L.lst([L.pstr(x) for x in sorted(man.formatter_names)], "pstr")
    fmts = []
    for f in man.formatters:
        fmts.append(L.pair(L.pstr(f.name), L.B(hasattr(f.plugin, "_accepts_baseline"))))
    body += "Definition formatter_baseline : list (pstr * bool) := %s.\n" % L.lst(sorted(fmts), "pstr * bool")
    seen = {}
    for k, v in defaults:
        if k in seen and seen[k] != v:
            raise ValueError("two different defaults for " + k)
        seen[k] = v
    body += "Definition defaults : list (pstr * jv) := %s.\n" % L.lst(
        [L.pair(L.pstr(k), jv(v)) for k, v in seen.items()], "pstr * jv")
    # setup.cfg entry points (declared) vs module contents
    cp = configparser.ConfigParser()
    cp.read(os.path.join(REPO, "setup.cfg"))
    decl = []
    for group in ("bandit.plugins", "bandit.formatters", "bandit.blacklists"):
        for line in cp.get("entry_points", group).strip().splitlines():
            if not line.strip() or line.strip().startswith("#"):
                continue
            name, target = [x.strip() for x in line.split("=", 1)]
            mod, func = target.split(":")
            decl.append((group, name, mod, func))
    body += "Definition declared_eps : list (pstr * pstr * pstr * pstr) := %s.\n" % L.lst(
        ["(%s, %s, %s, %s)" % tuple(L.pstr(x) for x in d) for d in decl], "pstr * pstr * pstr * pstr")
    # which declared entry points load, and what they resolve to
    loads = []
    for group, name, mod, func in decl:
        try:
            m = importlib.import_module(mod)
            obj = getattr(m, func)
            ok = callable(obj)
            tid = getattr(obj, "_test_id", "")
        except Exception:
            ok, tid = False, ""
        loads.append("(%s, %s, %s, %s)" % (L.pstr(group), L.pstr(name), L.B(ok), L.pstr(tid)))
    body += "Definition declared_loads : list (pstr * pstr * bool * pstr) := %s.\n" % L.lst(
        loads, "pstr * pstr * bool * pstr")
    # module contents: every function carrying _test_id in bandit/plugins/*.py, every report() in formatters
    import ast as _ast
    present = []
    for sub, group in (("plugins", "bandit.plugins"), ("formatters", "bandit.formatters"), ("blacklists", "bandit.blacklists")):
        d = os.path.join(REPO, "bandit", sub)
        for fn in sorted(os.listdir(d)):
            if not fn.endswith(".py") or fn in ("__init__.py", "utils.py"):
                continue
            modname = "bandit.%s.%s" % (sub, fn[:-3])
            m = importlib.import_module(modname)
            for k, v in sorted(vars(m).items()):
                if not callable(v) or getattr(v, "__module__", None) != modname:
                    continue
                if sub == "plugins" and hasattr(v, "_test_id"):
                    present.append((group, modname, k))
                if sub == "formatters" and k == "report":
                    present.append((group, modname, k))
                if sub == "blacklists" and k == "gen_blacklist":
                    present.append((group, modname, k))
    body += "Definition present_funcs : list (pstr * pstr * pstr) := %s.\n" % L.lst(
        ["(%s, %s, %s)" % tuple(L.pstr(x) for x in d) for d in present], "pstr * pstr * pstr")
    # installed entry points actually used at run time (dist-info), to compare with setup.cfg
    inst = []
    for p in man.plugins:
        inst.append(("bandit.plugins", p.name, p.plugin.__module__, p.plugin.__name__))
    for f in man.formatters:
        inst.append(("bandit.formatters", f.name, f.plugin.__module__, f.plugin.__name__))
    for b in man.blacklists_mgr:
        inst.append(("bandit.blacklists", b.name, b.plugin.__module__, b.plugin.__name__))
    body += "Definition installed_eps : list (pstr * pstr * pstr * pstr) := %s.\n" % L.lst(
        ["(%s, %s, %s, %s)" % tuple(L.pstr(x) for x in d) for d in inst], "pstr * pstr * pstr * pstr")
    write("Registry.v", body)

    # ---- what bandit-config-generator writes as plugin settings (parsed back)
    try:
        import yaml as _yaml
        from bandit.cli import config_generator as _cg
        gen_doc = _yaml.safe_load(_cg.get_config_settings()) or {}
        body = "Definition generated_settings : list (pstr * jv) := %s.\n" % L.lst(
            [L.pair(L.pstr(k), jv(v)) for k, v in gen_doc.items()], "pstr * jv")
        write("ConfigGen.v", body)
    except Exception as e:
        write("ConfigGen.v", "(* translator failed: %s *)\nDefinition TRANSLATOR_FAILED : False := I.\n" % str(e).replace("*)", "* )"))

    # ---- Published rules (pinned in /verif/spec, not in /repo) and documentation URLs
    spec = json.load(open(os.path.join(os.path.dirname(os.path.abspath(__file__)), "..", "..", "spec", "published_rules.json")))
    body = "Definition published : list (pstr * pstr * rank) := %s.\n" % L.lst(
        ["(%s, %s, %s)" % (L.pstr(r["id"]), L.pstr(r["qualname"]), rank(r["severity"])) for r in spec["rules"]],
        "pstr * pstr * rank")
    write("Published.v", body)
    import bandit
    from bandit.core import docs_utils
    all_ids = [p.plugin._test_id for p in man.plugins]
    for rules in man.blacklist.values():
        for b in rules:
            if b["id"] not in all_ids:
                all_ids.append(b["id"])
    # NB: get_url rewrites the 'name' of blacklist rules in place; it is therefore called last
    urls = [(i, docs_utils.get_url(i)) for i in all_ids]
    body = "Definition doc_base : pstr := %s.\n" % L.pstr(docs_utils.get_url("no-such-id"))
    body += "Definition doc_urls : list (pstr * pstr) := %s.\n" % L.lst([L.pair(L.pstr(a), L.pstr(b)) for a, b in urls], "pstr * pstr")
    pages = sorted(os.listdir(os.path.join(REPO, "doc", "source", "plugins")))
    body += "Definition doc_plugin_pages : list pstr := %s.\n" % L.lst([L.pstr(x) for x in pages], "pstr")
    write("Docs.v", body)
    json.dump({"plugins": len(man.plugins)}, sys.stdout)

    # ---- Regexes
    try:
        import regex2coq
        from bandit.plugins import general_hardcoded_password as ghp
        from bandit.plugins import injection_sql as isql
        from bandit.plugins import injection_shell as ish
        from bandit.core import manager as bman
        body = "From Bandit Require Import Regex.Regex.\n"
        for nm, pat in (("re_candidates", ghp.RE_CANDIDATES), ("re_simple_sql", isql.SIMPLE_SQL_RE),
                        ("re_full_path", ish.full_path_match), ("re_nosec", bman.NOSEC_COMMENT),
                        ("re_nosec_tests", bman.NOSEC_COMMENT_TESTS)):
            body += "Definition %s : re := %s.\n" % (nm, regex2coq.translate(pat))
            body += "Definition %s_src : pstr := %s.\n" % (nm, L.pstr(pat.pattern))
            body += "Definition %s_flags : Z := %s.\n" % (nm, L.Z(pat.flags))
        # character classes the dedicated nosec parser needs, by evaluation under the patterns' own flags
        import re as _re
        import re._parser as _sp
        tree = _sp.parse(bman.NOSEC_COMMENT.pattern, bman.NOSEC_COMMENT.flags)
        ws_items = [it for it in tree if it[0] is regex2coq.C.MAX_REPEAT and it[1][2][0][0] is regex2coq.C.IN]
        if len(ws_items) != 2:
            raise ValueError("NOSEC_COMMENT: expected two \\s* items")
        body += "Definition cs_nosec_space : cset := %s.\n" % regex2coq.cset(regex2coq.charset(ws_items[0][1][2][0], bman.NOSEC_COMMENT.flags))
        ttree = _sp.parse(bman.NOSEC_COMMENT_TESTS.pattern, bman.NOSEC_COMMENT_TESTS.flags)
        # expected shape: a single capturing group around one repeated character class
        if not (len(ttree) == 1 and ttree[0][0] is regex2coq.C.SUBPATTERN and len(ttree[0][1][3]) == 1
                and ttree[0][1][3][0][0] is regex2coq.C.MAX_REPEAT and ttree[0][1][3][0][1][0] == 1
                and ttree[0][1][3][0][1][1] is regex2coq.C.MAXREPEAT and len(ttree[0][1][3][0][1][2]) == 1):
            raise ValueError("NOSEC_COMMENT_TESTS is not ([class]+)")
        body += "Definition cs_nosec_token : cset := %s.\n" % regex2coq.cset(
            regex2coq.charset(ttree[0][1][3][0][1][2][0], bman.NOSEC_COMMENT_TESTS.flags))
        # literal skeleton of NOSEC_COMMENT: '#' \s* 'nosec' ':'? \s* ([^#]+)? '#'?
        skel = []
        for it in tree:
            if it[0] is regex2coq.C.LITERAL:
                skel.append(chr(it[1]))
            elif it[0] is regex2coq.C.MAX_REPEAT and it[1][2][0][0] is regex2coq.C.IN:
                skel.append("<ws*>")
            elif it[0] is regex2coq.C.MAX_REPEAT and it[1][2][0][0] is regex2coq.C.LITERAL:
                skel.append("<%s?>" % chr(it[1][2][0][1]))
            elif it[0] is regex2coq.C.MAX_REPEAT and it[1][2][0][0] is regex2coq.C.SUBPATTERN:
                skel.append("<group?>")
            else:
                skel.append("<?>")
        body += "Definition nosec_skeleton : pstr := %s.\n" % L.pstr("".join(skel))
        write("Regexes.v", body)
    except Exception as e:
        write("Regexes.v", "(* translator failed: %s *)\nDefinition TRANSLATOR_FAILED : False := I.\n" % str(e).replace("*)", "* )"))


main()
