"""re pattern -> Gallina [re] term (Regex/Regex.v).  Structure from re._parser.parse; the code-point
set of every single-character item is obtained by *evaluation* (CPython's own matcher over all code
points), so IGNORECASE / Unicode categories are whatever the interpreter says.  Fail-closed."""
import re

try:
    import re._parser as sre_parse
    import re._compiler as sre_compile
    import re._constants as C
except ImportError:  # < 3.11
    import sre_parse
    import sre_compile
    import sre_constants as C

_ALL = "".join(map(chr, range(0x110000)))
_cache = {}


def charset(item, flags):
    key = (repr(item), flags)
    if key in _cache:
        return _cache[key]
    st = sre_parse.State()
    st.flags = flags
    sp = sre_parse.SubPattern(st, [item])
    pat = sre_compile.compile(sp, flags | re.DOTALL if item[0] is not C.ANY else flags)
    hits = pat.findall(_ALL)
    pts = sorted(ord(h) for h in hits)
    ranges = []
    for p in pts:
        if ranges and ranges[-1][1] == p - 1:
            ranges[-1][1] = p
        else:
            ranges.append([p, p])
    _cache[key] = ranges
    return ranges


def cset(ranges):
    if not ranges:
        return "(@nil (N * N))"
    return "[" + "; ".join("(%d, %d)" % (a, b) for a, b in ranges) + "]%N"


def seq(items, flags):
    out = [term(i, flags) for i in items]
    if not out:
        return "Eps"
    t = out[-1]
    for x in reversed(out[:-1]):
        t = "(Cat %s %s)" % (x, t)
    return t


def term(item, flags):
    op, av = item
    if op in (C.LITERAL, C.NOT_LITERAL, C.IN, C.ANY):
        return "(Chr %s)" % cset(charset(item, flags))
    if op in (C.MAX_REPEAT, C.MIN_REPEAT):
        lo, hi, sub = av
        inner = seq(sub, flags)
        if hi is C.MAXREPEAT:
            return "(Rep %s %d%%nat None)" % (inner, lo)
        return "(Rep %s %d%%nat (Some %d%%nat))" % (inner, lo, hi - lo)
    if op is C.SUBPATTERN:
        group, add_flags, del_flags, sub = av
        if add_flags or del_flags:
            raise ValueError("inline flags not supported")
        return seq(sub, flags)
    if op is C.BRANCH:
        _, alts = av
        out = [seq(a, flags) for a in alts]
        t = out[-1]
        for x in reversed(out[:-1]):
            t = "(Alt %s %s)" % (x, t)
        return t
    if op is C.AT:
        if av is C.AT_BEGINNING and not (flags & re.MULTILINE):
            return "Bol"
        if av is C.AT_END and not (flags & re.MULTILINE):
            return "Eol"
        raise ValueError("unsupported anchor %r" % (av,))
    if op is C.ASSERT:
        direction, sub = av
        if direction != 1:
            raise ValueError("lookbehind not supported")
        return "(Look %s)" % seq(sub, flags)
    if op is C.ASSERT_NOT:
        direction, sub = av
        if direction != 1:
            raise ValueError("lookbehind not supported")
        return "(NLook %s)" % seq(sub, flags)
    raise ValueError("unsupported regex opcode %r" % (op,))


def translate(pattern):
    """compiled pattern -> Gallina term text"""
    flags = pattern.flags
    tree = sre_parse.parse(pattern.pattern, pattern.flags & ~re.UNICODE if isinstance(pattern.pattern, bytes) else pattern.flags)
    return seq(list(tree), flags)
