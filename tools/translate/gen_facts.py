"""Translator (by AST fact extraction + evaluation of the CLI): control-flow facts that cannot be
observed as data.  Run with /venv/bin/python, PYTHONPATH=/repo.  Fail-closed per artifact."""
import ast
import io
import os
import sys
import tempfile
import contextlib

sys.path.insert(0, os.path.join(os.path.dirname(os.path.abspath(__file__)), "..", "lib"))
import coqlit as L  # noqa: E402

OUT = sys.argv[1]
REPO = os.environ.get("VERIF_REPO", "/repo")

HDR = ("(* GENERATED from %s by tools/translate/gen_facts.py -- do not edit, never committed *)\n"
       "From Coq Require Import List NArith ZArith Bool String.\n"
       "From Bandit Require Import Base.PyStr Engine.Types Engine.Facts.\n"
       "Import ListNotations.\nLocal Open Scope string_scope.\nLocal Open Scope list_scope.\n\n") % REPO


def write(name, body):
    path = os.path.join(OUT, name)
    text = HDR + body
    if os.path.exists(path) and open(path).read() == text:
        return
    with open(path, "w") as f:
        f.write(text)


def stub(name, e):
    write(name, "(* translator failed: %s *)\nDefinition TRANSLATOR_FAILED : False := I.\n" % str(e).replace("*)", "* )"))


def dotted(n):
    if isinstance(n, ast.Name):
        return n.id
    if isinstance(n, ast.Attribute):
        b = dotted(n.value)
        return (b + "." if b else "?.") + n.attr
    if isinstance(n, ast.Call):
        return dotted(n.func) + "()"
    return "?"


def calls_in(stmts):
    out = []
    for s in stmts:
        for n in ast.walk(s):
            if isinstance(n, ast.Call):
                out.append(dotted(n.func))
    return out


def action(h):
    """Classify an except-handler body."""
    names = calls_in(h.body)
    for s in h.body:
        if isinstance(s, ast.Raise) and s.exc is None:
            # log-and-reraise only when unconditional at top level
            return "AReraise"
    for s in h.body:
        if isinstance(s, ast.Raise) and s.exc is not None:
            exc = s.exc
            return "(ARaise %s)" % L.pstr(dotted(exc.func) if isinstance(exc, ast.Call) else dotted(exc))
    for s in h.body:
        if isinstance(s, ast.Expr) and isinstance(s.value, ast.Call) and dotted(s.value.func) == "sys.exit":
            a = s.value.args
            if len(a) == 1 and isinstance(a[0], ast.Constant) and isinstance(a[0].value, int):
                return "(AExit %s)" % L.Z(a[0].value)
            return "AUnknown"
    if any(n.endswith("skipped.append") for n in names) and any(n.endswith("new_files_list.remove") for n in names):
        # the handler itself must not be able to raise: only bookkeeping and logging calls over names, constants and
        # attributes every exception of the caught class has
        for s in h.body:
            for n in ast.walk(s):
                if isinstance(n, ast.Call):
                    f = dotted(n.func)
                    if not (f in ("self.skipped.append", "new_files_list.remove", "traceback.format_exc", "LOG.isEnabledFor")
                            or f.startswith("LOG.")):
                        return "AUnknown"
                elif isinstance(n, ast.Attribute):
                    d = dotted(n)
                    if not (d in ("self.skipped", "self.skipped.append", "new_files_list.remove", "traceback.format_exc", "logging.DEBUG",
                                  "logging.INFO", "e.strerror", "LOG.isEnabledFor") or d.startswith("LOG.")):
                        return "AUnknown"
                elif isinstance(n, (ast.Subscript, ast.BinOp, ast.JoinedStr, ast.Raise, ast.Assert, ast.With, ast.For, ast.While, ast.Try)):
                    return "AUnknown"
        reason = None
        for s in h.body:
            for n in ast.walk(s):
                if isinstance(n, ast.Call) and dotted(n.func).endswith("skipped.append") and n.args and isinstance(n.args[0], ast.Tuple) and len(n.args[0].elts) == 2:
                    r = n.args[0].elts[1]
                    if isinstance(r, ast.Constant) and isinstance(r.value, str):
                        reason = r.value
                    else:
                        reason = "<" + dotted(r) + ">"
        if reason is None:
            return "AUnknown"
        return "(ASkip %s)" % L.pstr(reason)
    if all(isinstance(s, ast.Pass) for s in h.body):
        return "APass"
    if any(n.endswith("report_error") or n.startswith("LOG.") for n in names):
        # may re-raise conditionally (if self.debug: raise)
        cond_raise = any(isinstance(n, ast.Raise) for s in h.body for n in ast.walk(s))
        return "ALogReraiseIfDebug" if cond_raise else "ALog"
    if all(isinstance(s, (ast.Assign, ast.AugAssign, ast.Expr)) for s in h.body):
        return "AAssign"
    return "AUnknown"


def htypes(h):
    if h.type is None:
        return ["BaseException"]
    if isinstance(h.type, ast.Tuple):
        return [dotted(e) for e in h.type.elts]
    return [dotted(h.type)]


def try_facts(fn):
    out = []
    for n in ast.walk(fn):
        if isinstance(n, ast.Try):
            hs = ["(Handler %s %s)" % (L.lst([L.pstr(t) for t in htypes(h)], "pstr"), action(h)) for h in n.handlers]
            has_yield = any(isinstance(x, (ast.Yield, ast.YieldFrom)) for s in n.body for x in ast.walk(s))
            out.append((n.lineno, "(TryFact %s %s %s %s %s)" % (
                L.lst([L.pstr(c) for c in calls_in(n.body)], "pstr"), L.lst(hs, "handler"),
                L.B(bool(n.finalbody)), L.lst([L.pstr(c) for c in calls_in(n.finalbody)], "pstr"), L.B(has_yield))))
    out.sort()
    return [t for _, t in out]


def find_func(tree, qual):
    parts = qual.split(".")
    scope = tree.body
    node = None
    for p in parts:
        node = None
        for s in scope:
            if isinstance(s, (ast.FunctionDef, ast.ClassDef)) and s.name == p:
                node = s
                break
        if node is None:
            raise ValueError("function %s not found" % qual)
        scope = node.body
    return node


def ladders():
    targets = [
        ("bandit/core/manager.py", "BanditManager.run_tests"),
        ("bandit/core/manager.py", "BanditManager._parse_file"),
        ("bandit/core/manager.py", "BanditManager._execute_ast_visitor"),
        ("bandit/core/manager.py", "BanditManager.output_results"),
        ("bandit/core/manager.py", "BanditManager.discover_files"),
        ("bandit/core/manager.py", "_get_files_from_dir"),
        ("bandit/core/manager.py", "_is_file_included"),
        ("bandit/core/test_set.py", "BanditTestSet._load_tests"),
        ("bandit/core/test_set.py", "BanditTestSet._load_builtins"),
        ("bandit/core/manager.py", "BanditManager.populate_baseline"),
        ("bandit/core/tester.py", "BanditTester.run_tests"),
        ("bandit/core/config.py", "BanditConfig.__init__"),
        ("bandit/cli/main.py", "main"),
        ("bandit/cli/baseline.py", "main"),
        ("bandit/cli/baseline.py", "baseline_setup"),
        ("bandit/cli/baseline.py", "initialize"),
    ]
    rows = []
    for path, qual in targets:
        tree = ast.parse(open(os.path.join(REPO, path)).read())
        fn = find_func(tree, qual)
        key = path.replace("bandit/", "").replace(".py", "").replace("/", ".") + ":" + qual
        # statement-level facts: calls in source order outside of any handler, and yields outside try/finally
        all_calls = []
        for n in ast.walk(fn):
            if isinstance(n, ast.Call):
                all_calls.append((n.lineno, n.col_offset, dotted(n.func)))
        all_calls.sort()
        yields_unprotected = 0
        def walk(stmts, protected):
            nonlocal yields_unprotected
            for s in stmts:
                if isinstance(s, ast.Try):
                    walk(s.body, protected or bool(s.finalbody))
                    for h in s.handlers:
                        walk(h.body, protected)
                    walk(s.orelse, protected or bool(s.finalbody))
                    walk(s.finalbody, protected)
                elif isinstance(s, (ast.If, ast.For, ast.While, ast.With)):
                    if isinstance(s, ast.With):
                        pass
                    for fld in ("body", "orelse"):
                        walk(getattr(s, fld, []), protected)
                else:
                    for x in ast.walk(s):
                        if isinstance(x, (ast.Yield, ast.YieldFrom)) and not protected:
                            yields_unprotected += 1
        walk(fn.body, False)
        rows.append("(%s, FuncFact %s %s %s)" % (
            L.pstr(key), L.lst(try_facts(fn), "tryfact"),
            L.lst([L.pstr(c) for _, _, c in all_calls], "pstr"), L.nat(yields_unprotected)))
    # what run_tests iterates over: the list being scanned must not be the working copy files are removed from
    tree = ast.parse(open(os.path.join(REPO, "bandit/core/manager.py")).read())
    rt = find_func(tree, "BanditManager.run_tests")
    loop = []
    for n in ast.walk(rt):
        if isinstance(n, ast.For):
            loop.append("for %s in %s" % (ast.unparse(n.target), ast.unparse(n.iter)))
        if isinstance(n, ast.Assign) and any(dotted(t) in ("files", "new_files_list", "self.files_list") for t in n.targets):
            loop.append("%s = %s" % (ast.unparse(n.targets[0]), ast.unparse(n.value)))
    # the order of the test set: plugins filtered from the registry's ordered list, never taken from a set
    ts = ast.parse(open(os.path.join(REPO, "bandit/core/test_set.py")).read())
    init = find_func(ts, "BanditTestSet.__init__")
    order = []
    for n in ast.walk(init):
        if isinstance(n, ast.Assign) and dotted(n.targets[0]) == "self.plugins":
            order.append(ast.unparse(n.value))
        if isinstance(n, ast.Call) and dotted(n.func).startswith("self.plugins."):
            order.append(ast.unparse(n))
    lt = find_func(ts, "BanditTestSet._load_tests")
    for n in ast.walk(lt):
        if isinstance(n, ast.For):
            order.append("for %s in %s" % (ast.unparse(n.target), ast.unparse(n.iter)))
    extra0 = "Definition TESTSET_ORDER : list pstr := %s.\n" % L.lst([L.pstr(x) for x in order], "pstr")
    extra = extra0 + "Definition RUN_TESTS_LOOP : list pstr := %s.\n" % L.lst([L.pstr(x) for x in sorted(loop)], "pstr")
    return "Definition ladders : list (pstr * funcfact) := %s.\n" % L.lst(rows, "pstr * funcfact") + extra


def exn_matrix():
    import builtins
    import tokenize
    import subprocess
    from bandit.core import utils
    classes = {"BaseException": BaseException, "Exception": Exception, "OSError": OSError, "IOError": IOError,
               "FileNotFoundError": FileNotFoundError, "PermissionError": PermissionError,
               "IsADirectoryError": IsADirectoryError, "SyntaxError": SyntaxError, "IndentationError": IndentationError,
               "ValueError": ValueError, "UnicodeDecodeError": UnicodeDecodeError, "UnicodeEncodeError": UnicodeEncodeError,
               "TypeError": TypeError, "KeyError": KeyError, "IndexError": IndexError, "AttributeError": AttributeError,
               "RecursionError": RecursionError, "MemoryError": MemoryError, "RuntimeError": RuntimeError,
               "KeyboardInterrupt": KeyboardInterrupt, "SystemExit": SystemExit, "GeneratorExit": GeneratorExit,
               "tokenize.TokenError": tokenize.TokenError, "LookupError": LookupError, "AssertionError": AssertionError,
               "utils.ConfigError": utils.ConfigError, "utils.ProfileNotFound": utils.ProfileNotFound,
               "subprocess.CalledProcessError": subprocess.CalledProcessError, "ZeroDivisionError": ZeroDivisionError,
               "NotImplementedError": NotImplementedError, "StopIteration": StopIteration,
               "UnicodeError": UnicodeError, "EOFError": EOFError, "ImportError": ImportError}
    try:
        import yaml
        classes["yaml.YAMLError"] = yaml.YAMLError
    except Exception:
        pass
    try:
        import tomllib
        classes["tomllib.TOMLDecodeError"] = tomllib.TOMLDecodeError
    except Exception:
        pass
    try:
        import git
        classes["git.GitCommandError"] = git.GitCommandError
        classes["git.exc.InvalidGitRepositoryError"] = git.exc.InvalidGitRepositoryError
        classes["git.exc.GitCommandNotFound"] = git.exc.GitCommandNotFound
    except Exception:
        pass
    rows = []
    for a, ca in sorted(classes.items()):
        sup = [b for b, cb in sorted(classes.items()) if issubclass(ca, cb)]
        rows.append(L.pair(L.pstr(a), L.lst([L.pstr(b) for b in sup], "pstr")))
    return "Definition exn_supers : list (pstr * list pstr) := %s.\n" % L.lst(rows, "pstr * list pstr")


def cli_table():
    """Effective (sev_level, conf_level) handed to the formatter for each spelling of the thresholds,
    and the exit path, obtained by running main() with the manager's output stubbed."""
    from bandit.cli import main as bmain
    from bandit.core import manager as bman
    import logging
    rows = []
    d = tempfile.mkdtemp(prefix="verif_cli_")
    try:
        target = os.path.join(d, "e.py")
        open(target, "w").write("x = 1\n")
        sev_sp = [[], ["-l"], ["-ll"], ["-lll"], ["--level"], ["--severity-level", "all"], ["--severity-level", "low"],
                  ["--severity-level", "medium"], ["--severity-level", "high"]]
        conf_sp = [[], ["-i"], ["-ii"], ["-iii"], ["--confidence"], ["--confidence-level", "all"], ["--confidence-level", "low"],
                   ["--confidence-level", "medium"], ["--confidence-level", "high"]]
        cap = {}
        orig = bman.BanditManager.output_results

        def fake(self, lines, sev_level, conf_level, output_file, output_format, template=None):
            cap["v"] = (sev_level, conf_level)
        bman.BanditManager.output_results = fake
        try:
            for which, sps in (("sev", sev_sp), ("conf", conf_sp)):
                for sp in sps:
                    cap.clear()
                    argv = ["bandit", "-q"] + sp + [target]
                    old = sys.argv
                    sys.argv = argv
                    try:
                        with contextlib.redirect_stdout(io.StringIO()), contextlib.redirect_stderr(io.StringIO()):
                            try:
                                bmain.main()
                            except SystemExit:
                                pass
                    finally:
                        sys.argv = old
                        logging.getLogger().handlers = []
                    v = cap.get("v")
                    if v is None:
                        raise ValueError("no levels captured for %r" % (sp,))
                    rows.append("(%s, %s)" % (L.lst([L.pstr(x) for x in sp], "pstr"), L.pstr(v[0] if which == "sev" else v[1])))
        finally:
            bman.BanditManager.output_results = orig
    finally:
        import shutil
        shutil.rmtree(d, ignore_errors=True)
    return "Definition cli_levels : list (list pstr * pstr) := %s.\n" % L.lst(rows, "list pstr * pstr")


def issue_fields():
    """match_types of Issue.__eq__, keys written by as_dict, keys read by from_dict (and the attribute each maps to)."""
    tree = ast.parse(open(os.path.join(REPO, "bandit/core/issue.py")).read())
    cls = [n for n in tree.body if isinstance(n, ast.ClassDef) and n.name == "Issue"][0]
    fn = {f.name: f for f in cls.body if isinstance(f, ast.FunctionDef)}
    mt = None
    for n in ast.walk(fn["__eq__"]):
        if isinstance(n, ast.Assign) and isinstance(n.targets[0], ast.Name) and n.targets[0].id == "match_types":
            mt = [e.value for e in n.value.elts]
    if mt is None:
        raise ValueError("match_types not found")
    # the comparison must be all(getattr(self, f) == getattr(other, f) for f in match_types)
    ret = [n for n in ast.walk(fn["__eq__"]) if isinstance(n, ast.Return)][0]
    if not (isinstance(ret.value, ast.Call) and dotted(ret.value.func) == "all"):
        raise ValueError("__eq__ is not all(...)")
    asd = {}
    for n in ast.walk(fn["as_dict"]):
        if isinstance(n, ast.Dict):
            for k, v in zip(n.keys, n.values):
                if isinstance(k, ast.Constant):
                    src = dotted(v)
                    if isinstance(v, ast.Call):
                        src = dotted(v.func)
                        while src.endswith(("decode()", "encode()")) or src.endswith((".decode", ".encode")):
                            src = src.rsplit(".", 1)[0].rstrip("()")
                    asd[k.value] = src.replace("self.", "")
            break
    frd = {}
    for n in ast.walk(fn["from_dict"]):
        if isinstance(n, ast.Assign) and isinstance(n.targets[0], ast.Attribute) and dotted(n.targets[0].value) == "self":
            attr = n.targets[0].attr
            for x in ast.walk(n.value):
                if isinstance(x, ast.Subscript) and dotted(x.value) == "data" and isinstance(x.slice, ast.Constant):
                    frd[x.slice.value] = attr
                if isinstance(x, ast.Call) and dotted(x.func) == "data.get" and x.args and isinstance(x.args[0], ast.Constant):
                    frd[x.args[0].value] = attr
    body = "Definition MATCH_TYPES : list pstr := %s.\n" % L.lst([L.pstr(x) for x in mt], "pstr")
    body += "Definition AS_DICT_KEYS : list (pstr * pstr) := %s.\n" % L.lst([L.pair(L.pstr(k), L.pstr(v)) for k, v in asd.items()], "pstr * pstr")
    body += "Definition FROM_DICT_KEYS : list (pstr * pstr) := %s.\n" % L.lst([L.pair(L.pstr(k), L.pstr(v)) for k, v in frd.items()], "pstr * pstr")
    return body


def zexpr(e, env):
    """A Python integer expression as a Coq Z term; names come from env (fail-closed)."""
    src = ast.unparse(e)
    if src in env:
        return env[src]
    if isinstance(e, ast.Constant) and isinstance(e.value, int) and not isinstance(e.value, bool):
        return "(%d)" % e.value
    if isinstance(e, ast.UnaryOp) and isinstance(e.op, ast.USub):
        return "(- %s)" % zexpr(e.operand, env)
    if isinstance(e, ast.BinOp):
        ops = {ast.Add: "+", ast.Sub: "-", ast.Mult: "*", ast.FloorDiv: "/"}
        if type(e.op) in ops:
            return "(%s %s %s)" % (zexpr(e.left, env), ops[type(e.op)], zexpr(e.right, env))
    if isinstance(e, ast.Call) and isinstance(e.func, ast.Name) and e.func.id in ("max", "min") and len(e.args) == 2 and not e.keywords:
        return "(Z.%s %s %s)" % (e.func.id, zexpr(e.args[0], env), zexpr(e.args[1], env))
    raise ValueError("integer expression not understood: " + src)


def locations():
    """Where locations come from: the excerpt window of Issue.get_code, the positioned branch of
    utils.linerange, the context assignments of the visitor, the tester's default filling and the
    keyword line lookup."""
    body = "Local Open Scope Z_scope.\n"
    # ---- Issue.get_code
    tree = ast.parse(open(os.path.join(REPO, "bandit/core/issue.py")).read())
    gc = find_func(tree, "Issue.get_code")
    assigns = {}
    for n in ast.walk(gc):
        if isinstance(n, (ast.Assign, ast.AugAssign)):
            tg = n.targets[0] if isinstance(n, ast.Assign) else n.target
            if isinstance(tg, ast.Name) and tg.id in ("max_lines", "lmin", "lmax"):
                if isinstance(n, ast.AugAssign) or tg.id in assigns:
                    raise ValueError("get_code: %s assigned more than once" % tg.id)
                assigns[tg.id] = n
    if sorted(assigns) != ["lmax", "lmin", "max_lines"] or not (assigns["max_lines"].lineno < assigns["lmin"].lineno < assigns["lmax"].lineno):
        raise ValueError("get_code: window assignments not found in order")
    body += "Definition gc_n (max_lines : Z) : Z := %s.\n" % zexpr(assigns["max_lines"].value, {"max_lines": "max_lines"})
    body += "Definition gc_lmin (lineno n : Z) : Z := %s.\n" % zexpr(assigns["lmin"].value, {"self.lineno": "lineno", "max_lines": "n"})
    body += "Definition gc_lmax (lmin len n : Z) : Z := %s.\n" % zexpr(
        assigns["lmax"].value, {"lmin": "lmin", "len(self.linerange)": "len", "max_lines": "n"})
    loops = [n for n in ast.walk(gc) if isinstance(n, ast.For) and isinstance(n.target, ast.Name) and n.target.id == "line"]
    if len(loops) != 1 or assigns["lmax"].lineno > loops[0].lineno:
        raise ValueError("get_code: excerpt loop not found")
    lp = loops[0]
    brk = [ast.unparse(x.test) for x in lp.body if isinstance(x, ast.If) and any(isinstance(y, ast.Break) for y in x.body)]
    app = [ast.unparse(x.value.args[0]) for x in lp.body if isinstance(x, ast.Expr) and isinstance(x.value, ast.Call)
           and dotted(x.value.func) == "lines.append"]
    others = [ast.unparse(x)[:60] for x in lp.body if isinstance(x, (ast.Continue, ast.Return, ast.For, ast.While))]
    tm = [ast.unparse(n.value) for n in ast.walk(gc) if isinstance(n, ast.Assign) and isinstance(n.targets[0], ast.Name) and n.targets[0].id == "tmplt"]
    ret = [ast.unparse(n.value) for n in ast.walk(gc) if isinstance(n, ast.Return)]
    body += "Definition GC_LOOP : list pstr := %s.\n" % L.lst([L.pstr(x) for x in [ast.unparse(lp.iter)] + brk + app + others + tm + ret], "pstr")
    # ---- utils.linerange, positioned branch
    ut = ast.parse(open(os.path.join(REPO, "bandit/core/utils.py")).read())
    lr = find_func(ut, "linerange")
    stmts = [x for x in lr.body if not (isinstance(x, ast.Expr) and isinstance(x.value, ast.Constant))]
    first = stmts[0]
    if not (isinstance(first, ast.If) and ast.unparse(first.test) == "hasattr(node, 'lineno')" and len(first.body) == 1
            and isinstance(first.body[0], ast.Return)):
        raise ValueError("linerange: positioned branch not recognised")
    r = first.body[0].value
    if not (isinstance(r, ast.Call) and dotted(r.func) == "list" and isinstance(r.args[0], ast.Call) and dotted(r.args[0].func) == "range"
            and len(r.args[0].args) == 2):
        raise ValueError("linerange: positioned branch does not return list(range(a, b))")
    env = {"node.lineno": "lineno", "node.end_lineno": "end_lineno"}
    body += "Definition lr_pos (lineno end_lineno : Z) : Z * Z := (%s, %s).\n" % (zexpr(r.args[0].args[0], env), zexpr(r.args[0].args[1], env))
    # ---- context assignments in the visitor
    nv = ast.parse(open(os.path.join(REPO, "bandit/core/node_visitor.py")).read())
    rows = []
    for fname in ("pre_visit", "visit_Str", "visit_Bytes", "visit_Call", "visit_FunctionDef", "process"):
        fn = find_func(nv, "BanditNodeVisitor." + fname)
        for n in ast.walk(fn):
            if isinstance(n, ast.Assign) and isinstance(n.targets[0], ast.Subscript) and dotted(n.targets[0].value) == "self.context" \
                    and isinstance(n.targets[0].slice, ast.Constant):
                rows.append((fname, n.targets[0].slice.value, ast.unparse(n.value)))
            if isinstance(n, ast.Assign) and dotted(n.targets[0]) == "self.context" and isinstance(n.value, ast.Dict):
                for k, v in zip(n.value.keys, n.value.values):
                    rows.append((fname, k.value, ast.unparse(v)))
    body += "Definition CTX_ASSIGNS : list (pstr * (pstr * pstr)) := %s.\n" % L.lst(
        [L.pair(L.pstr(a), L.pair(L.pstr(b), L.pstr(c))) for a, b, c in sorted(rows) if b in ("lineno", "linerange", "col_offset", "end_col_offset")], "pstr * (pstr * pstr)")
    # ---- which visitor methods write the name-resolution state
    cls = [n for n in nv.body if isinstance(n, ast.ClassDef) and n.name == "BanditNodeVisitor"][0]
    writers = set()
    MUT = {"pop", "add", "update", "clear", "setdefault", "discard", "remove", "popitem", "append", "extend", "insert"}
    for fn in cls.body:
        if not isinstance(fn, ast.FunctionDef):
            continue
        for n in ast.walk(fn):
            tgts = []
            if isinstance(n, ast.Assign):
                tgts = n.targets
            elif isinstance(n, (ast.AugAssign, ast.AnnAssign)):
                tgts = [n.target]
            elif isinstance(n, ast.Delete):
                tgts = n.targets
            for t in tgts:
                base = t.value if isinstance(t, ast.Subscript) else t
                if dotted(base) in ("self.import_aliases", "self.imports"):
                    writers.add((fn.name, dotted(base)[5:]))
            if isinstance(n, ast.Call) and isinstance(n.func, ast.Attribute) and n.func.attr in MUT \
                    and dotted(n.func.value) in ("self.import_aliases", "self.imports"):
                writers.add((fn.name, dotted(n.func.value)[5:]))
            # handing the table to other code counts as a potential write, except into the context dictionary
            if isinstance(n, ast.Call):
                for a in list(n.args) + [k.value for k in n.keywords]:
                    if dotted(a) in ("self.import_aliases", "self.imports"):
                        writers.add((fn.name, dotted(a)[5:] + " passed to " + dotted(n.func)))
    body += "Definition NAME_STATE_WRITERS : list (pstr * pstr) := %s.\n" % L.lst(
        [L.pair(L.pstr(a), L.pstr(b)) for a, b in sorted(writers)], "pstr * pstr")
    # ---- tester defaults
    te = ast.parse(open(os.path.join(REPO, "bandit/core/tester.py")).read())
    rt = find_func(te, "BanditTester.run_tests")
    fills = []
    for n in ast.walk(rt):
        if isinstance(n, ast.If) and len(n.body) == 1 and isinstance(n.body[0], ast.Assign) and dotted(n.body[0].targets[0]).startswith("result.") \
                and not n.orelse:
            fills.append((dotted(n.body[0].targets[0]), ast.unparse(n.test), ast.unparse(n.body[0].value)))
    body += "Definition DEFAULT_FILL : list (pstr * (pstr * pstr)) := %s.\n" % L.lst(
        [L.pair(L.pstr(a), L.pair(L.pstr(b), L.pstr(c))) for a, b, c in sorted(fills)], "pstr * (pstr * pstr)")
    # ---- keyword line lookup
    cx = ast.parse(open(os.path.join(REPO, "bandit/core/context.py")).read())
    kl = find_func(cx, "Context.get_lineno_for_call_arg")
    stm = [ast.unparse(x) for x in kl.body if not (isinstance(x, ast.Expr) and isinstance(x.value, ast.Constant))]
    body += "Definition KW_LINE : list pstr := %s.\n" % L.lst([L.pstr(x) for x in stm], "pstr")
    return body


def formats():
    """How the JSON and YAML formatters order their records: sorted(collector, key=itemgetter(K)) with K chosen by
    manager.agg_type == 'vuln'."""
    rows = []
    for fmt in ("json", "yaml"):
        tree = ast.parse(open(os.path.join(REPO, "bandit/formatters/%s.py" % fmt)).read())
        rep = find_func(tree, "report")
        found = None
        for n in ast.walk(rep):
            if isinstance(n, ast.If) and ast.unparse(n.test) in ("manager.agg_type == 'vuln'",):
                def key_of(stmts):
                    if len(stmts) != 1 or not isinstance(stmts[0], ast.Assign):
                        raise ValueError("%s: aggregation branch is not a single assignment" % fmt)
                    v = stmts[0].value
                    if not (isinstance(v, ast.Call) and dotted(v.func) == "sorted" and len(v.args) == 1 and dotted(v.args[0]) == "collector"
                            and len(v.keywords) == 1 and v.keywords[0].arg == "key"):
                        raise ValueError("%s: records are not ordered by sorted(collector, key=...)" % fmt)
                    k = v.keywords[0].value
                    if not (isinstance(k, ast.Call) and dotted(k.func) in ("itemgetter", "operator.itemgetter") and len(k.args) == 1
                            and isinstance(k.args[0], ast.Constant)):
                        raise ValueError("%s: sort key is not itemgetter(<field>)" % fmt)
                    return k.args[0].value
                found = (key_of(n.body), key_of(n.orelse))
        if found is None:
            raise ValueError("%s: no 'if manager.agg_type == \"vuln\"' ordering found in report()" % fmt)
        rows.append((fmt, found[0], found[1]))
    # where each formatter takes its records from: one call of manager.get_issue_list with the caller's two thresholds,
    # walked by loops that neither skip nor stop (one record per reported finding)
    loops = []
    for fmt in ("json", "yaml", "csv", "xml", "html", "sarif", "custom"):
        tree = ast.parse(open(os.path.join(REPO, "bandit/formatters/%s.py" % fmt)).read())
        rep = find_func(tree, "report")
        params = [a.arg for a in rep.args.args]
        calls, var = 0, None
        for n in ast.walk(rep):
            if isinstance(n, ast.Call) and dotted(n.func) == "manager.get_issue_list":
                kw = {k.arg: dotted(k.value) for k in n.keywords}
                if kw != {"sev_level": "sev_level", "conf_level": "conf_level"} or n.args or "sev_level" not in params or "conf_level" not in params:
                    raise ValueError("%s: get_issue_list is not called with the report's own thresholds" % fmt)
                calls += 1
        for n in ast.walk(rep):
            if isinstance(n, ast.Assign) and isinstance(n.value, ast.Call) and dotted(n.value.func) == "manager.get_issue_list":
                var = dotted(n.targets[0])
        nloops, clean = 0, True

        def over_var(it):
            return dotted(it) == var or (isinstance(it, ast.Call) and dotted(it.func) == "enumerate" and it.args and dotted(it.args[0]) == var)
        scope = [rep] + [f for f in tree.body if isinstance(f, ast.FunctionDef) and f.name != "report"]
        for n in ast.walk(rep):
            if isinstance(n, ast.For) and over_var(n.iter):
                nloops += 1
                for x in n.body:
                    for y in ast.walk(x):
                        if isinstance(y, (ast.Continue, ast.Break, ast.Return)):
                            clean = False
            if isinstance(n, (ast.ListComp, ast.GeneratorExp, ast.SetComp, ast.DictComp)):
                for g in n.generators:
                    if over_var(g.iter):
                        nloops += 1
                        if g.ifs:
                            clean = False
        # sarif hands the list to a helper: follow one level
        for n in ast.walk(rep):
            if isinstance(n, ast.Call) and any(dotted(a) == var for a in n.args) and isinstance(n.func, ast.Name):
                helper = [f for f in tree.body if isinstance(f, ast.FunctionDef) and f.name == n.func.id]
                if helper:
                    pos = [i for i, a in enumerate(n.args) if dotted(a) == var][0]
                    pname = helper[0].args.args[pos].arg
                    for m in ast.walk(helper[0]):
                        if isinstance(m, ast.For) and dotted(m.iter) == pname:
                            nloops += 1
                            for x in m.body:
                                for y in ast.walk(x):
                                    if isinstance(y, (ast.Continue, ast.Break)):
                                        clean = False
        loops.append((fmt, calls, nloops, clean))
    extra = "Definition RECORD_LOOPS : list (pstr * (Z * (Z * bool))) := %s.\n" % L.lst(
        [L.pair(L.pstr(a), L.pair(L.Z(b), L.pair(L.Z(c), L.B(d)))) for a, b, c, d in loops], "pstr * (Z * (Z * bool))")
    return extra + "Definition SORT_KEYS : list (pstr * (pstr * pstr)) := %s.\n" % L.lst(
        [L.pair(L.pstr(a), L.pair(L.pstr(b), L.pstr(c))) for a, b, c in rows], "pstr * (pstr * pstr)")


def sources():
    """A digest of every function and method of the package (docstrings and formatting aside): the text the hand-written
    model of that function was written against.  name = <module path under bandit>:<qualified name>."""
    import hashlib
    rows = []
    for sub in ("core", "cli", "formatters", "plugins", "blacklists"):
        base = os.path.join(REPO, "bandit", sub)
        for fn in sorted(os.listdir(base)):
            if not fn.endswith(".py"):
                continue
            tree = ast.parse(open(os.path.join(base, fn)).read())
            mod = "%s.%s" % (sub, fn[:-3])

            def visit(body, prefix):
                for n in body:
                    if isinstance(n, (ast.FunctionDef, ast.AsyncFunctionDef)):
                        b = list(n.body)
                        if b and isinstance(b[0], ast.Expr) and isinstance(b[0].value, ast.Constant) and isinstance(b[0].value.value, str):
                            b = b[1:] or [ast.Pass()]
                        m = ast.Module(body=[type(n)(name=n.name, args=n.args, body=b, decorator_list=n.decorator_list, returns=None, type_comment=None,
                                                     **({"type_params": []} if hasattr(n, "type_params") else {}))], type_ignores=[])
                        text = ast.unparse(ast.fix_missing_locations(m))
                        rows.append((mod + ":" + prefix + n.name, hashlib.sha256(text.encode()).hexdigest()[:24]))
                    elif isinstance(n, ast.ClassDef):
                        visit(n.body, prefix + n.name + ".")
            visit(tree.body, "")
            # module-level statements other than imports, defs and docstrings (tables, compiled patterns, constants)
            rest = [x for x in tree.body if not isinstance(x, (ast.FunctionDef, ast.AsyncFunctionDef, ast.ClassDef, ast.Import, ast.ImportFrom))
                    and not (isinstance(x, ast.Expr) and isinstance(x.value, ast.Constant))]
            if rest:
                text = "\n".join(ast.unparse(x) for x in rest)
                rows.append((mod + ":<module>", hashlib.sha256(text.encode()).hexdigest()[:24]))
    return "Definition SRC : list (pstr * pstr) := %s.\n" % L.lst([L.pair(L.pstr(a), L.pstr(b)) for a, b in rows], "pstr * pstr")


def main():
    try:
        write("Sources.v", sources())
    except Exception as e:
        stub("Sources.v", e)
    try:
        write("FormatFacts.v", formats())
    except Exception as e:
        stub("FormatFacts.v", e)
    try:
        write("Locations.v", locations())
    except Exception as e:
        stub("Locations.v", e)
    try:
        write("IssueFields.v", issue_fields())
    except Exception as e:
        stub("IssueFields.v", e)
    try:
        write("Ladders.v", ladders() + exn_matrix())
    except Exception as e:
        stub("Ladders.v", e)
    try:
        write("CliTable.v", cli_table())
    except Exception as e:
        stub("CliTable.v", e)


main()
