"""Statement-level oracle for C16 (hard-coded secrets, temp paths, bind-all, permissions), from the property text."""
import ast
import re

from oracles import resolve

# the documented pattern, built independently of the module's compiled regex
WORD = r"(pas+wo?r?d|pass(phrase)?|pwd|token|secrete?)"
DOC_RE = re.compile(r"(^{0}$|_{0}_|^{0}_|_{0}$)".format(WORD))


def matches(name):
    return bool(DOC_RE.search(name.casefold())) and "\n" not in name


def is_str(n):
    return isinstance(n, ast.Constant) and isinstance(n.value, str)


def name_of(t):
    if isinstance(t, ast.Name):
        return t.id
    if isinstance(t, ast.Attribute):
        return t.attr
    return None


def expected_password_reports(tree):
    """(test_id, literal, class) the statement requires; class names a known gap when bandit lacks it."""
    return [(t, lit.encode("utf-8", "backslashreplace").decode("utf-8"), c) for t, lit, c in _expected(tree)]


def _expected(tree):
    exp = []
    for n in ast.walk(tree):
        if isinstance(n, ast.Assign) and is_str(n.value):
            for t in n.targets:
                nm = name_of(t)
                if nm and matches(nm):
                    exp.append(("B105", n.value.value, "assign"))
                if isinstance(t, ast.Subscript) and is_str(t.slice) and matches(t.slice.value):
                    exp.append(("B105", n.value.value, "subscript"))
        elif isinstance(n, ast.AnnAssign) and n.value is not None and is_str(n.value):
            nm = name_of(n.target)
            if nm and matches(nm):
                exp.append(("B105", n.value.value, "annotated-assignment"))
        elif isinstance(n, ast.Compare) and len(n.ops) == 1:
            nm = name_of(n.left)
            if nm and matches(nm) and is_str(n.comparators[0]):
                exp.append(("B105", n.comparators[0].value, "compare"))
            nm = name_of(n.comparators[0])
            if nm and matches(nm) and is_str(n.left):
                exp.append(("B105", n.left.value, "compare-reversed"))
        elif isinstance(n, ast.Call):
            for k in n.keywords:
                if k.arg and matches(k.arg) and is_str(k.value):
                    exp.append(("B106", k.value.value, "keyword"))
        elif isinstance(n, (ast.FunctionDef, ast.AsyncFunctionDef)):
            a = n.args
            params = a.posonlyargs + a.args
            defs = [None] * (len(params) - len(a.defaults)) + list(a.defaults)
            hits = [(p.arg, d) for p, d in zip(params, defs) if d is not None and is_str(d) and matches(p.arg)]
            if hits:
                exp.append(("B107", hits[0][1].value, "default"))
            kw = [(p.arg, d) for p, d in zip(a.kwonlyargs, a.kw_defaults) if d is not None and is_str(d) and matches(p.arg)]
            if kw and not hits:
                exp.append(("B107", kw[0][1].value, "kwonly-default"))
    return exp


GAPS = {"annotated-assignment": "b105-annotated-assignment", "compare-reversed": "b105-literal-on-the-left",
        "kwonly-default": "b107-keyword-only-default"}


def oracle(p, o):
    out = []
    if o["errors"] or "nosec" in p["src"]:
        return out
    inc = set(p.get("include") or [])
    try:
        tree = ast.parse(p["src"])
    except SyntaxError:
        return out

    def bad(what, sig=None):
        out.append({"what": what, "input": p["src"], "config": p.get("config"),
                    "observed": [(r["test_id"], r["sev"], r["conf"], r["lineno"], r["text"][:80]) for r in o["results"]],
                    "signature": sig})

    texts = {(r["test_id"], r["text"]) for r in o["results"]}
    if not inc or {"B105", "B106", "B107"} <= inc:
        for tid, lit, cls in expected_password_reports(tree):
            if (tid, "Possible hardcoded password: '%s'" % lit) not in texts:
                sig = GAPS.get(cls)
                if sig is None and any(t == tid for t, _ in texts):
                    sig = "one-report-per-node"      # the check returns at its first hit
                bad("string literal %r in position '%s' for a name matching the documented pattern is not reported as %s quoting the literal"
                    % (lit, cls, tid), sig)
        # nothing is reported for non-matching names / non-literals: every password report must be justified
        want = {(tid, "Possible hardcoded password: '%s'" % lit) for tid, lit, _ in expected_password_reports(tree)}
        for r in o["results"]:
            if r["test_id"] in ("B105", "B106", "B107") and (r["test_id"], r["text"]) not in want:
                # accept reports the statement does not speak about (e.g. chained comparisons, subscript of a literal)
                chained = any(isinstance(n_, ast.Compare) and len(n_.ops) > 1 for n_ in ast.walk(tree))
                if not chained and not re.search(r"\[0\]|\\n", p["src"]):
                    bad("%s reported (%s) but no matching-name/literal pair of the statement's five positions justifies it"
                        % (r["test_id"], r["text"][:60]), "b105-unjustified-report")
    # B104
    if not inc or "B104" in inc:
        strs = [n for n in ast.walk(tree) if is_str(n)]
        doc = {id(s.value) for s in ast.walk(tree) if isinstance(s, ast.Expr)}
        n_all = sum(1 for n in strs if n.value == "0.0.0.0" and id(n) not in doc)
        got = sum(1 for r in o["results"] if r["test_id"] == "B104")
        if n_all and not got:
            bad("the literal '0.0.0.0' is not reported as B104")
        if got and not any(n.value == "0.0.0.0" for n in strs):
            bad("B104 reported without a '0.0.0.0' literal")
    # B108 (default or list-of-strings config only)
    if not inc or "B108" in inc:
        cfg = (p.get("config") or {}).get("hardcoded_tmp_directory") if p.get("config") else None
        dirs = ["/tmp", "/var/tmp", "/dev/shm"]
        ok_cfg = True
        if cfg is not None:
            if isinstance(cfg, dict) and isinstance(cfg.get("tmp_dirs"), list) and all(isinstance(x, str) for x in cfg["tmp_dirs"]):
                dirs = cfg["tmp_dirs"]
            else:
                ok_cfg = False
        if ok_cfg:
            doc = {id(s.value) for s in ast.walk(tree) if isinstance(s, ast.Expr)}
            strs = [n for n in ast.walk(tree) if is_str(n) and id(n) not in doc]
            # f-string parts are Constant nodes too; keep only top-level literals
            inside_f = {id(v) for j in ast.walk(tree) if isinstance(j, ast.JoinedStr) for v in j.values}
            strs = [n for n in strs if id(n) not in inside_f]
            want = sum(1 for n in strs if any(n.value.startswith(d) for d in dirs))
            got = sum(1 for r in o["results"] if r["test_id"] == "B108")
            if want != got and not inside_f:
                bad("%d string literals start with a configured temp directory, B108 reported %d times" % (want, got))
    # B103
    if not inc or "B103" in inc:
        for call, q, _ in resolve.calls_with_names(tree):
            last = (q or "").split(".")[-1]
            if last != "chmod":
                continue
            if any(isinstance(a, ast.Starred) for a in call.args) or any(k.arg is None for k in call.keywords):
                continue
            mode = None
            how = None
            if len(call.args) == 2 and not call.keywords:
                mode, how = call.args[1], "positional"
            elif len(call.args) == 1 and [k.arg for k in call.keywords] == ["mode"]:
                mode, how = call.keywords[0].value, "keyword"
            if mode is None or not (isinstance(mode, ast.Constant) and type(mode.value) is int):
                continue
            m = mode.value
            danger = bool(m & 0o033)
            hits = [r for r in o["results"] if r["test_id"] == "B103" and r["lineno"] == call.lineno
                    and ("mask %s on" % oct(m)) in r["text"]]
            if danger and not hits:
                bad("chmod with literal mode %s grants group/world write or execute but B103 is not reported" % oct(m),
                    "b103-mode-by-keyword" if how == "keyword" else None)
            elif hits:
                if not danger:
                    bad("B103 reported for mode %s, which grants no group/world write or execute" % oct(m))
                elif (hits[0]["sev"] == "HIGH") != bool(m & 0o002):
                    bad("B103 severity %s for mode %s (HIGH exactly when world-writable)" % (hits[0]["sev"], oct(m)))
    return out
