"""Statement-level oracle for C14 (process-spawning decision table), from the property text."""
import ast

from oracles import resolve

DEFAULT = None
CMDS = ("chown", "chmod", "tar", "rsync")


def default_cfg():
    global DEFAULT
    if DEFAULT is None:
        from bandit.plugins import injection_shell
        DEFAULT = injection_shell.gen_config("shell_injection")
    return DEFAULT


def partial_path(s):
    if not s:
        return True
    if s[0] in "/\\.":
        return False
    if len(s) >= 2 and s[0].isalpha() and s[0].isascii() and s[1] == ":":
        return False
    return True


def oracle(p, o):
    cfg = (p.get("config") or {}).get("shell_injection", None) if p.get("config") else None
    if p.get("config") is not None and p["config"].get("shell_injection") is not None:     # a null section is an absent one: defaults
        cfg = p["config"]["shell_injection"]
        if not (isinstance(cfg, dict) and all(isinstance(cfg.get(k), list) and all(isinstance(x, str) for x in cfg.get(k))
                                                for k in ("subprocess", "shell", "no_shell"))):
            return []          # not a configuration the statement speaks about
    else:
        cfg = default_cfg()
    if o["errors"]:
        # crashes on unusual argument shapes are C06's subject; but under a well-formed configuration a check of this family
        # that raises on an ordinary call (string or name arguments only) has not followed its decision table at all
        fam = {"subprocess_popen_with_shell_equals_true", "subprocess_without_shell_equals_true", "any_other_function_with_shell_equals_true",
               "start_process_with_a_shell", "start_process_with_no_shell", "start_process_with_partial_path", "linux_commands_wildcard_injection"}
        try:
            tree0 = ast.parse(p["src"])
            def simple(a):
                if isinstance(a, ast.UnaryOp) and isinstance(a.op, (ast.USub, ast.UAdd, ast.Not)):
                    a = a.operand                     # -n, +n, not flag: as ordinary as n
                return isinstance(a, (ast.Constant, ast.Name)) and not isinstance(getattr(a, "value", ""), (bytes, complex))
            ordinary = all(simple(a) for c in ast.walk(tree0) if isinstance(c, ast.Call) for a in list(c.args) + [k.value for k in c.keywords if k.arg])
        except SyntaxError:
            ordinary = False
        hit = [e for e in o["errors"] if e[0] in fam]
        if ordinary and hit and "nosec" not in p["src"]:
            return [{"what": "check %s raised %s under a well-formed configuration on an ordinary call: no classification at all" % (hit[0][0], hit[0][2][:100]),
                     "input": p["src"], "config": p.get("config"), "observed": o["errors"][:3], "signature": None}]
        return []
    inc = set(p.get("include") or [])
    ids = {"B602", "B603", "B604", "B605", "B606", "B607", "B609"}
    if inc and not ids <= inc:
        return []
    if "nosec" in p["src"]:
        return []
    try:
        tree = ast.parse(p["src"])
    except SyntaxError:
        return []
    out = []
    found = {}
    for r in o["results"]:
        if r["test_id"] in ids:
            found.setdefault((r["test_id"]), []).append(r)
    calls = resolve.calls_with_names(tree)
    # only judge programs with exactly one call to a configured name (keeps line attribution unambiguous)
    keyed = [(c, q) for c, q, _ in calls if q in cfg["subprocess"] + cfg["shell"] + cfg["no_shell"]]
    others = [(c, q) for c, q, _ in calls if q not in cfg["subprocess"] + cfg["shell"] + cfg["no_shell"]]
    if len(keyed) != 1:
        return []
    call, q = keyed[0]
    if any(isinstance(a, ast.Starred) for a in call.args) or any(k.arg is None for k in call.keywords):
        return []
    if not call.args:
        return []
    shells = [k for k in call.keywords if k.arg == "shell"]
    if len(shells) > 1:
        return []
    truthy = False
    known = True
    shell_line = None
    if shells:
        ok, val = resolve.literal(shells[0].value)
        shell_line = shells[0].value.lineno
        if ok:
            truthy = bool(val)
        else:
            known = False
    first = call.args[0]
    plain = isinstance(first, ast.Constant) and isinstance(first.value, str)
    grade = "LOW" if plain else "HIGH"

    def here(tid):
        return [r for r in found.get(tid, [])]

    def bad(what, sig=None):
        out.append({"what": what, "input": p["src"], "config": p.get("config"),
                    "observed": [(r["test_id"], r["sev"], r["conf"], r["lineno"]) for r in o["results"]], "signature": sig})

    def falsy_literal_sig():
        ok, val = resolve.literal(shells[0].value) if shells else (False, None)
        if ok and not isinstance(shells[0].value, ast.Constant) or (ok and isinstance(val, (str, bytes)) and not val):
            return "shell-falsy-literal-treated-truthy"
        if ok and isinstance(val, (float, complex)):
            return None
        return None

    if not known:
        return out
    if q in cfg["subprocess"]:
        b602, b603 = here("B602"), here("B603")
        if truthy:
            if len(b602) != 1 or b603:
                bad("subprocess-family call with truthy shell= must be exactly B602 (got B602 x%d, B603 x%d)" % (len(b602), len(b603)))
            elif b602[0]["sev"] != grade:
                bad("B602 severity %s, expected %s (command %s a plain string literal)" % (b602[0]["sev"], grade, "is" if plain else "is not"))
            elif b602[0]["lineno"] != shell_line:
                bad("B602 is located on line %d, the shell= keyword value is on line %d" % (b602[0]["lineno"], shell_line))
        else:
            if len(b603) != 1 or b602:
                bad("subprocess-family call without truthy shell= must be exactly B603 (got B602 x%d, B603 x%d)" % (len(b602), len(b603)),
                    falsy_literal_sig() if b602 else None)
            elif shells and b603[0]["lineno"] != shell_line:
                bad("B603 is located on line %d, the shell= keyword value is on line %d" % (b603[0]["lineno"], shell_line))
    if q in cfg["shell"] and q not in cfg["subprocess"]:
        b605 = here("B605")
        if len(b605) != 1:
            bad("shell-family call must be B605 (got x%d)" % len(b605))
        elif b605[0]["sev"] != grade:
            bad("B605 severity %s, expected %s" % (b605[0]["sev"], grade))
    if q in cfg["no_shell"] and q not in cfg["subprocess"] and q not in cfg["shell"]:
        if len(here("B606")) != 1:
            bad("no-shell call must be B606 (got x%d)" % len(here("B606")))
    if q not in cfg["subprocess"]:
        b604 = here("B604")
        if truthy and len(b604) < 1:
            bad("call outside the subprocess family with truthy shell= must additionally be B604")
        if (not truthy) and any(r["lineno"] in (call.lineno, shell_line) for r in b604) and not others:
            bad("B604 reported although shell= is not truthy", falsy_literal_sig())
    # B607
    exe = first
    if isinstance(first, ast.List) and first.elts:
        exe = first.elts[0]
    if isinstance(exe, ast.Constant) and isinstance(exe.value, str):
        want = partial_path(exe.value)
        got = bool(here("B607"))
        if want and not got:
            bad("executable literal %r is a partial path but B607 is not reported" % exe.value)
        if got and not want:
            bad("B607 reported for %r, which starts with a path separator, '.' or a drive letter" % exe.value)
    # B609 (only the direction the statement gives)
    under_shell = (q in cfg["shell"]) or (q in cfg["subprocess"] and truthy)
    text = None
    if isinstance(first, ast.Constant) and isinstance(first.value, str):
        text = first.value
    elif isinstance(first, ast.List) and all(isinstance(e, ast.Constant) and isinstance(e.value, str) for e in first.elts) and first.elts:
        text = " ".join(e.value for e in first.elts)
    if under_shell and text is not None and "*" in text:
        words = [w.rsplit("/", 1)[-1] for w in text.split()]
        if any(w in CMDS for w in words) and not here("B609"):
            sig = None
            if q in cfg["subprocess"] and shells:
                ok, val = resolve.literal(shells[0].value)
                if ok and val is not True:
                    sig = "wildcard-needs-literal-True"
            bad("%s with '*' under a shell must additionally be B609" % "/".join(CMDS), sig)
    return out
