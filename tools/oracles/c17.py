"""Statement-level oracle for C17 (injection, templating, deserialisation, misc checks), canonical shapes only."""
import ast
import re

from oracles import resolve

SQL = re.compile(r"(select\s.*from\s|delete\s+from\s|insert\s+into\s.*values[\s(]|update\s.*set\s)", re.I | re.S)


def kw(call, name):
    ks = [k for k in call.keywords if k.arg == name]
    return ks[0].value if len(ks) == 1 else None


def plain(call):
    return not any(isinstance(a, ast.Starred) for a in call.args) and not any(k.arg is None for k in call.keywords)


def oracle(p, o):
    out = []
    if o["errors"] or "nosec" in p["src"] or p.get("config"):
        return out
    inc = set(p.get("include") or [])
    try:
        tree = ast.parse(p["src"])
    except SyntaxError:
        return out

    def on(t):
        return not inc or t in inc

    def bad(what, sig=None):
        out.append({"what": what, "input": p["src"], "config": p.get("config"),
                    "observed": [(r["test_id"], r["sev"], r["conf"], r["lineno"]) for r in o["results"]], "signature": sig})

    def at(tid, node):
        return [r for r in o["results"] if r["test_id"] == tid and node.lineno <= r["lineno"] <= getattr(node, "end_lineno", node.lineno)]

    # a module counts as imported for a call only if its import statement precedes the call in the file (a name used before
    # its import is not the module; the statement speaks about calls that denote the flagged function)
    import_line = {}
    for n in ast.walk(tree):
        if isinstance(n, ast.Import):
            for a in n.names:
                import_line[a.name] = min(import_line.get(a.name, n.lineno), n.lineno)
        elif isinstance(n, ast.ImportFrom) and n.module:
            for a in n.names:
                import_line[n.module + "." + a.name] = min(import_line.get(n.module + "." + a.name, n.lineno), n.lineno)

    class _Imported:
        def __init__(self):
            self.line = 10 ** 9
        def __contains__(self, name):
            return name in import_line and import_line[name] < self.line
    imported = _Imported()
    allcalls = [n for n in ast.walk(tree) if isinstance(n, ast.Call)]

    def lonely(c):
        return not any(d is not c and not (d.end_lineno < c.lineno or d.lineno > c.end_lineno) for d in allcalls)

    for n in ast.walk(tree):
        if isinstance(n, ast.Assert) and on("B101"):
            if not at("B101", n):
                bad("assert statement on line %d is not reported as B101" % n.lineno)
        if isinstance(n, ast.ExceptHandler) and len(n.body) == 1:
            b = n.body[0]
            bare = n.type is None or (isinstance(n.type, ast.Name) and n.type.id == "Exception")
            typed_other = isinstance(n.type, ast.Name) and n.type.id not in ("Exception",)
            for cls, tid in ((ast.Pass, "B110"), (ast.Continue, "B112")):
                if isinstance(b, cls) and on(tid):
                    got = any(r["test_id"] == tid and r["lineno"] == n.lineno for r in o["results"])
                    if bare and not got:
                        bad("bare/Exception handler with a single %s on line %d is not reported as %s" % (cls.__name__, n.lineno, tid))
                    if typed_other and got:
                        bad("handler for a specific exception on line %d is reported as %s under the default configuration" % (n.lineno, tid))
    for c, q, bound in resolve.calls_with_names(tree):
        if not plain(c) or q is None or not lonely(c):
            continue
        imported.line = c.lineno
        if q == "exec" and on("B102") and not at("B102", c):
            bad("exec() on line %d is not reported as B102" % c.lineno)
        if q == "yaml.load" and "yaml" in imported and on("B506"):
            ld = kw(c, "Loader") or (c.args[1] if len(c.args) > 1 else None)
            safe = ld is not None and ((isinstance(ld, ast.Attribute) and ld.attr in ("SafeLoader", "CSafeLoader"))
                                       or (isinstance(ld, ast.Name) and ld.id in ("SafeLoader", "CSafeLoader")))
            if ld is None and not at("B506", c):
                bad("yaml.load without a Loader on line %d is not reported as B506" % c.lineno)
            if safe and at("B506", c):
                bad("yaml.load with a safe loader on line %d is reported as B506" % c.lineno)
        if q == "yaml.safe_load" and at("B506", c):
            bad("yaml.safe_load is reported as B506")
        if q == "torch.load" and "torch" in imported and on("B614"):
            wo = kw(c, "weights_only")
            if wo is None and not any(k.arg == "weights_only" for k in c.keywords) and not at("B614", c):
                bad("torch.load without weights_only on line %d is not reported as B614" % c.lineno)
            if isinstance(wo, ast.Constant) and wo.value is True and at("B614", c):
                bad("torch.load(weights_only=True) is reported as B614")
        if q in ("logging.config.listen",) and on("B612"):
            has_verify = any(k.arg == "verify" for k in c.keywords)
            if not has_verify and len(c.args) < 2 and not at("B612", c):
                bad("logging.config.listen without verify on line %d is not reported as B612" % c.lineno)
            if has_verify and at("B612", c):
                bad("logging.config.listen(verify=...) is reported as B612")
        if q in ("mako.template.Template",) and on("B702") and not at("B702", c):
            bad("mako Template on line %d is not reported as B702" % c.lineno)
        if q == "jinja2.Environment" and on("B701"):
            ae = kw(c, "autoescape")
            if ae is None and not any(k.arg == "autoescape" for k in c.keywords) and not at("B701", c):
                bad("jinja2.Environment without autoescape on line %d is not reported as B701" % c.lineno)
            if isinstance(ae, ast.Constant) and ae.value is True and at("B701", c):
                bad("jinja2.Environment(autoescape=True) is reported as B701")
            if isinstance(ae, ast.Constant) and ae.value is False and not at("B701", c):
                bad("jinja2.Environment(autoescape=False) is not reported as B701")
    # B202: extractall with a filter keyword and no members argument - only the string literal 'data' is the safe filter; a name
    # or attribute that happens to be spelled data is a variable like any other
    if on("B202") and "tarfile" in p["src"] and "nosec" not in p["src"]:
        # the module itself imported (import tarfile): what a from-import of one of its names says about an arbitrary receiver's
        # extractall() is not something the statement settles
        first_tar = min([n.lineno for n in ast.walk(tree) if isinstance(n, ast.Import) and "tarfile" in [a.name for a in n.names if a.asname is None]]
                        or [10 ** 9])
        for c in allcalls:
            if not (isinstance(c.func, ast.Attribute) and c.func.attr == "extractall" and plain(c) and c.lineno > first_tar):
                continue
            others = [d for d in allcalls if d is not c and isinstance(d.func, ast.Attribute) and d.func.attr == "extractall"
                      and not (d.end_lineno < c.lineno or d.lineno > c.end_lineno)]
            if others:
                continue                      # two extractall calls on the same lines: attribution by line would be ambiguous
            has_members = kw(c, "members") is not None or len(c.args) >= 2 or any(k.arg == "members" for k in c.keywords)
            fl = kw(c, "filter")
            if fl is None:
                continue
            hits = at("B202", c)
            if has_members:
                # members given: how the finding is graded is the members' matter, but a filter that is a variable does not silence it
                if isinstance(fl, (ast.Name, ast.Attribute)) and not hits:
                    bad("extractall(members=..., filter=<the variable %s>): the filter is not the literal 'data', yet no B202 is reported" % ast.unparse(fl))
                continue
            if isinstance(fl, (ast.Name, ast.Attribute)):
                if len(hits) != 1 or hits[0]["sev"] != "HIGH":
                    bad("extractall(filter=<the variable %s>) without members: expected one HIGH B202, got %s" % (ast.unparse(fl), [(h["sev"], h["conf"]) for h in hits]))
            elif isinstance(fl, ast.Constant) and fl.value == "data" and hits:
                bad("extractall(filter='data') (the safe variant) is reported as B202")
    # B608 on single-statement programs: q = "<sql>" % x  /  cur.execute("<sql>" % x)
    if on("B608"):
        for n in tree.body:
            val, wrapper = None, None
            if isinstance(n, ast.Assign):
                val = n.value
            elif isinstance(n, ast.Expr) and isinstance(n.value, ast.Call) and isinstance(n.value.func, ast.Attribute) \
                    and n.value.func.attr in ("execute", "executemany") and len(n.value.args) == 1 and not n.value.keywords:
                val, wrapper = n.value.args[0], n.value
            if isinstance(val, ast.BinOp) and isinstance(val.op, (ast.Mod, ast.Add)) and isinstance(val.left, ast.Constant) \
                    and isinstance(val.left.value, str) and isinstance(val.right, ast.Name):
                hits = [r for r in o["results"] if r["test_id"] == "B608" and n.lineno <= r["lineno"] <= n.end_lineno]
                text = val.left.value
                if SQL.search(text):
                    if not hits:
                        bad("SQL string built with %s on line %d is not reported as B608" % (type(val.op).__name__, n.lineno))
                    elif (hits[0]["conf"] == "MEDIUM") != (wrapper is not None):
                        bad("B608 confidence %s on line %d (MEDIUM exactly when directly inside execute())" % (hits[0]["conf"], n.lineno))
                elif hits and not SQL.search(text + " x"):
                    bad("B608 reported for a string that does not look like SQL on line %d" % n.lineno)
            if isinstance(val, ast.Constant) and isinstance(val.value, str) and wrapper is None:
                if [r for r in o["results"] if r["test_id"] == "B608" and r["lineno"] == n.lineno]:
                    bad("a plain SQL string literal (no construction) is reported as B608")
        # f-strings, wherever the statement stands (module, class body, method): placeholders are plain names, the literal
        # parts decide whether it looks like SQL - with the placeholders dropped and with something in their place alike
        stmts = [n for n in ast.walk(tree) if isinstance(n, (ast.Assign, ast.Expr))]
        for n in stmts:
            val, wrapper = None, None
            if isinstance(n, ast.Assign):
                val = n.value
            elif isinstance(n.value, ast.Call) and isinstance(n.value.func, ast.Attribute) \
                    and n.value.func.attr in ("execute", "executemany") and len(n.value.args) == 1 and not n.value.keywords:
                val, wrapper = n.value.args[0], n.value
            if not isinstance(val, ast.JoinedStr) or "nosec" in p["src"]:
                continue
            parts = val.values
            if not any(isinstance(v, ast.FormattedValue) for v in parts) or not any(isinstance(v, ast.Constant) for v in parts):
                continue
            if not all(isinstance(v, ast.Constant) or (isinstance(v.value, ast.Name) and v.format_spec is None and v.conversion == -1) for v in parts):
                continue
            if sum(1 for m_ in stmts if m_.lineno <= n.end_lineno and m_.end_lineno >= n.lineno) != 1:
                continue                         # another statement shares the lines: attribution by line would be ambiguous
            dropped = "".join(v.value for v in parts if isinstance(v, ast.Constant))
            filled = "".join(v.value if isinstance(v, ast.Constant) else "x" for v in parts)
            hits = [r for r in o["results"] if r["test_id"] == "B608" and n.lineno <= r["lineno"] <= n.end_lineno]
            if SQL.search(dropped) and SQL.search(filled):
                if len(hits) != 1:
                    bad("SQL-looking f-string on line %d is reported as B608 %d times" % (n.lineno, len(hits)))
                elif (hits[0]["conf"] == "MEDIUM") != (wrapper is not None):
                    bad("B608 confidence %s for the f-string on line %d (MEDIUM exactly when directly inside execute())" % (hits[0]["conf"], n.lineno))
            elif hits and not SQL.search(dropped) and not SQL.search(filled) and not SQL.search(filled + " x"):
                bad("B608 reported for an f-string that does not look like SQL on line %d" % n.lineno)
    return out
