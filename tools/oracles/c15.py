"""Statement-level oracle for C15 (weak crypto / transport decision tables), canonical shapes only."""
import ast

from oracles import resolve

WEAK = {"md4", "md5", "sha", "sha1"}
VERBS = {"get", "options", "head", "post", "put", "patch", "delete"}
HTTPX = VERBS | {"request", "stream", "Client", "AsyncClient"}
KEYFUNCS = {
    "cryptography.hazmat.primitives.asymmetric.dsa.generate_private_key": ("dsa", "key_size", 0),
    "cryptography.hazmat.primitives.asymmetric.rsa.generate_private_key": ("rsa", "key_size", 1),
    "Crypto.PublicKey.DSA.generate": ("dsa", "bits", 0), "Crypto.PublicKey.RSA.generate": ("rsa", "bits", 0),
    "Cryptodome.PublicKey.DSA.generate": ("dsa", "bits", 0), "Cryptodome.PublicKey.RSA.generate": ("rsa", "bits", 0),
}
DEF_THR = {"weak_key_size_dsa_high": 1024, "weak_key_size_dsa_medium": 2048, "weak_key_size_rsa_high": 1024,
           "weak_key_size_rsa_medium": 2048, "weak_key_size_ec_high": 160, "weak_key_size_ec_medium": 224}
BAD_POLICIES = {"AutoAddPolicy", "WarningPolicy"}


def kw(call, name):
    ks = [k for k in call.keywords if k.arg == name]
    return ks[0].value if len(ks) == 1 else None


def plain(call):
    return not any(isinstance(a, ast.Starred) for a in call.args) and not any(k.arg is None for k in call.keywords)


def oracle(p, o):
    out = []
    if o["errors"] or "nosec" in p["src"]:
        return out
    inc = set(p.get("include") or [])
    try:
        tree = ast.parse(p["src"])
    except SyntaxError:
        return out
    cfg = p.get("config") or {}

    def bad(what, sig=None):
        out.append({"what": what, "input": p["src"], "config": p.get("config"),
                    "observed": [(r["test_id"], r["sev"], r["conf"], r["lineno"], r["text"][:60]) for r in o["results"]],
                    "signature": sig})

    def at(tid, node):
        return [r for r in o["results"] if r["test_id"] == tid and node.lineno <= r["lineno"] <= node.end_lineno]

    def on(tid):
        return not inc or tid in inc

    calls = [(c, q) for c, q, bound in resolve.calls_with_names(tree) if plain(c)]
    allcalls = [n for n in ast.walk(tree) if isinstance(n, ast.Call)]
    for c, q in calls:
        if q is None or any(d is not c and not (d.end_lineno < c.lineno or d.lineno > c.end_lineno) for d in allcalls):
            continue
        parts = q.split(".")
        # ---- B324
        if on("B324") and len(parts) == 2 and parts[0] == "hashlib":
            ufs = kw(c, "usedforsecurity")
            off = isinstance(ufs, ast.Constant) and ufs.value is False
            unknown_ufs = ufs is not None and not isinstance(ufs, ast.Constant)
            name = None
            if parts[1] in WEAK:
                name = parts[1]
            elif parts[1] == "new":
                a0 = c.args[0] if c.args else kw(c, "name")
                if isinstance(a0, ast.Constant) and isinstance(a0.value, str) and a0.value.isascii():
                    name = a0.value.lower() if a0.value.lower() in WEAK else "strong"
            elif parts[1] in ("sha256", "sha512", "sha3_256", "blake2b"):
                name = "strong"
            if name is not None and not unknown_ufs and not any(k.arg == "usedforsecurity" and not (isinstance(k.value, ast.Constant) and isinstance(k.value.value, bool)) for k in c.keywords):
                got = bool(at("B324", c))
                want = name != "strong" and not off
                if want != got:
                    bad("hashlib %s(usedforsecurity=%s): B324 %s reported" % (name, "False" if off else "default/True", "is" if got else "is not"))
        # ---- B505
        kc = cfg.get("weak_cryptographic_key") if isinstance(cfg, dict) else None
        thr = DEF_THR
        if isinstance(kc, dict) and set(kc) == set(DEF_THR) and all(type(v) is int for v in kc.values()):
            thr = kc                      # a complete, well-typed settings block: its thresholds are the ones in force
        if on("B505") and q in KEYFUNCS and ("weak_cryptographic_key" not in cfg or thr is kc):
            kind, kwname, pos = KEYFUNCS[q]
            v = kw(c, kwname)
            if v is None and len(c.args) > pos and not any(k.arg == kwname for k in c.keywords):
                v = c.args[pos]
            if isinstance(v, ast.Constant) and type(v.value) is int and v.value >= 0 and (kw(c, kwname) is None or len(c.args) <= pos):
                k = v.value
                hi, med = thr["weak_key_size_%s_high" % kind], thr["weak_key_size_%s_medium" % kind]
                want = "HIGH" if k < hi else "MEDIUM" if k < med else None
                hits = at("B505", c)
                got = hits[0]["sev"] if hits else None
                if want != got:
                    bad("%s key of %d bits: expected %s, bandit reports %s" % (kind.upper(), k, want, got),
                        "keysize-zero" if k == 0 else None)
        # ---- B501 / B113
        if parts[0] == "requests" and len(parts) == 2 and parts[1] in VERBS:
            ver = kw(c, "verify")
            if on("B501") and isinstance(ver, ast.Constant) and isinstance(ver.value, bool):
                if (ver.value is False) != bool(at("B501", c)):
                    bad("requests.%s(verify=%s): B501 %s reported" % (parts[1], ver.value, "is" if at("B501", c) else "is not"))
            to = kw(c, "timeout")
            if on("B113") and not any(k.arg == "timeout" for k in c.keywords):
                if not at("B113", c):
                    bad("requests.%s without timeout is not reported as B113" % parts[1])
            elif on("B113") and isinstance(to, ast.Constant) and (to.value is None or (type(to.value) in (int, float) and to.value > 0)):
                if (to.value is None) != bool(at("B113", c)):
                    bad("requests.%s(timeout=%r): B113 %s reported" % (parts[1], to.value, "is" if at("B113", c) else "is not"))
        if parts[0] == "httpx" and len(parts) == 2 and parts[1] in HTTPX and on("B113"):
            to = kw(c, "timeout")
            if isinstance(to, ast.Constant) and (to.value is None or (type(to.value) in (int, float) and to.value > 0)):
                if (to.value is None) != bool(at("B113", c)):
                    bad("httpx.%s(timeout=%r): B113 %s reported" % (parts[1], to.value, "is" if at("B113", c) else "is not"))
        # ---- B502 / B504 on ssl.wrap_socket with keyword ssl_version
        if q == "ssl.wrap_socket" and "ssl_with_bad_version" not in cfg:
            sv = kw(c, "ssl_version")
            if sv is None and not any(k.arg == "ssl_version" for k in c.keywords) and len(c.args) <= 5:
                if on("B504") and not at("B504", c):
                    bad("ssl.wrap_socket without a protocol version is not reported as B504")
            elif isinstance(sv, ast.Attribute) and isinstance(sv.value, ast.Name) and sv.value.id == "ssl":
                insecure = sv.attr in ("PROTOCOL_SSLv2", "PROTOCOL_SSLv3", "PROTOCOL_TLSv1", "PROTOCOL_TLSv1_1", "SSLv2_METHOD",
                                       "SSLv23_METHOD", "SSLv3_METHOD", "TLSv1_METHOD", "TLSv1_1_METHOD")
                secure = sv.attr in ("PROTOCOL_TLSv1_2", "PROTOCOL_TLS_CLIENT", "PROTOCOL_TLS_SERVER")
                if on("B502") and insecure and not at("B502", c):
                    bad("ssl.wrap_socket(ssl_version=ssl.%s) is not reported as B502" % sv.attr)
                if secure and (at("B502", c) or at("B504", c)):
                    bad("ssl.wrap_socket(ssl_version=ssl.%s) (secure variant) is reported" % sv.attr)
    # ---- B503: insecure protocol constants as function defaults, however deep the dotted path that names them
    BADP = ("PROTOCOL_SSLv2", "PROTOCOL_SSLv3", "PROTOCOL_TLSv1", "PROTOCOL_TLSv1_1", "SSLv2_METHOD", "SSLv23_METHOD", "SSLv3_METHOD",
            "TLSv1_METHOD", "TLSv1_1_METHOD")
    if on("B503") and "ssl_with_bad_version" not in cfg and "nosec" not in p["src"]:
        defs = [n for n in ast.walk(tree) if isinstance(n, (ast.FunctionDef, ast.AsyncFunctionDef))]
        for f in defs:
            if any(g is not f and not (g.end_lineno < f.lineno or g.lineno > f.end_lineno) for g in defs):
                continue                                     # nested or same-line definitions: attribution would be ambiguous
            hits = [r for r in o["results"] if r["test_id"] == "B503" and f.lineno <= r["lineno"] <= f.end_lineno]
            named = [d for d in f.args.defaults if isinstance(d, ast.Attribute) and resolve.dotted(d) is not None and d.attr in BADP]
            mentioned = any(isinstance(x, ast.Attribute) and x.attr in BADP or isinstance(x, ast.Name) and x.id in BADP
                            or isinstance(x, ast.Constant) and x.value in BADP
                            for d in list(f.args.defaults) + [k for k in f.args.kw_defaults if k is not None] for x in ast.walk(d))
            if named and not hits:
                bad("function %s has the insecure protocol constant %s as a default and is not reported as B503" % (f.name, ".".join(resolve.dotted(named[0]))))
            if hits and not mentioned:
                bad("B503 reported for function %s, none of whose defaults mentions an insecure protocol constant" % f.name)
    return out
