"""Independent (Python-semantics) resolution of callee names in generated programs: what a call *denotes*
given the import statements that precede it in source order.  Not bandit code."""
import ast


def dotted(n):
    if isinstance(n, ast.Name):
        return [n.id]
    if isinstance(n, ast.Attribute):
        b = dotted(n.value)
        return b + [n.attr] if b is not None else None
    return None


def calls_with_names(tree):
    """Yield (call_node, qualified_name or None) with bindings from imports seen so far (source order)."""
    binds = {}
    out = []

    class V(ast.NodeVisitor):
        def visit_Import(self, node):
            for a in node.names:
                if a.asname:
                    binds[a.asname] = a.name
                else:
                    top = a.name.split(".")[0]
                    binds[top] = top
        def visit_ImportFrom(self, node):
            if node.module is None or node.level:
                return
            for a in node.names:
                binds[a.asname or a.name] = node.module + "." + a.name
        def visit_Call(self, node):
            d = dotted(node.func)
            q = None
            if d is not None:
                root = binds.get(d[0])
                q = ".".join(([root] if root else [d[0]]) + d[1:]) if (root or len(d) >= 1) else None
                if root is None:
                    q = ".".join(d) if d[0] in binds.values() else ".".join(d)
            out.append((node, q, d is not None and d[0] in binds))
            self.generic_visit(node)
    V().visit(tree)
    return out


def literal(node):
    """(True, value) if node is a literal Python can evaluate statically, else (False, None)."""
    # ast.literal_eval also accepts the call set(): a call is not a literal (the name may be rebound)
    if any(isinstance(n, ast.Call) for n in ast.walk(node)):
        return False, None
    try:
        return True, ast.literal_eval(node)
    except Exception:
        return False, None
