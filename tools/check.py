import argparse
import importlib
import os
import sys
import traceback

sys.path.insert(0, os.path.join(os.path.dirname(os.path.abspath(__file__)), "lib"))
sys.path.insert(0, os.path.dirname(os.path.abspath(__file__)))
import core  # noqa: E402


def main():
    ap = argparse.ArgumentParser()
    ap.add_argument("pid")
    ap.add_argument("--tier", default=os.environ.get("VERIF_TIER", "quick"))
    ap.add_argument("--replay", default=None)
    a = ap.parse_args()
    seed = int(os.environ.get("VERIF_SEED", "0") or 0)
    if a.pid == "setup":
        import setup_all
        sys.exit(setup_all.main())
    mod = importlib.import_module("props." + a.pid)
    R = core.Result(a.pid, a.tier if a.tier in ("quick", "thorough") else "quick", seed)
    try:
        mod.run(R, replay=a.replay)
    except Exception:
        tb = traceback.format_exc()
        sys.stderr.write(tb)
        R.broken.append({"what": "harness failure (treated as a broken check)", "traceback": tb[-3000:]})
    finally:
        try:
            import impl
            impl.cleanup()
        except Exception:
            pass
    sys.exit(core.finish(R))


main()
