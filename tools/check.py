import argparse
import importlib
import os
import sys
import traceback

sys.path.insert(0, os.path.join(os.path.dirname(os.path.abspath(__file__)), "lib"))
sys.path.insert(0, os.path.dirname(os.path.abspath(__file__)))
import core  # noqa: E402


def main():
    ap = argparse.ArgumentParser()
    ap.add_argument("pid")
    ap.add_argument("--tier", default=os.environ.get("VERIF_TIER", "quick"))
    ap.add_argument("--replay", default=None)
    a = ap.parse_args()
    seed = int(os.environ.get("VERIF_SEED", "0") or 0)
    if a.pid == "setup":
        import setup_all
        sys.exit(setup_all.main())
    mod = importlib.import_module("props." + a.pid)
    wanted = None
    if a.replay:
        # a replay re-runs the deterministic exploration the file came from (same seed, same tier) and says which of the
        # recorded violations show up again on the tree as it is now
        import json
        rec = json.load(open(a.replay))
        seed, a.tier = int(rec.get("seed", seed)), rec.get("tier", a.tier)
        wanted = [v.get("what") for v in rec.get("violations", [])] + [b.get("what") for b in rec.get("broken", [])]
        for v in rec.get("violations", [])[:3]:
            print("REPLAY recorded: %s\n  input: %s" % (v.get("what"), json.dumps(v.get("input"), default=str)[:600]))
    R = core.Result(a.pid, a.tier if a.tier in ("quick", "thorough") else "quick", seed)
    try:
        mod.run(R, replay=a.replay)
    except Exception:
        tb = traceback.format_exc()
        sys.stderr.write(tb)
        R.broken.append({"what": "harness failure (treated as a broken check)", "traceback": tb[-3000:]})
    finally:
        try:
            import impl
            impl.cleanup()
        except Exception:
            pass
    if wanted is not None:
        now = {v.get("what") for v in R.violations} | {b.get("what") for b in R.broken}
        again = [w for w in wanted if w in now]
        print("REPLAY: %d of %d recorded violations reproduce on the current tree" % (len(again), len(wanted)))
    sys.exit(core.finish(R))


main()
