"""MANIFEST.setup_cmd: regenerate Gen/ from /repo and build the whole Coq development from clean."""
import os
import subprocess
import sys

import core


def main():
    failed = core.gen()
    if failed:
        print("translator failures:", failed)
    with core.Lock():
        subprocess.run(["coq_makefile", "-f", "_CoqProject", "-o", "Makefile"], cwd=core.COQ, check=True)
        p = subprocess.run(["make", "-j%d" % core.NCPU], cwd=core.COQ, capture_output=True, text=True)
    tail = (p.stdout + p.stderr)[-3000:]
    if p.returncode != 0:
        print(tail)
        return 1
    print("setup ok")
    return 0
