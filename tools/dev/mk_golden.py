"""Write coq/theories/Inst/Golden.v: the source digests (tools/translate/gen_facts.py:sources) of the /repo tree the hand-written
models were last validated against, and per property the functions its model transliterates.  Re-run deliberately after a
change to /repo whose effect on the models has been dealt with (fix commits):  python3 tools/dev/mk_golden.py"""
import os
import re
import subprocess
import sys
import tempfile

V = os.path.dirname(os.path.dirname(os.path.dirname(os.path.abspath(__file__))))
sys.path.insert(0, os.path.join(V, "tools", "lib"))
import coqlit as L  # noqa: E402

M, NV, T, U, I, C = "core.manager:", "core.node_visitor:BanditNodeVisitor.", "core.tester:BanditTester.", "core.utils:", "core.issue:", "core.context:Context."
# per property: the functions its "anchors" (properties.jsonl) name as its mechanism - these are what its model transliterates
TIES = {
    "C01": [NV + "__init__", NV + "visit_Import", NV + "visit_ImportFrom", NV + "visit_Call", U + "get_call_name", U + "_get_attr_qual_name",
            "core.blacklisting:"],
    "C02": [M + "_parse_nosec_comment", M + "_find_test_id_from_nosec_string", M + "BanditManager._parse_file",
            "core.extension_loader:Manager.get_test_id", "core.extension_loader:Manager.check_id", T + "_get_nosecs_from_contexts",
            T + "run_tests", U + "get_nosec", U + "linerange", "core.metrics:Metrics.note_nosec", "core.metrics:Metrics.note_skipped_test"],
    "C03": ["cli.main:main", I + "Issue.filter", M + "BanditManager.filter_results", M + "BanditManager.results_count"],
    "C04": [M + "BanditManager.run_tests", M + "BanditManager._parse_file", M + "BanditManager._execute_ast_visitor"],
    "C05": ["core.test_set:BanditTestSet.", "cli.main:_get_profile", "core.extension_loader:Manager.validate_profile"],
    "C06": [T + "run_tests", T + "report_error", C + "call_args", C + "call_keywords", C + "get_call_arg_at_position", C + "_get_literal_value"],
    "C07": [M + "BanditManager.populate_baseline", M + "BanditManager.filter_results", M + "_compare_baseline_results",
            M + "_find_candidate_matches", I + "issue_from_dict", I + "Issue.from_dict", I + "Issue.__eq__", I + "Cwe.__eq__",
            I + "Issue.as_dict", "formatters.json:report"],
    "C08": [M + "BanditManager._execute_ast_visitor", M + "BanditManager.discover_files", NV + "__init__", "core.extension_loader:",
            "core.test_set:BanditTestSet._load_builtins", "core.test_set:BanditTestSet._load_tests", "core.docs_utils:get_url"],
    "C09": [M + "BanditManager.output_results", I + "Issue.as_dict", I + "Issue.get_code", I + "Cwe.as_dict", "formatters."],
    "C10": [NV + "pre_visit", NV + "visit_Str", NV + "visit_Constant", NV + "visit_Bytes", U + "linerange", U + "calc_linerange",
            T + "run_tests", C + "get_lineno_for_call_arg", I + "Issue.get_code"],
    "C11": [M + "BanditManager.discover_files", M + "_get_files_from_dir", M + "_is_file_included", M + "_matches_glob_list"],
    "C12": [T + "run_tests", NV + "update_scores", "core.metrics:"],
    "C13": ["core.config:BanditConfig.__init__", "core.config:BanditConfig.validate", "core.config:BanditConfig.get_option",
            U + "parse_ini_file", "cli.main:_get_options_from_ini", "cli.main:_log_option_source", "cli.main:_ini_int", "cli.main:main",
            "core.test_set:BanditTestSet._load_tests", "cli.config_generator:get_config_settings", "cli.config_generator:main"],
    "C14": ["plugins.injection_shell:", "plugins.injection_wildcard:", C + "call_args", C + "call_keywords", C + "call_function_name_qual",
            C + "get_call_arg_value", C + "check_call_arg_value", C + "_get_literal_value"],
    "C15": ["plugins.hashlib_insecure_functions:", "plugins.weak_cryptographic_key:", "plugins.insecure_ssl_tls:",
            "plugins.crypto_request_no_cert_validation:", "plugins.request_without_timeout:", "plugins.ssh_no_host_key_verification:",
            "plugins.snmp_security_check:", C + "check_call_arg_value", C + "get_call_arg_value", C + "function_def_defaults_qual"],
    "C16": ["plugins.general_hardcoded_password:", "plugins.general_hardcoded_tmp:", "plugins.general_bind_all_interfaces:",
            "plugins.general_bad_file_permissions:", NV + "visit_Str", NV + "visit_Constant"],
    "C17": ["plugins.injection_sql:", "plugins.django_sql_injection:", "plugins.django_xss:", "plugins.jinja2_templates:",
            "plugins.mako_templates:", "plugins.markupsafe_markup_xss:", "plugins.yaml_load:", "plugins.pytorch_load:",
            "plugins.tarfile_unsafe_members:", "plugins.app_debug:", "plugins.logging_config_insecure_listen:",
            "plugins.injection_paramiko:", "plugins.exec:", "plugins.asserts:", "plugins.try_except_pass:",
            "plugins.try_except_continue:", U + "concat_string"],
    "C18": ["core.extension_loader:", "core.test_properties:", "core.docs_utils:get_url"],
    "C19": [M + "BanditManager.run_tests", M + "BanditManager._parse_file", I + "Issue.get_code", NV + "process", "plugins.trojansource:"],
    "C20": ["cli.baseline:"],
}

def main():
    repo = os.environ.get("VERIF_REPO", "/repo")
    d = tempfile.mkdtemp()
    env = dict(os.environ, PYTHONPATH=repo, VERIF_REPO=repo)
    subprocess.run(["/venv/bin/python", os.path.join(V, "tools", "translate", "gen_facts.py"), d], check=True, env=env, cwd=repo)
    src = open(os.path.join(d, "Sources.v")).read()
    m = re.search(r"Definition SRC : list \(pstr \* pstr\) := (.*)\.\n", src, re.S)
    body = ("(* The source digests of the /repo tree the hand-written models were last validated against (written by\n"
            "   tools/dev/mk_golden.py at /repo commit %s), and per property the functions its model transliterates: an edit to one\n"
            "   of them - or a new function next to them - breaks the property's source-tie obligation until the model has been\n"
            "   looked at again. *)\n"
            "From Coq Require Import List NArith ZArith Bool String.\nFrom Bandit Require Import Base.PyStr.\nImport ListNotations.\n\n"
            % subprocess.run(["git", "-C", repo, "log", "--format=%h", "-1"], capture_output=True, text=True).stdout.strip())
    body += "Definition GOLDEN : list (pstr * pstr) := %s.\n\n" % m.group(1)
    body += ("Definition under (prefixes : list pstr) (name : pstr) : bool := existsb (fun p => startswith name p) prefixes.\n"
             "(* every function under the prefixes has the digest it had, and no function has appeared or disappeared there *)\n"
             "Definition source_tie (current : list (pstr * pstr)) (prefixes : list pstr) : bool :=\n"
             "  forallb (fun kv => negb (under prefixes (fst kv))\n"
             "                     || match assoc (fst kv) current with Some d => pstr_eqb d (snd kv) | None => false end) GOLDEN\n"
             "  && forallb (fun kv => negb (under prefixes (fst kv))\n"
             "                        || match assoc (fst kv) GOLDEN with Some _ => true | None => false end) current\n"
             "  && negb (match filter (fun kv => under prefixes (fst kv)) GOLDEN with [] => true | _ => false end).\n\n")
    for pid, pre in sorted(TIES.items()):
        body += "Definition golden_%s : list pstr := %s.\n" % (pid, L.lst([L.pstr(x) for x in pre], "pstr"))
    open(os.path.join(V, "coq", "theories", "Inst", "Golden.v"), "w").write(body)
    import shutil
    shutil.rmtree(d, ignore_errors=True)
    print("Golden.v written")


main()
