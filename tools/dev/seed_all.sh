#!/bin/sh
# usage: seed_all.sh <ids...>   e.g. C01 C02 ; evaluates /tmp/mut/out_<id>/{A,B}.diff against check <id>
mkdir -p /tmp/seedres
for id in "$@"; do
  for v in A B; do
    if [ -f /tmp/mut/out_$id/$v.diff ]; then
      /venv/bin/python /verif/tools/dev/seed_eval.py $id-$v /tmp/mut/out_$id/$v.diff /tmp/mut/out_$id/demo_$v.py $id > /tmp/seedres/$id-$v.json 2>/tmp/seedres/$id-$v.err
    fi
  done
done
echo ALLDONE
