"""Re-run the tool calls (Bash / Write / Edit) of a sub-agent transcript, in order, to rebuild the files it produced.
usage: replay_agent.py <transcript.jsonl> <start-cwd>"""
import json
import os
import subprocess
import sys

tr, cwd = sys.argv[1:3]
start = cwd
seen = set()
calls = []
for l in open(tr):
    d = json.loads(l)
    c = (d.get("message") or {}).get("content")
    if isinstance(c, list):
        for b in c:
            if b.get("type") == "tool_use" and b["id"] not in seen:
                seen.add(b["id"])
                calls.append((b["name"], b["input"]))
cwdfile = os.path.join("/tmp", "replay_cwd_%d" % os.getpid())
for name, inp in calls:
    if name == "Bash":
        cmd = inp["command"]
        script = 'cd %s || exit 97\n%s\n__rc=$?\npwd > %s\nexit $__rc\n' % (json.dumps(cwd), cmd, cwdfile)
        try:
            p = subprocess.run(["bash", "-c", script], capture_output=True, text=True, timeout=1500)
            if os.path.exists(cwdfile):
                cwd = open(cwdfile).read().strip() or cwd
                if not (cwd + "/").startswith(start + "/"):
                    cwd = start           # the harness resets a shell that has left the agent's working directory
            print("BASH rc=%s %s" % (p.returncode, cmd[:100].replace("\n", " ")))
        except subprocess.TimeoutExpired:
            print("BASH TIMEOUT", cmd[:100])
    elif name == "Write":
        os.makedirs(os.path.dirname(inp["file_path"]), exist_ok=True)
        open(inp["file_path"], "w").write(inp["content"])
        print("WRITE", inp["file_path"])
    elif name == "Edit":
        try:
            s = open(inp["file_path"]).read()
            if inp["old_string"] not in s:
                print("EDIT-NOMATCH", inp["file_path"])
                continue
            s = s.replace(inp["old_string"], inp["new_string"]) if inp.get("replace_all") else s.replace(inp["old_string"], inp["new_string"], 1)
            open(inp["file_path"], "w").write(s)
            print("EDIT", inp["file_path"])
        except Exception as e:
            print("EDIT-ERROR", inp["file_path"], e)
if os.path.exists(cwdfile):
    os.remove(cwdfile)
