"""Dev tool: compare the model scan with the real bandit on given sources.
usage: PYTHONPATH=/repo:/verif/tools/lib:/verif/tools /venv/bin/python tools/dev/try_scan.py \
          --ids B602,B603 [--plugins Plugins.Shell:shell_plugins] [--config '{"shell_injection": {...}}'] file.py ... | --gen gen.fam_shell [--tier quick]
Each file may hold several programs separated by lines '#---'."""
import argparse
import importlib
import json
import random
import sys

import core
import impl
import scancorr


def main():
    ap = argparse.ArgumentParser()
    ap.add_argument("--ids", default="")
    ap.add_argument("--plugins", default="Plugins.All:all_plugins")
    ap.add_argument("--config", default=None)
    ap.add_argument("--gen", default=None)
    ap.add_argument("--tier", default="quick")
    ap.add_argument("--seed", type=int, default=0)
    ap.add_argument("--max-show", type=int, default=5)
    ap.add_argument("files", nargs="*")
    a = ap.parse_args()
    progs = []
    cfg = json.loads(a.config) if a.config else None
    ids = [x for x in a.ids.split(",") if x]
    if a.gen:
        mod = importlib.import_module(a.gen)
        progs = mod.programs(random.Random(a.seed), a.tier)
    for f in a.files:
        for chunk in open(f).read().split("\n#---\n"):
            progs.append({"src": chunk, "include": ids, "config": cfg})
    outs, mism, broken = scancorr.run_cases(progs, None, "dev", tuple(a.plugins.split(":")))
    print("programs: %d   mismatches: %d   broken shards: %d" % (len(progs), len(mism), len(broken)))
    nres = sum(len(o["results"]) for o in outs)
    nerr = sum(len(o["errors"]) for o in outs)
    print("implementation findings: %d   internal errors: %d   skipped files: %d" % (
        nres, nerr, sum(1 for o in outs if o["skipped"])))
    for b in broken[:2]:
        print("BROKEN:", b["what"], "\n", b["log"])
    for i, tail in mism[:a.max_show]:
        print("=" * 70)
        print("MISMATCH on program %d:\n%s" % (i, progs[i]["src"]))
        print("include:", progs[i].get("include"), "config:", progs[i].get("config"))
        print("implementation:", json.dumps({k: outs[i][k] for k in ("results", "errors", "nosec", "skipped_tests", "scores")}, default=str)[:3000])
    if mism:
        print("-" * 70, "\nmodel outputs of the first mismatches in the last failing shard (raw Coq terms):\n", mism[-1][1])
    impl.cleanup()
    return 1 if (mism or broken) else 0


sys.exit(main())
