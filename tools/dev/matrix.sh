#!/bin/sh
# Cross matrix: every stored seeded change against every property's quick check, in an isolated copy of /verif and a
# clone of /repo (so that work in /verif and /repo can go on).  usage: matrix.sh <outdir> <seed-id>...
OUT=$1; shift
VM=/tmp/vm; RM=/tmp/repo_m
rm -rf $VM $RM; mkdir -p $OUT
rsync -a --exclude .git --exclude replays --exclude evidence /verif/ $VM/
git clone -q /repo $RM
cat > $VM/check <<EOF
#!/bin/sh
cd $VM || exit 2
exec env VERIF_REPO=$RM PYTHONPATH=$RM:$VM/tools/lib:$VM/tools PYTHONHASHSEED=0 PYCQA_BANDIT_VERIF=1 PYTHONDONTWRITEBYTECODE=1 \\
  /venv/bin/python -W ignore $VM/tools/check.py "\$@"
EOF
chmod +x $VM/check
(cd $VM && ./check setup > $OUT/setup.log 2>&1)
for id in "$@"; do
  git -C $RM apply /verif/seeded/$id/patch.diff || { echo "$id: patch does not apply" >> $OUT/errors.log; continue; }
  line="$id"
  for p in C01 C02 C03 C04 C05 C06 C07 C08 C09 C10 C11 C12 C13 C14 C15 C16 C17 C18 C19 C20; do
    (cd $VM && ./check $p > $OUT/$id.$p.log 2>&1); rc=$?
    kind=$(grep -c "no-failing-input-found" $OUT/$id.$p.log)
    line="$line $p=$rc/$kind"
  done
  echo "$line" >> $OUT/matrix.txt
  git -C $RM checkout -q -- . ; git -C $RM clean -fdq
done
echo MATRIXDONE >> $OUT/matrix.txt
