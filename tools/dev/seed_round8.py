"""Round 8 helper: confirm a sub-agent's change (demo both ways, suite with the change), run the property's check against it in
/repo, undo it, and store it as seeded/<Cxx>-<letter>.
usage: seed_round8.py Cxx LETTER "files,changed" "summary" "needs to manifest"
Expects the worktree /tmp/wt8_Cxx and the agent's output /tmp/wt8_out_Cxx/{A.diff,demo_A.py,notes.md}."""
import json
import os
import shutil
import subprocess
import sys

p, letter, files, what, needs = sys.argv[1:6]
w, o = "/tmp/wt8_%s" % p, "/tmp/wt8_out_%s" % p
env = dict(os.environ, PYTHONPATH=w)


def sh(cmd, **kw):
    return subprocess.run(cmd, shell=True, capture_output=True, text=True, **kw)


subprocess.run(["git", "-C", w, "checkout", "--", "."])
clean = sh("/venv/bin/python demo_A.py", cwd=o, env=env, timeout=600).returncode
assert sh("git -C %s apply %s/A.diff" % (w, o)).returncode == 0, "patch does not apply"
r = sh("/venv/bin/python demo_A.py", cwd=o, env=env, timeout=600)
changed, tail = r.returncode, (r.stdout + r.stderr)[-400:]
suite = sh("/venv/bin/python -m pytest -q -p no:cacheprovider --timeout=900 2>&1 | tail -1", cwd=w, env=env, timeout=1800).stdout.strip()
print("demo clean=%s changed=%s suite: %s" % (clean, changed, suite))
if clean != 0 or changed == 0 or "17 failed, 256 passed" not in suite or "1 error" not in suite:
    print("NOT CONFIRMED")
    sys.exit(2)
assert sh("git -C /repo status --porcelain").stdout.strip() == "", "/repo is not clean"
assert sh("git -C /repo apply %s/A.diff" % o).returncode == 0
try:
    c = sh("cd /verif && timeout 1500 ./check %s" % p)
finally:
    subprocess.run(["git", "-C", "/repo", "checkout", "--", "."])
vl = [l for l in c.stdout.splitlines() if l.startswith("VIOLATION")]
rep = {}
if vl:
    rep = json.load(open("/verif/replays/%s/0-quick.json" % p))
viol = [str(x.get("what"))[:200] for x in (rep.get("violations") or [])[:3]]
brk = [str(x.get("what"))[:200] for x in (rep.get("broken") or [])[:3]]
caught = c.returncode == 1 and bool(vl)
print("check exit=%s caught=%s" % (c.returncode, caught))
for x in viol:
    print("  V:", x)
for x in brk:
    print("  B:", x)
d = "/verif/seeded/%s-%s" % (p, letter)
os.makedirs(d, exist_ok=True)
shutil.copy(o + "/A.diff", d + "/patch.diff")
shutil.copy(o + "/demo_A.py", d + "/demo.py")
shutil.copy(o + "/notes.md", d + "/notes.md")
meta = {"id": "%s-%s" % (p, letter), "breaks_property": p, "files_changed": ["bandit/" + f.strip() for f in files.split(",")], "round": 8,
        "author": "fresh sub-agent given only the property text and a scratch worktree of /repo",
        "summary": what, "needs_to_manifest": needs,
        "confirmed": {"pinned_tests_with_change": suite + " - the same as the unchanged tree", "demo_exit_on_unchanged_tree": clean,
                      "demo_exit_with_change": changed, "demo_output_tail": tail},
        "what_was_run": ["git -C <worktree> apply patch.diff; PYTHONPATH=<worktree> /venv/bin/python demo.py",
                         "PYTHONPATH=<worktree> /venv/bin/python -m pytest -q -p no:cacheprovider --timeout=900",
                         "git -C /repo apply patch.diff; ./check %s; git -C /repo checkout -- ." % p],
        "check_runs": [{"run": "first run, machinery as committed (session 4)", "check": p, "tier": "quick", "exit": c.returncode,
                        "caught": caught, "caught_by": ("failing-input" if viol else "obligation/correspondence") if caught else None,
                        "violation_line": vl[0] if vl else None, "first_violations": viol, "first_broken": brk}]}
json.dump(meta, open(d + "/meta.json", "w"), indent=1)
print("stored", d)
