"""Store the changes of a later round (<MUT>/out_Cxx/{A,B}.*) as /verif/seeded/Cxx-{G,H} (round 5) or Cxx-{I,J} (ROUND=6); same
layout as seed_store.py.   usage: [MUT5=<dir>] [ROUND=6] seed_store5.py <first-resultdir> <final-resultdir>"""
import glob
import json
import os
import re
import shutil
import sys

first_d, final_d = sys.argv[1:3]
for i in range(1, 21):
    cid = "C%02d" % i
    src = os.environ.get("MUT5", "/var/tmp/mut5_backup") + "/out_%s" % cid
    notes = open(src + "/notes.md").read() if os.path.exists(src + "/notes.md") else ""
    ROUND = int(os.environ.get("ROUND", "5"))
    for v, w in {5: (("A", "G"), ("B", "H")), 6: (("A", "I"), ("B", "J")), 7: (("A", "K"), ("B", "L"))}[ROUND]:
        name = "%s-%s" % (cid, w)
        runs = []
        for d in (first_d, final_d):
            fs = glob.glob(os.path.join(d, "*", "%s-%s.json" % (cid, v))) + glob.glob(os.path.join(d, "%s-%s.json" % (cid, v)))
            if fs:
                runs.append(json.load(open(fs[0])))
        if len(runs) != 2:
            print(name, "incomplete", len(runs))
            continue
        out = "/verif/seeded/" + name
        os.makedirs(out, exist_ok=True)
        shutil.copy("%s/%s.diff" % (src, v), out + "/patch.diff")
        shutil.copy("%s/demo_%s.py" % (src, v), out + "/demo.py")
        open(out + "/notes.md", "w").write("(the author's notes for both changes of this property; this directory holds change %s)\n\n" % v + notes)
        files = sorted(set(re.findall(r"^\+\+\+ b/(\S+)", open(out + "/patch.diff").read(), re.M)))
        first = runs[0]
        meta = {"id": name, "breaks_property": cid, "files_changed": files, "round": ROUND,
                "author": "fresh sub-agent given only the property text and a scratch worktree of /repo"
                          + ("; asked not to edit any function the property's anchors name" if v == "B" else ""),
                "needs_to_manifest": "see notes.md (the author's own description, kept verbatim)",
                "confirmed": {"pinned_tests_with_change": "same pass/fail sets as the unchanged tree (author's run; baseline.txt/after_%s.txt compared)" % v,
                              "demo_exit_on_unchanged_tree": first.get("demo_clean"), "demo_exit_with_change": first.get("demo_patched"),
                              "demo_output_tail": (first.get("demo_out") or "")[-300:]},
                "what_was_run": ["git apply patch.diff (isolated clone of /repo, tools/dev/seed_iso.sh)", "PYTHONPATH=<clone> /venv/bin/python demo.py",
                                 "./check %s --tier quick" % cid, "git checkout -- ."],
                "check_runs": []}
        for k, r in enumerate(runs):
            for p, c in (r.get("checks") or {}).items():
                meta["check_runs"].append({"run": "first machinery" if k == 0 else "after strengthening", "check": p, "tier": r.get("tier"),
                                           "exit": c["exit"], "caught": c["exit"] != 0, "caught_by": c.get("caught_by"),
                                           "violation_line": (c.get("violation_lines") or [None])[0],
                                           "first_violations": c.get("violations", [])[:3], "first_broken": c.get("broken", [])[:3], "wall_s": c.get("wall_s")})
        meta["caught_by_final_machinery"] = bool(meta["check_runs"]) and meta["check_runs"][-1]["caught"]
        json.dump(meta, open(out + "/meta.json", "w"), indent=1)
        print(name, "caught" if meta["caught_by_final_machinery"] else "MISSED", meta["check_runs"][-1].get("caught_by"), files)
