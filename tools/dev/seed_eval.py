"""Evaluate one seeded change: apply to /repo, run the pinned tests, the demonstration and the given checks, undo.
usage: seed_eval.py <name> <patch> <demo.py|-> <prop>[,<prop>...] [--tier quick|thorough] [--skip-tests]
Prints one JSON object."""
import json
import os
import re
import subprocess
import sys
import time

REPO = os.environ.get("SEED_REPO", "/repo")
CHECKDIR = os.environ.get("SEED_VERIF", "/verif")


def sh(cmd, timeout=3600, env=None):
    e = dict(os.environ)
    e.update(env or {})
    p = subprocess.run(cmd, shell=True, capture_output=True, text=True, timeout=timeout, env=e)
    return p.returncode, p.stdout + p.stderr


def main():
    name, patch, demo, props = sys.argv[1:5]
    tier = "quick"
    if "--tier" in sys.argv:
        tier = sys.argv[sys.argv.index("--tier") + 1]
    out = {"name": name, "patch": patch, "tier": tier}
    rc, o = sh("git -C %s status --porcelain" % REPO)
    if o.strip():
        print(json.dumps({"error": "/repo not clean", "status": o}))
        return
    if demo != "-":
        rc, o = sh("cd /tmp && PYTHONPATH=%s /venv/bin/python %s" % (REPO, demo), timeout=600)
        out["demo_clean"] = rc
    rc, o = sh("git -C %s apply %s" % (REPO, patch))
    if rc != 0:
        print(json.dumps({"error": "patch does not apply", "log": o}))
        return
    try:
        if "--skip-tests" not in sys.argv:
            rc, o = sh("cd %s && /venv/bin/python -m pytest -q -p no:cacheprovider --timeout=900 --continue-on-collection-errors 2>&1 | tail -1" % REPO, timeout=1800)
            out["tests"] = o.strip()[-120:]
        if demo != "-":
            rc, o = sh("cd /tmp && PYTHONPATH=%s /venv/bin/python %s" % (REPO, demo), timeout=600)
            out["demo_patched"] = rc
            out["demo_out"] = o[-300:]
        out["checks"] = {}
        for p in props.split(","):
            t0 = time.time()
            rc, o = sh("cd %s && ./check %s --tier %s" % (CHECKDIR, p, tier), timeout=7200)
            lines = [l for l in o.splitlines() if l.startswith(("VIOLATION", "KNOWN-FINDING"))]
            viol = [l for l in lines if l.startswith("VIOLATION")]
            rec = {"exit": rc, "violation_lines": viol, "wall_s": round(time.time() - t0, 1)}
            for l in viol:
                m = re.search(r"replay=(\S+)", l)
                if m and os.path.exists(m.group(1)):
                    try:
                        r = json.load(open(m.group(1)))
                        rec["violations"] = [v.get("what", "")[:160] for v in r.get("violations", [])[:4]]
                        rec["broken"] = [b.get("what", "")[:200] for b in r.get("broken", [])[:4]]
                        rec["n_violations"] = len(r.get("violations", []))
                        rec["n_broken"] = len(r.get("broken", []))
                        other = [b for b in r.get("broken", []) if "source tie" not in b.get("what", "")]
                        rec["caught_by"] = ("failing-input" if r.get("violations") else
                                            "obligation-or-correspondence" if other else "source-tie-only")
                    except Exception as e:
                        rec["replay_error"] = str(e)
            out["checks"][p] = rec
    finally:
        sh("git -C %s checkout -- . && git -C %s clean -fdq" % (REPO, REPO))
    print(json.dumps(out, indent=1))


main()
