#!/bin/sh
# Evaluate seeded changes in an isolated copy of /verif and clone of /repo.
# usage: seed_iso.sh <outdir> <mutdir> <Cxx-V>...   (patch = <mutdir>/out_Cxx/V.diff, demo = demo_V.py; check = Cxx quick)
OUT=$1; MUT=$2; shift 2
VM=$(mktemp -d /tmp/vmiso.XXXX); RM=$(mktemp -d /tmp/repoiso.XXXX); mkdir -p $OUT
rsync -a --exclude .git --exclude replays --exclude evidence /verif/ $VM/
rmdir $RM; git clone -q /repo $RM
cat > $VM/check <<EOF
#!/bin/sh
cd $VM || exit 2
exec env VERIF_REPO=$RM PYTHONPATH=$RM:$VM/tools/lib:$VM/tools PYTHONHASHSEED=0 PYCQA_BANDIT_VERIF=1 PYTHONDONTWRITEBYTECODE=1 \\
  /venv/bin/python -W ignore $VM/tools/check.py "\$@"
EOF
chmod +x $VM/check
(cd $VM && ./check setup > $OUT/setup.log 2>&1)
for x in "$@"; do
  id=${x%-*}; v=${x#*-}
  SEED_REPO=$RM SEED_VERIF=$VM /venv/bin/python $VM/tools/dev/seed_eval.py $x $MUT/out_$id/$v.diff $MUT/out_$id/demo_$v.py $id --skip-tests > $OUT/$x.json 2>$OUT/$x.err
done
rm -rf $VM $RM
echo ISODONE
