"""Store evaluated seeded changes under /verif/seeded/<id>/ (patch.diff, demo.py, notes.md, meta.json).
usage: seed_store.py <resultdir>[,<resultdir2>...] <ids...>   later result dirs override earlier ones per seed."""
import json
import os
import re
import shutil
import sys

dirs = sys.argv[1].split(",")
for cid in sys.argv[2:]:
    notes = open("/tmp/mut/out_%s/notes.md" % cid).read() if os.path.exists("/tmp/mut/out_%s/notes.md" % cid) else ""
    for v in "AB":
        name = "%s-%s" % (cid, v)
        runs = []
        for d in dirs:
            f = os.path.join(d, name + ".json")
            if os.path.exists(f):
                try:
                    runs.append(json.load(open(f)))
                except Exception:
                    pass
        if not runs or not os.path.exists("/tmp/mut/out_%s/%s.diff" % (cid, v)):
            continue
        out = "/verif/seeded/%s" % name
        os.makedirs(out, exist_ok=True)
        shutil.copy("/tmp/mut/out_%s/%s.diff" % (cid, v), os.path.join(out, "patch.diff"))
        shutil.copy("/tmp/mut/out_%s/demo_%s.py" % (cid, v), os.path.join(out, "demo.py"))
        # the author's description of this change: the section of notes.md about A resp. B
        m = re.search(r"(^#+\s*(?:Change\s+|Mutant\s+)?%s\b.*?)(?=^#+\s*(?:Change\s+|Mutant\s+)?[%s]\b|^#+\s*Commands|\Z)" % (v, "B" if v == "A" else "C"), notes, re.S | re.M)
        open(os.path.join(out, "notes.md"), "w").write((m.group(1) if m else notes).strip() + "\n")
        first, last = runs[0], runs[-1]
        files = sorted(set(re.findall(r"^\+\+\+ b/(\S+)", open(os.path.join(out, "patch.diff")).read(), re.M)))
        meta = {
            "id": name, "breaks_property": cid, "files_changed": files,
            "author": "fresh sub-agent given only the property text and a scratch worktree of /repo",
            "needs_to_manifest": "see notes.md (the author's own description, kept verbatim)",
            "confirmed": {
                "pinned_tests_with_change": first.get("tests"),
                "demo_exit_on_unchanged_tree": first.get("demo_clean"),
                "demo_exit_with_change": first.get("demo_patched"),
                "demo_output_tail": (first.get("demo_out") or "")[-300:],
            },
            "what_was_run": ["git -C /repo apply patch.diff", "pinned test suite", "PYTHONPATH=/repo /venv/bin/python demo.py",
                             "./check %s --tier quick" % cid, "git -C /repo checkout -- ."],
            "check_runs": [],
        }
        for i, r in enumerate(runs):
            for p, c in (r.get("checks") or {}).items():
                meta["check_runs"].append({
                    "run": "first machinery" if i == 0 and len(runs) > 1 else ("after strengthening" if i > 0 else "machinery as it was"),
                    "check": p, "tier": r.get("tier"), "exit": c["exit"], "caught": c["exit"] != 0,
                    "violation_line": (c.get("violation_lines") or [None])[0],
                    "first_violations": c.get("violations", [])[:3], "first_broken": c.get("broken", [])[:3], "wall_s": c.get("wall_s")})
        meta["caught_by_final_machinery"] = bool(meta["check_runs"]) and meta["check_runs"][-1]["caught"]
        json.dump(meta, open(os.path.join(out, "meta.json"), "w"), indent=1)
        print(name, "caught" if meta["caught_by_final_machinery"] else "MISSED", files)
