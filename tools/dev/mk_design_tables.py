"""Regenerate the generated parts of DESIGN.md (between <!-- BEGIN x --> / <!-- END x --> markers)."""
import glob
import json
import os
import re

V = "/verif"


DESC = {
    "C01-A": "`__import__('a.b')` literal cut at the first dot unless a fromlist is given: dotted rules missed",
    "C01-B": "a def/class named like an import alias removes the alias (the visitor has no scopes)",
    "C02-A": "nosec name lookup lower-cases the name: the two rule names with capitals turn into a bare nosec",
    "C02-B": "`get_nosec` unions comment sets in place, mutating the stored set of the first line",
    "C03-A": "`results_count` fast path passes the thresholds to `Issue.filter` in the wrong order",
    "C03-B": "the `-i` overflow test reads `args.severity`: `-iiii` scans, then dies with IndexError",
    "C04-A": "the progress bar iterates the working copy files are removed from (needs > 50 files, default verbosity)",
    "C04-B": "the SyntaxError skip reason quotes `e.text.strip()`; `text` is None for codec failures",
    "C05-A": "the B001 expansion test is computed over include and exclude together",
    "C05-B": "`pre_visit` returns early for import statements no selected test is registered for: the alias tables are not filled",
    "C06-A": "B609 renders the argument list with `' '.join` (non-string element raises)",
    "C06-B": "`check_call_arg_value` tests membership through a frozenset (unhashable literal raises)",
    "C07-A": "baseline matching by a hand-written key that lacks the confidence",
    "C07-B": "`as_dict` flattens multi-line messages: the text written to a baseline no longer equals the finding's",
    "C08-A": "the test set is built by iterating the filter *set*: order follows the hash seed",
    "C08-B": "`get_url` writes the combined documentation id into the live registry entry",
    "C09-A": "`-a vuln` sorts JSON/YAML by test id instead of test name",
    "C09-B": "SARIF `to_uri` keeps `%` unescaped",
    "C10-A": "excerpt window anchored at the range start and capped at -n",
    "C10-B": "compound statements get a header-only line range (empty when the body is on the header line)",
    "C11-A": "files whose real path was already seen are dropped: a symlinked file lands in neither list",
    "C11-B": "exclude strings tested against the directory part only",
    "C12-A": "the nosec counter counts a line once however many findings it withholds",
    "C12-B": "`count_locs` fed from `readlines()`: bare CR line ends are not line ends",
    "C13-A": "CLI/INI selection merged into the file's by set algebra: split contradictions scan silently",
    "C13-B": "plugin settings looked up under the plugin name before the documented block name",
    "C14-A": "the literal-command test loses its `str` check: bytes/number commands graded LOW",
    "C14-B": "B603 no longer reports the line of the `shell=` keyword",
    "C15-A": "B502 looks at `method` *or* `ssl_version`, whichever it finds first",
    "C15-B": "B501 splits the qualified name at the first dot: `requests.api.get` is missed",
    "C16-A": "the candidate regex loses IGNORECASE; one call site (attribute on the left of a comparison) is not migrated",
    "C16-B": "B107 extended to keyword-only parameters with the padding computed from the extended list",
    "C17-A": "B608's once-per-f-string guard requires the literal to be `values[0]`",
    "C17-B": "B610's where/tables loop lets the later key overwrite the verdict",
    "C18-A": "`get_test_id` lower-cases names: two rules no longer resolve by name",
    "C18-B": "`get_url` poisons the registry id of B313-B320",
    "C19-A": "B613 pre-filters on raw bytes with a BOM-prefixed encoding of the character",
    "C19-B": "the SyntaxError handler logs `e.text.rstrip()`; None for codec failures",
    "C20-A": "repository cleanup runs for `Exception` only: an interrupt leaves HEAD on the parent",
    "C20-B": "checkout skipped when HEAD already equals the target: a half-done reset leaves a dirty tree",
    "C01-C": "(round 3) a def named like an import alias removes the alias, whatever its scope",
    "C01-D": "(round 3) import findings reported on the line of the offending name of a multi-line import, not where the statement starts",
    "C02-C": "(round 3) nosec comment parsing cached per text and comment sets merged in place: sets leak between lines and files",
    "C02-D": "(round 3) `Metrics.aggregate` skips every block whose key starts with `_` (relative `_vendor` targets vanish from the totals)",
    "C03-C": "(round 3) one threshold by count and the other by name: the counted one is silently replaced by the default",
    "C03-D": "(round 3) quiet-mode gate of txt/screen calls the helper with the thresholds swapped: empty report, exit 1",
    "C04-C": "(round 3) the progress bar wraps the working copy files are removed from",
    "C04-D": "(round 3) findings appended straight to the run-wide list: a file that fails after the visit is skipped *and* reported on",
    "C05-C": "(round 3) `visit_*` methods skipped for node types without a selected test: import tables not filled",
    "C05-D": "(round 3) `if not blacklist` becomes `is None`: every config profile loses the built-in blacklist check",
    "C06-C": "(round 3) qualnames stored as a frozenset and looked up with `in`: an unhashable literal name raises",
    "C06-D": "(round 3) B610 binds positional arguments by index into a 6-tuple: a seventh raises IndexError",
    "C07-C": "(round 3) baseline indexed per file with `itertools.groupby` on an unsorted list (`-a vuln` baselines)",
    "C07-D": "(round 3) txt/screen candidate lists skip the finding printed as heading: its location appears nowhere",
    "C08-C": "(round 3) with an include selection, plugins are looked up by iterating the ID set (hash-seed order)",
    "C08-D": "(round 3) `blacklist_by_name` dropped, names compared in the dict `get_url` rewrites: nosec by name breaks after a report",
    "C09-C": "(round 3) SARIF `parse_code` uses `splitlines()`: form feed / U+2028 in an excerpt break the report",
    "C09-D": "(round 3) `as_dict` reports `linerange[0]` as line number: JSON/YAML/CSV disagree with XML/HTML/custom",
    "C10-C": "(round 3) the range of def/class ends before the first body statement (empty for one-line definitions)",
    "C10-D": "(round 3) trojan-source splits with `str.splitlines()`: line numbers drift after ^L, U+2028, NEL",
    "C11-C": "(round 3) config `exclude_dirs` entries lose their trailing slash and then match as substrings",
    "C11-D": "(round 3) a directory target whose spelling has an earlier target as string prefix (`src`, `src2`) is skipped",
    "C12-C": "(round 3) `data.split(b'\\n')` feeds the loc count: lone-CR files count as one line",
    "C12-D": "(round 3) `Metrics.aggregate` skips underscored keys",
    "C13-C": "(round 3) a plugin without a config block reuses the `_config` a previous test set left on the function",
    "C13-D": "(round 3) the config file is read as UTF-8 text outside every handler: UTF-16 / Latin-1 YAML ends in a traceback",
    "C14-C": "(round 3) B607's spawn-name set is built once per process from the first configuration",
    "C14-D": "(round 3) B609 asks for the literal `shell=True` while B602 accepts any truthy value",
    "C15-C": "(round 3) B509 counts keywords as keys: `UsmUserData(u, k, authProtocol=...)` passes",
    "C15-D": "(round 3) B505's threshold table is cached per process",
    "C16-C": "(round 3) `visit_Call` returns early when the callee has no static name: B106 never sees `f()(password='x')`",
    "C16-D": "(round 3) stale `_config` reused when the config has no block (B108 keeps the previous scan's directories)",
    "C17-C": "(round 3) `concat_string` walks left operands only: SQL split over a parenthesised right operand is not joined",
    "C17-D": "(round 3) B703: a later literal-only conditional overwrites the insecure verdict of an earlier one",
    "C18-C": "(round 3) nosec tokens lower-cased before the name lookup",
    "C18-D": "(round 3) plugin documentation URLs built from the entry-point name: B324's link goes dead",
    "C19-C": "(round 3) stdin renamed in the work list only after parsing: skipping the piped source raises ValueError",
    "C19-D": "(round 3) B613 pre-filters raw bytes on 0xE2: bidi marks in Hebrew/Arabic code pages and gb18030 are missed",
    "C20-C": "(round 3) cleanliness checked with `git diff HEAD`: a staged edit whose working copy was reverted is not refused and is lost",
    "C20-D": "(round 3) the tool re-raises SIGTERM/SIGHUP of the bandit subprocess on itself inside the cleanup scope",
    "C01-E": "(round 4) the tester anchors a finding inside an f-string on the f-string's first line",
    "C01-F": "(round 4) `B001` expands to the blacklist rules only when it is the sole selected ID (`-t B001,B602` loses them)",
    "C02-E": "(round 4) `_get_nosecs_from_contexts` merges span comments into the stored comment set of the reported line",
    "C02-F": "(round 4) `plugins_by_name` keyed by the function name instead of the registered name (B324, B508, B509)",
    "C03-E": "(round 4) `.bandit` level/confidence clamped to the last RANKING *index*: 4 (HIGH) becomes 3",
    "C03-F": "(round 4) SARIF keeps one result per (test, file, line)",
    "C04-E": "(round 4) a check that raises is removed from the shared test list: later files lose it",
    "C04-F": "(round 4) JSON written with `ensure_ascii=False`: a non-UTF-8 file name kills the report on a strict stdout",
    "C05-E": "(round 4) B609 appends `subprocess.run` to the shared `shell_injection` config dict of the other checks",
    "C05-F": "(round 4) excluded IDs subtracted from each nosec set: an emptied set acts as a blanket nosec",
    "C06-E": "(round 4) `concat_string` joins every Constant's value: an int or bytes operand raises in B608",
    "C06-F": "(round 4) the built-in check registers for every node type while its table holds only the selected ones (KeyError under `-t B301,B602`)",
    "C07-E": "(round 4) backslashes in baseline file names rewritten to slashes",
    "C07-F": "(round 4) JSON candidate lists cached under a key without severity/confidence",
    "C08-E": "(round 4) cached nosec parsing + in-place set union: comment sets leak between files of one process",
    "C08-F": "(round 4) files de-duplicated by real path while iterating a set: the surviving spelling follows the hash seed",
    "C09-E": "(round 4) CSV cells starting with `= + - @` get a leading apostrophe (file names of `-r @vendor`)",
    "C09-F": "(round 4) the baseline candidate branch of the HTML report loses its escaping",
    "C10-E": "(round 4) the range of a position-less node taken from its first and last child in field order",
    "C10-F": "(round 4) txt/screen split excerpts with `splitlines()`",
    "C11-E": "(round 4) glob patterns without `*`/`?` compared by equality (bracket classes stop matching)",
    "C11-F": "(round 4) under `-r`, targets lying inside another directory target are dropped (explicit non-.py files are lost)",
    "C12-E": "(round 4) `get_test_id` lower-cases names: two nosec-by-name comments count as bare",
    "C12-F": "(round 4) JSON omits the metrics blocks of skipped files while `_totals` still counts their lines",
    "C13-E": "(round 4) `.bandit` list values split on blanks as well as commas",
    "C13-F": "(round 4) profile lookup through the dotted `get_option` path (`-p web.include`, profile names with dots)",
    "C14-E": "(round 4) `_get_literal_value` negates operands of unary minus: `bufsize=-size` raises",
    "C14-F": "(round 4) `visit_FunctionDef` drops an import alias named like the function",
    "C15-E": "(round 4) `call_keywords` stops at the first `**mapping`",
    "C15-F": "(round 4) generated plugin defaults only when the function has no `_config` yet",
    "C16-E": "(round 4) B103 reads only `mode=` as soon as the call has any keyword",
    "C16-F": "(round 4) B108 joins the configured directories into one unescaped regular expression",
    "C17-E": "(round 4) stale `_config` reused by later test sets",
    "C17-F": "(round 4) B608 pre-filter on whitespace-split tokens misses `(SELECT`",
    "C18-E": "(round 4) the XML formatter caches documentation links by test *name* (all blacklist findings share one)",
    "C18-F": "(round 4) words after `nosec` that were not tests are remembered lower-cased and skipped later",
    "C19-E": "(round 4) `process()` returns early for an empty module body: no file-level checks",
    "C19-F": "(round 4) relative imports resolved against the package derived from the file path",
    "C20-E": "(round 4) SIGPIPE reset to its default action in the baseline tool",
    "C20-F": "(round 4) untracked files listed with `--directory`: a wholly untracked directory hides its files",
    "C01-G": "(round 5) blacklisted imports reported on the line of the alias instead of the line where the import starts",
    "C01-H": "(round 5, off-anchor) a def/class drops the import alias of the same name whatever its scope",
    "C02-G": "(round 5) the reported line's comment is read only if the node's span has a comment too (B613's range is [0])",
    "C02-H": "(round 5, off-anchor) `plugins_by_name` keyed by the function name: B324/B508/B509 cannot be named in nosec",
    "C03-G": "(round 5) `results_count` counts `self.results` directly, bypassing the baseline filter: report empty, exit 1",
    "C03-H": "(round 5, off-anchor) `ProfileNotFound` prints `basename(config_file)`: `-p X` without `-c` ends in a TypeError traceback",
    "C04-G": "(round 5) skipped files popped by their index in the unshrunk list: second open() failure drops a healthy file or raises IndexError",
    "C04-H": "(round 5, off-anchor) `Metrics.aggregate` no longer folds the seeded zero totals in: txt/screen report raises KeyError when no file was visited",
    "C05-G": "(round 5) B001 expansion decided over include and exclude together",
    "C05-H": "(round 5, off-anchor) B607 extends the shared `shell_injection` list in place: enabling B607 changes what B603 reports",
    "C06-G": "(round 5) B103 formats `context.node.func.value.id`: raises for receivers that are not plain names",
    "C06-H": "(round 5, off-anchor) `_get_nosecs_from_contexts` returns `base | context` without the None case: B613 next to `# nosec B105` raises",
    "C07-G": "(round 5) baseline matching by a Counter key without the confidence",
    "C07-H": "(round 5, off-anchor) `results_count` treats the baseline as a set: an extra occurrence of a baselined identity exits 0",
    "C08-G": "(round 5) discovered files de-duplicated through a dict over a set: which spelling survives depends on the hash seed",
    "C08-H": "(round 5, off-anchor) blacklist names looked up live in the registry that `get_url` rewrites",
    "C09-G": "(round 5) CSV written with `lineterminator='\\n'`: a lone CR in a field is no longer quoted",
    "C09-H": "(round 5, off-anchor) SARIF rules cached by test name: all blacklist findings share the first rule id",
    "C10-G": "(round 5) decorated definitions report the first decorator's line while the range starts at `def`",
    "C10-H": "(round 5, off-anchor) B613 counts lines with `str.splitlines()` (form feed, U+2028, ... are not file line ends)",
    "C11-G": "(round 5) directory listings pre-filtered by bare file name: include patterns with a `/` never match",
    "C11-H": "(round 5, off-anchor) config `exclude_dirs` entries lose their trailing slash: `tests/` also drops `contests.py`",
    "C12-G": "(round 5) `aggregate` skips every key starting with `_`: files under `_vendor/` are missing from the totals",
    "C12-H": "(round 5, off-anchor) `count_locs` fed from binary `readlines()`: lone-CR files count as one line",
    "C13-G": "(round 5) profile validated before the CLI/INI selection is merged: contradictions split across carriers scan",
    "C13-H": "(round 5, off-anchor) same shared-list mutation as C05-H: a `shell_injection` block equal to the defaults adds B603 findings",
    "C14-G": "(round 5) B603 no longer located on the `shell=` keyword's line",
    "C14-H": "(round 5, off-anchor) `_load_tests` keeps a check's previous `_config` when the file has no section: settings leak between scans",
    "C15-G": "(round 5) key-size thresholds tested in config-dict order: medium listed before high grades weak keys MEDIUM",
    "C15-H": "(round 5, off-anchor) `get_qual_attr` resolves only one-dot attributes: `a.b.TLSv1_METHOD` defaults lose B503",
    "C16-G": "(round 5) the loop over assignment targets stops at the first target that is not a name",
    "C16-H": "(round 5, off-anchor) same stale `_config` as C14-H seen through `tmp_dirs`",
    "C17-G": "(round 5) f-string SQL recognised only when the first part is a constant",
    "C17-H": "(round 5, off-anchor) `Context.filename` normalised: `*/test_*.py` skips no longer match `./test_x.py`",
    "C18-G": "(round 5) documentation URLs built from the entry-point name: B324's page does not exist",
    "C18-H": "(round 5, off-anchor) nosec token pattern without IGNORECASE: the two rule names with capitals yield no token",
    "C19-G": "(round 5) stdin read through the text layer and re-encoded: legacy encodings die with UnicodeDecodeError",
    "C19-H": "(round 5, off-anchor) bidi table built from ranges, one of them one short: U+2069 is not reported",
    "C20-G": "(round 5) `global repo` dropped with the pre-initialisations: the cleanup never resets HEAD",
    "C20-H": "(round 5, off-anchor) untracked files listed with `--directory`: files of a wholly untracked directory are overwritten",
    "C01-I": "(round 6) same as C01-G, found again independently: import findings on the alias's line",
    "C01-J": "(round 6, off-anchor) same as C01-H: def/class pops the import alias of its name",
    "C02-I": "(round 6) `_parse_nosec_comment` memoised + `get_nosec` unions in place: comment sets shared between lines, files and runs",
    "C02-J": "(round 6, off-anchor) `aggregate` skips keys starting with `_`: nosec/skipped totals of `_vendored/` are lost",
    "C03-I": "(round 6) long threshold options reset the other threshold to its default: `-lll --confidence-level high` forgets `-lll`",
    "C03-J": "(round 6, off-anchor) SARIF keeps one result per (test, file, line)",
    "C04-I": "(round 6) `-` renamed to `<stdin>` before the loop: an I/O error on stdin makes the handler's `remove('-')` raise ValueError",
    "C04-J": "(round 6, off-anchor) recursion limit widened per file without `finally`: a failed visit lets later deep files through",
    "C05-I": "(round 6, off-anchor data) a B412 import rule added under B411's prefix: full run and `-t B412` disagree on that line",
    "C05-J": "(round 6, off-anchor) `config.setdefault(key, [])` in B602-B607 completes a partial shared block that B609 tests for",
    "C06-I": "(round 6) B704 `allowed_calls` accepts concatenations; a Name operand reaches `get_call_name` and raises",
    "C06-J": "(round 6, off-anchor) `get_called_name` loses its AttributeError guard: B608 raises for conditional/lambda callees",
    "C07-I": "(round 6) `populate_baseline` also loads each result's `candidates`: chained baselines over-count",
    "C07-J": "(round 6, off-anchor) `get_issue_list` memoised on thresholds and result count: a baseline loaded later is ignored",
    "C08-I": "(round 6) B704's extended names merged into a module global once: the first scanner's config leaks into later ones",
    "C08-J": "(round 6, off-anchor) same as C08-H: blacklist names looked up live in the registry `get_url` rewrites",
    "C09-I": "(round 6) HTML candidate excerpts lose `html_escape` (baseline branch, two or more candidates)",
    "C09-J": "(round 6, off-anchor) a new B113 finding without `cwe=`: the CSV formatter dies on `['link']`",
    "C10-I": "(round 6) parent line ranges memoised by start position: nested expressions starting at one place share a range",
    "C10-J": "(round 6, off-anchor) linecache primed from `str.splitlines()`: excerpt rows below a form feed are misnumbered",
    "C11-I": "(round 6) a target is skipped when its name starts with an already walked one (`pkg pkg_tests`)",
    "C11-J": "(round 6, off-anchor) `_log_option_source` treats an empty `-x ''` as absent: the ini file's exclude wins",
    "C12-I": "(round 6) same as C12-G: totals skip files whose key starts with `_`",
    "C12-J": "(round 6, off-anchor) results committed in a `finally`: findings of a file whose visit aborted are reported but not counted",
    "C13-I": "(round 6) CLI/INI selection removes the other side's ids before the union: split contradictions scan silently",
    "C13-J": "(round 6, off-anchor) unknown ids dropped from config-file lists only: `tests: [B1O1]` runs everything",
    "C14-I": "(round 6) a literal command holding backticks or `$(` is graded MEDIUM, which the callers treat as not-LOW",
    "C14-J": "(round 6, off-anchor) `_get_literal_value` negates operands of unary minus: `bufsize=-n` raises in `call_keywords`",
    "C15-I": "(round 6) B324 returns early unless an import of hashlib/crypt was visited before the call",
    "C15-J": "(round 6, off-anchor) same alias pop as C01-H seen through from-imported crypto functions",
    "C16-I": "(round 6) B108 exempts every `dir=` keyword, whatever the callee",
    "C16-J": "(round 6, off-anchor) same alias pop seen through `from os import chmod as set_mode`",
    "C17-I": "(round 6) B101 normalises the file name before matching the skips globs",
    "C17-J": "(round 6, off-anchor) `_check_string` searches only the first 2048 characters of the literal",
    "C18-I": "(round 6) name-to-id index built lazily from registry entries that `get_url` has rewritten",
    "C18-J": "(round 6, off-anchor) HTML formatter caches documentation links by test *name* (all blacklist findings share one)",
    "C19-I": "(round 6) B613 returns early unless the UTF-8 bytes of a bidi character occur in the raw file bytes (legacy encodings)",
    "C19-J": "(round 6, off-anchor) files with zero lines of code are not visited: bidi characters in comment-only files, undecodable files not skipped",
    "C20-I": "(round 6) dirtiness tested with `head.commit.diff(None)`: a staged change whose working copy equals HEAD passes",
    "C20-J": "(round 6, off-anchor) parent-only files found with `git diff --diff-filter=D`: renamed files are missed",
}


def theorem_index():
    out = ["| property | theorems in `Props/` | instance obligations in `Inst/` |", "|---|---|---|"]
    for i in range(1, 21):
        pid = "C%02d" % i
        def names(path):
            if not os.path.exists(path):
                return []
            return re.findall(r"^(?:Theorem|Lemma|Example)\s+([A-Za-z0-9_']+)", open(path).read(), re.M)
        th = [n.replace(pid + "_", "", 1) for n in names("%s/coq/theories/Props/%s.v" % (V, pid))]
        ins = [n.replace(pid + "_inst_", "", 1) for n in names("%s/coq/theories/Inst/%s_inst.v" % (V, pid))]
        out.append("| %s | %d: %s | %d: %s |" % (pid, len(th), ", ".join("`%s`" % t for t in th), len(ins), ", ".join("`%s`" % t for t in ins)))
    return "\n".join(out)


def seeded():
    out = ["| change | file(s) | what the change does | first run | final machinery: how it is reported |", "|---|---|---|---|---|"]
    for d in sorted(glob.glob(V + "/seeded/*/meta.json")):
        m = json.load(open(d))
        notes = open(os.path.join(os.path.dirname(d), "notes.md")).read()
        head = DESC.get(m["id"], notes.strip().splitlines()[0].lstrip("# ").strip()[:110])
        runs = m["check_runs"]
        first = runs[0]
        last = runs[-1]
        how = (last.get("first_violations") or last.get("first_broken") or [""])[0][:120].replace("|", "/")
        kind = "failing input" if last.get("first_violations") else "broken obligation/correspondence"
        out.append("| %s | %s | %s | %s | %s: %s |" % (
            m["id"], ", ".join("`%s`" % f.replace("bandit/", "") for f in m["files_changed"]), head.replace("|", "/"),
            "caught" if first["caught"] else "**missed**",
            "no longer breaks the property (the defect it relied on was repaired)" if m.get("no_longer_breaks_property") else kind if last["caught"] else "**missed**", how))
    return "\n".join(out)


def main():
    p = V + "/DESIGN.md"
    s = open(p).read()
    for name, fn in (("THEOREMS", theorem_index), ("SEEDED", seeded)):
        b, e = "<!-- BEGIN %s -->" % name, "<!-- END %s -->" % name
        if b in s:
            s = s[:s.index(b) + len(b)] + "\n" + fn() + "\n" + s[s.index(e):]
    open(p, "w").write(s)


main()
