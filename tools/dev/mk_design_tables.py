"""Regenerate the generated parts of DESIGN.md (between <!-- BEGIN x --> / <!-- END x --> markers)."""
import glob
import json
import os
import re

V = "/verif"


DESC = {
    "C01-A": "`__import__('a.b')` literal cut at the first dot unless a fromlist is given: dotted rules missed",
    "C01-B": "a def/class named like an import alias removes the alias (the visitor has no scopes)",
    "C02-A": "nosec name lookup lower-cases the name: the two rule names with capitals turn into a bare nosec",
    "C02-B": "`get_nosec` unions comment sets in place, mutating the stored set of the first line",
    "C03-A": "`results_count` fast path passes the thresholds to `Issue.filter` in the wrong order",
    "C03-B": "the `-i` overflow test reads `args.severity`: `-iiii` scans, then dies with IndexError",
    "C04-A": "the progress bar iterates the working copy files are removed from (needs > 50 files, default verbosity)",
    "C04-B": "the SyntaxError skip reason quotes `e.text.strip()`; `text` is None for codec failures",
    "C05-A": "the B001 expansion test is computed over include and exclude together",
    "C05-B": "`pre_visit` returns early for import statements no selected test is registered for: the alias tables are not filled",
    "C06-A": "B609 renders the argument list with `' '.join` (non-string element raises)",
    "C06-B": "`check_call_arg_value` tests membership through a frozenset (unhashable literal raises)",
    "C07-A": "baseline matching by a hand-written key that lacks the confidence",
    "C07-B": "`as_dict` flattens multi-line messages: the text written to a baseline no longer equals the finding's",
    "C08-A": "the test set is built by iterating the filter *set*: order follows the hash seed",
    "C08-B": "`get_url` writes the combined documentation id into the live registry entry",
    "C09-A": "`-a vuln` sorts JSON/YAML by test id instead of test name",
    "C09-B": "SARIF `to_uri` keeps `%` unescaped",
    "C10-A": "excerpt window anchored at the range start and capped at -n",
    "C10-B": "compound statements get a header-only line range (empty when the body is on the header line)",
    "C11-A": "files whose real path was already seen are dropped: a symlinked file lands in neither list",
    "C11-B": "exclude strings tested against the directory part only",
    "C12-A": "the nosec counter counts a line once however many findings it withholds",
    "C12-B": "`count_locs` fed from `readlines()`: bare CR line ends are not line ends",
    "C13-A": "CLI/INI selection merged into the file's by set algebra: split contradictions scan silently",
    "C13-B": "plugin settings looked up under the plugin name before the documented block name",
    "C14-A": "the literal-command test loses its `str` check: bytes/number commands graded LOW",
    "C14-B": "B603 no longer reports the line of the `shell=` keyword",
    "C15-A": "B502 looks at `method` *or* `ssl_version`, whichever it finds first",
    "C15-B": "B501 splits the qualified name at the first dot: `requests.api.get` is missed",
    "C16-A": "the candidate regex loses IGNORECASE; one call site (attribute on the left of a comparison) is not migrated",
    "C16-B": "B107 extended to keyword-only parameters with the padding computed from the extended list",
    "C17-A": "B608's once-per-f-string guard requires the literal to be `values[0]`",
    "C17-B": "B610's where/tables loop lets the later key overwrite the verdict",
    "C18-A": "`get_test_id` lower-cases names: two rules no longer resolve by name",
    "C18-B": "`get_url` poisons the registry id of B313-B320",
    "C19-A": "B613 pre-filters on raw bytes with a BOM-prefixed encoding of the character",
    "C19-B": "the SyntaxError handler logs `e.text.rstrip()`; None for codec failures",
    "C20-A": "repository cleanup runs for `Exception` only: an interrupt leaves HEAD on the parent",
    "C20-B": "checkout skipped when HEAD already equals the target: a half-done reset leaves a dirty tree",
}


def theorem_index():
    out = ["| property | theorems in `Props/` | instance obligations in `Inst/` |", "|---|---|---|"]
    for i in range(1, 21):
        pid = "C%02d" % i
        def names(path):
            if not os.path.exists(path):
                return []
            return re.findall(r"^(?:Theorem|Lemma|Example)\s+([A-Za-z0-9_']+)", open(path).read(), re.M)
        th = [n.replace(pid + "_", "", 1) for n in names("%s/coq/theories/Props/%s.v" % (V, pid))]
        ins = [n.replace(pid + "_inst_", "", 1) for n in names("%s/coq/theories/Inst/%s_inst.v" % (V, pid))]
        out.append("| %s | %d: %s | %d: %s |" % (pid, len(th), ", ".join("`%s`" % t for t in th), len(ins), ", ".join("`%s`" % t for t in ins)))
    return "\n".join(out)


def seeded():
    out = ["| change | file(s) | what the change does | first run | final machinery: how it is reported |", "|---|---|---|---|---|"]
    for d in sorted(glob.glob(V + "/seeded/*/meta.json")):
        m = json.load(open(d))
        notes = open(os.path.join(os.path.dirname(d), "notes.md")).read()
        head = DESC.get(m["id"], notes.strip().splitlines()[0].lstrip("# ").strip()[:110])
        runs = m["check_runs"]
        first = runs[0]
        last = runs[-1]
        how = (last.get("first_violations") or last.get("first_broken") or [""])[0][:120].replace("|", "/")
        kind = "failing input" if last.get("first_violations") else "broken obligation/correspondence"
        out.append("| %s | %s | %s | %s | %s: %s |" % (
            m["id"], ", ".join("`%s`" % f.replace("bandit/", "") for f in m["files_changed"]), head.replace("|", "/"),
            "caught" if first["caught"] else "**missed**", kind if last["caught"] else "**missed**", how))
    return "\n".join(out)


def main():
    p = V + "/DESIGN.md"
    s = open(p).read()
    for name, fn in (("THEOREMS", theorem_index), ("SEEDED", seeded)):
        b, e = "<!-- BEGIN %s -->" % name, "<!-- END %s -->" % name
        if b in s:
            s = s[:s.index(b) + len(b)] + "\n" + fn() + "\n" + s[s.index(e):]
    open(p, "w").write(s)


main()
