"""Common machinery for every property check: gen -> prove -> correspond -> verdict/evidence."""
import concurrent.futures as cf
import fcntl
import hashlib
import json
import os
import random
import re
import shutil
import subprocess
import sys
import tempfile
import time

VERIF = os.path.dirname(os.path.dirname(os.path.dirname(os.path.abspath(__file__))))
COQ = os.path.join(VERIF, "coq")
THEORIES = os.path.join(COQ, "theories")
GEN = os.path.join(THEORIES, "Gen")
REPO = os.environ.get("VERIF_REPO", "/repo")
PY = "/venv/bin/python"
NCPU = os.cpu_count() or 4

ALLOWED_AXIOMS = set()   # the development is meant to be closed; see DESIGN.md section 7

TRUSTED_BASE = [
    "Coq 8.16.1 kernel + vm_compute (no native_compute); theorems closed under the global context (Print Assumptions parsed on every run)",
    "translators tools/translate/*.py (by evaluation of the current /repo tree, and by AST fact extraction) and tools/lib/coqlit.py (Python value / ast -> Gallina literal)",
    "correspondence harness tools/props/*.py: runs bandit from /repo in-process (/venv/bin/python, PYTHONPATH=/repo, PYTHONHASHSEED=0) and the model by vm_compute on the same inputs",
    "modelled, not verified: CPython ast/tokenize/codecs/re, fnmatch, argparse, json/csv/ElementTree/PyYAML, stevedore, GitPython, the OS",
]


def env_for_repo():
    e = dict(os.environ)
    e["PYTHONPATH"] = REPO
    e["PYTHONHASHSEED"] = "0"
    e["VERIF_REPO"] = REPO
    e["PYCQA_BANDIT_VERIF"] = "1"
    e.pop("PYTHONSTARTUP", None)
    return e


class Lock:
    def __init__(self):
        self.path = os.path.join(COQ, ".build.lock")

    def __enter__(self):
        self.f = open(self.path, "w")
        fcntl.flock(self.f, fcntl.LOCK_EX)
        return self

    def __exit__(self, *a):
        fcntl.flock(self.f, fcntl.LOCK_UN)
        self.f.close()


def run(cmd, timeout=1200, cwd=None, env=None, input=None):
    t0 = time.time()
    try:
        p = subprocess.run(cmd, cwd=cwd, env=env, input=input, capture_output=True, text=True, timeout=timeout)
        return p.returncode, p.stdout, p.stderr, time.time() - t0
    except subprocess.TimeoutExpired as e:
        return 124, (e.stdout or b"").decode() if isinstance(e.stdout, bytes) else (e.stdout or ""), "TIMEOUT", time.time() - t0


def gen():
    """Regenerate Gen/*.v from the current /repo tree.  Returns list of failed translators."""
    os.makedirs(GEN, exist_ok=True)
    failed = []
    # translate into a scratch directory and replace only the files whose text changed: on an unchanged source tree nothing
    # is rewritten, nothing is rebuilt, and checks running side by side never see each other's half-built .vo files
    tmp = tempfile.mkdtemp(prefix="verif_gen_")
    try:
        for script in ("gen_eval.py", "gen_facts.py"):
            path = os.path.join(VERIF, "tools", "translate", script)
            if not os.path.exists(path):
                continue
            rc, out, err, _ = run([PY, path, tmp], env=env_for_repo(), cwd=REPO, timeout=300)
            if rc != 0:
                failed.append({"translator": script, "stderr": err[-2000:]})
        with Lock():
            for fn in sorted(os.listdir(tmp)):
                src, dst = os.path.join(tmp, fn), os.path.join(GEN, fn)
                if os.path.isfile(src):
                    new = open(src, "rb").read()
                    if not os.path.exists(dst) or open(dst, "rb").read() != new:
                        with open(dst + ".tmp", "wb") as f:
                            f.write(new)
                        os.replace(dst + ".tmp", dst)
    finally:
        shutil.rmtree(tmp, ignore_errors=True)
    return failed


def ensure_makefile():
    mk = os.path.join(COQ, "Makefile")
    proj = os.path.join(COQ, "_CoqProject")
    if (not os.path.exists(mk)) or os.path.getmtime(mk) < os.path.getmtime(proj):
        subprocess.run(["coq_makefile", "-f", "_CoqProject", "-o", "Makefile"], cwd=COQ, check=True,
                       capture_output=True)


def make(targets, timeout=1500):
    ensure_makefile()
    cmd = ["make", "-j%d" % NCPU, "-k"] + list(targets)
    rc, out, err, dt = run(cmd, cwd=COQ, timeout=timeout)
    return rc, out + "\n" + err, dt


STMT_RE = re.compile(r"^\s*(Theorem|Lemma|Corollary|Example)\s+([A-Za-z0-9_']+)", re.M)


FORBIDDEN = re.compile(r"\b(Admitted|admit|Axiom|Axioms|Parameter|Parameters|Conjecture|Conjectures)\b|Admit Obligations|"
                       r"Unset\s+(Guard|Positivity|Universe)\s+Checking|bypass_check|type-in-type|impredicative-set")
SECTION_ONLY = re.compile(r"^\s*(Variable|Variables|Hypothesis|Hypotheses|Context)\b")


def scan_forbidden():
    """Every .v file of the development (generated ones included): no axiom-declaring command, no admitted proof, no
    switched-off kernel check; Variable/Hypothesis only inside a section.  Returns [(file, line number, text)]."""
    bad = []
    for root, _, files in os.walk(THEORIES):
        for fn in sorted(files):
            if not fn.endswith(".v"):
                continue
            path = os.path.join(root, fn)
            try:
                text = open(path, encoding="utf-8").read()
            except OSError:
                continue
            text = re.sub(r"\(\*.*?\*\)", lambda m: "\n" * m.group(0).count("\n"), text, flags=re.S)   # comments
            text = re.sub(r'"(?:[^"]|"")*"', '""', text)                                              # string literals
            depth = 0
            for i, line in enumerate(text.split("\n"), 1):
                if re.match(r"^\s*(Section|Module)\s+\w+", line) and not re.match(r"^\s*Module\s+\w+\s*:=", line):
                    depth += 1
                elif re.match(r"^\s*End\s+\w+\s*\.", line):
                    depth = max(0, depth - 1)
                if FORBIDDEN.search(line) and not re.search(r"TRANSLATOR_FAILED", line):
                    bad.append((os.path.relpath(path, COQ), i, line.strip()[:120]))
                elif depth == 0 and SECTION_ONLY.match(line):
                    bad.append((os.path.relpath(path, COQ), i, line.strip()[:120]))
    proj = os.path.join(COQ, "_CoqProject")
    if os.path.exists(proj) and re.search(r"type-in-type|impredicative-set|-noinit", open(proj).read()):
        bad.append(("_CoqProject", 0, "kernel-weakening option"))
    return bad


def prove(prop_files, dep_targets):
    """Build dependencies with make, then compile the property/instance files themselves with coqc so
    that their Print Assumptions output belongs to this run.  Returns a dict."""
    res = {"obligations": 0, "discharged": 0, "failed": [], "assumptions": {}, "log": "", "checker_cmd": ""}
    # the source tie of the property (Inst/Cxx_src.v) goes with its instance file
    prop_files = list(prop_files)
    dep_targets = list(dep_targets)
    for pf in list(prop_files):
        m = re.search(r"Inst/(C\d\d)_inst\.v$", pf)
        if m and os.path.exists(os.path.join(COQ, "theories/Inst/%s_src.v" % m.group(1))):
            prop_files.append("theories/Inst/%s_src.v" % m.group(1))
            for d in ("theories/Gen/Sources.vo", "theories/Inst/Golden.vo"):
                if d not in dep_targets:
                    dep_targets.append(d)
    with Lock():
        rc, log, dt = make(dep_targets)
        res["log"] += log[-4000:]
        res["checker_cmd"] = "cd /verif/coq && make -j%d %s && coqc -R theories Bandit <%s>" % (
            NCPU, " ".join(dep_targets), ", ".join(prop_files))
        dep_ok = rc == 0
        for pf in prop_files:
            src = open(os.path.join(COQ, pf)).read()
            names = [m.group(2) for m in STMT_RE.finditer(src)]
            res["obligations"] += len(names)
            if not dep_ok:
                res["failed"].append({"file": pf, "why": "dependency build failed", "log": log[-3000:]})
                continue
            rc2, out, err, dt2 = run(["coqc", "-R", "theories", "Bandit", pf], cwd=COQ, timeout=900)
            if rc2 != 0:
                # find which statement broke: the error location
                res["failed"].append({"file": pf, "why": "coqc failed", "log": (out + err)[-3000:],
                                      "theorem": locate_failure(src, err)})
                if pf.endswith("_src.v"):
                    res["failed"][-1]["why"] = "source tie: " + source_tie_diff(pf)
                continue
            # parse Print Assumptions output: blocks "Closed under the global context" or "Axioms:"
            closed = out.count("Closed under the global context")
            axioms = re.findall(r"^Axioms:\n((?:.+\n)+?)(?=\S|\Z)", out, re.M)
            bad = []
            for blk in axioms:
                for ln in blk.splitlines():
                    m = re.match(r"^([A-Za-z0-9_.']+)\s*:", ln)
                    if m and m.group(1) not in ALLOWED_AXIOMS:
                        bad.append(m.group(1))
            n_print = len(re.findall(r"^\s*Print Assumptions", src, re.M))
            res["assumptions"][pf] = {"closed": closed, "axioms": sorted(set(bad)), "printed": n_print}
            if bad:
                res["failed"].append({"file": pf, "why": "axioms: " + ",".join(sorted(set(bad)))})
            else:
                res["discharged"] += len(names)
    forb = scan_forbidden()
    res["forbidden_constructs"] = ["%s:%d: %s" % f for f in forb]
    if forb:
        res["failed"].append({"file": forb[0][0], "why": "forbidden construct (axiom-declaring command, admitted proof or disabled kernel check)",
                              "log": "\n".join("%s:%d: %s" % f for f in forb[:20])})
    return res


def _pstr_pairs(text):
    out = {}
    for a, b in re.findall(r"\(\[([0-9;]*)\]%N, \[([0-9;]*)\]%N\)", text):
        out["".join(chr(int(x)) for x in a.split(";") if x)] = "".join(chr(int(x)) for x in b.split(";") if x)
    return out


def source_tie_diff(pf):
    """Which of the tied functions read differently from the validated ones (for the replay file)."""
    try:
        pid = re.search(r"(C\d\d)_src", pf).group(1)
        g = open(os.path.join(COQ, "theories/Inst/Golden.v")).read()
        golden = _pstr_pairs(g[g.index("Definition GOLDEN"):g.index("Definition under")])
        cur = _pstr_pairs(open(os.path.join(COQ, "theories/Gen/Sources.v")).read())
        line = re.search(r"Definition golden_%s : list pstr := (.*)\.\n" % pid, g).group(1)
        pre = ["".join(chr(int(x)) for x in m.split(";") if x) for m in re.findall(r"\[([0-9;]*)\]%N", line)]
        und = lambda n: any(n.startswith(q) for q in pre)
        ch = sorted(n for n in golden if und(n) and cur.get(n) != golden[n]) + sorted("+" + n for n in cur if und(n) and n not in golden)
        return "changed since the model was validated: " + (", ".join(ch[:12]) or "(none found)")
    except Exception as e:  # noqa: BLE001
        return "could not compute the difference (%s)" % e


def locate_failure(src, err):
    m = re.search(r"line (\d+), characters", err)
    if not m:
        return None
    line = int(m.group(1))
    best = None
    for mm in STMT_RE.finditer(src):
        ln = src.count("\n", 0, mm.start()) + 1
        if ln <= line:
            best = mm.group(2)
    return best


CASE_HDR = ("From Coq Require Import List NArith ZArith Bool String.\n"
            "From Bandit Require Import Base.PyStr Ast.Node Engine.Types Engine.Tables Engine.Tester Engine.Scan.\n"
            "Import ListNotations.\nLocal Open Scope string_scope.\nLocal Open Scope list_scope.\n")


def coq_eval_files(files, timeout=900):
    """files: list of (name, text).  Compiles each with coqc in a scratch dir (in parallel);
    returns list of (name, rc, stdout, stderr)."""
    d = tempfile.mkdtemp(prefix="verif_cases_")
    try:
        def one(nt):
            name, text = nt
            p = os.path.join(d, name + ".v")
            with open(p, "w") as f:
                f.write(text)
            rc, out, err, dt = run(["coqc", "-R", THEORIES, "Bandit", "-Q", d, "Cases", p], cwd=d, timeout=timeout)
            if rc == 124:
                # a shard that ran out of time on a loaded machine gets one more, longer, attempt before it counts as broken
                rc, out, err, dt = run(["coqc", "-R", THEORIES, "Bandit", "-Q", d, "Cases", p], cwd=d, timeout=4 * timeout)
            return name, rc, out, err
        with cf.ThreadPoolExecutor(max_workers=NCPU) as ex:
            return list(ex.map(one, files))
    finally:
        shutil.rmtree(d, ignore_errors=True)


def parse_mismatch_indices(out):
    """Output of  Eval vm_compute in (map fst (mismatches ...))  ->  list of ints."""
    m = re.search(r"=\s*(.*?)\n\s*:\s*list", out, re.S)
    if not m:
        return None
    body = m.group(1)
    if body.strip() in ("[]", "nil"):
        return []
    return [int(x) for x in re.findall(r"(\d+)%N", body)] or [int(x) for x in re.findall(r"\b(\d+)\b", body)]


class Result:
    """Accumulates what a check explored and what it found."""

    def __init__(self, pid, tier, seed):
        self.pid, self.tier, self.seed = pid, tier, seed
        self.t0 = time.time()
        self.evaluations = 0
        self.nontrivial = set()
        self.samples = []
        self.rule = ""
        self.dist = {}
        self.violations = []       # dicts: {kind, what, input, expected, observed, signature}
        self.broken = []           # broken obligations / correspondence without concrete failing input
        self.known_hits = []
        self.proof = None
        self.extra = {}
        self.exhaustive = False
        self.disagreements_checked = 0

    def count(self, key, n=1):
        self.dist[key] = self.dist.get(key, 0) + n

    def case(self, canonical, nontrivial=True, sample=None):
        self.evaluations += 1
        if nontrivial:
            self.nontrivial.add(hashlib.sha1(repr(canonical).encode("utf-8", "surrogatepass")).hexdigest())
        if sample is not None and len(self.samples) < 6:
            self.samples.append(sample)


def load_known():
    p = os.path.join(VERIF, "known_findings.json")
    if not os.path.exists(p):
        return []
    return json.load(open(p))


def finish(R):
    """Write evidence, print KNOWN-FINDING / VIOLATION lines, return exit code."""
    known = [k for k in load_known() if k["property"] == R.pid and k.get("status") == "known"]
    known_keys = {k["key"]: k for k in known}
    new_viol = []
    hit = {}
    for v in R.violations:
        sig = v.get("signature")
        if sig in known_keys:
            hit.setdefault(sig, v)
        else:
            new_viol.append(v)
    for key, v in hit.items():
        print("KNOWN-FINDING: property=%s %s [%s]" % (R.pid, known_keys[key]["what"], key))
    exit_code = 0
    replay = None
    if new_viol or R.broken:
        os.makedirs(os.path.join(VERIF, "replays", R.pid), exist_ok=True)
        replay = os.path.join(VERIF, "replays", R.pid, "%d-%s.json" % (R.seed, R.tier))
        with open(replay, "w") as f:
            json.dump({"property": R.pid, "seed": R.seed, "tier": R.tier,
                       "violations": new_viol[:20], "broken": R.broken[:20],
                       "replay_cmd": "cd /verif && ./check %s --replay %s" % (R.pid, replay)},
                      f, indent=1, default=str, ensure_ascii=True)
        suffix = "" if new_viol else " no-failing-input-found"
        print("VIOLATION property=%s replay=%s%s" % (R.pid, replay, suffix))
        exit_code = 1
    if exit_code == 0:
        stale = os.path.join(VERIF, "replays", R.pid, "%d-%s.json" % (R.seed, R.tier))
        if os.path.exists(stale):
            os.remove(stale)          # a replay file always belongs to the latest run of its tier
    pr = R.proof or {}
    cov = {
        "obligations": pr.get("obligations", 0),
        "discharged": pr.get("discharged", 0),
        "checker_cmd": pr.get("checker_cmd", ""),
        "trusted_base": TRUSTED_BASE,
        "evaluations": R.evaluations,
        "distinct_nontrivial": len(R.nontrivial),
        "rule": R.rule,
        "samples": R.samples or ["(no correspondence cases in this run)"],
        "distribution": R.dist,
        "disagreements_checked": R.disagreements_checked,
        "exhaustive": R.exhaustive,
        "print_assumptions": pr.get("assumptions", {}),
        "broken": [b.get("what") for b in R.broken][:10],
        "known_findings_reproduced": sorted(hit.keys()),
    }
    cov.update(R.extra)
    ev = {
        "property_id": R.pid, "tier": R.tier, "seed": R.seed, "level": "proof",
        "coverage": cov,
        "assumptions": R.extra.get("assumptions_text", []) + [
            "model/code tie = regenerated Gen/*.v + differential correspondence on the inputs counted above",
        ],
        "wall_s": round(time.time() - R.t0, 2),
        "violations": len(new_viol) + len(R.broken),
    }
    cov.pop("assumptions_text", None)
    os.makedirs(os.path.join(VERIF, "evidence"), exist_ok=True)
    with open(os.path.join(VERIF, "evidence", R.pid + ".json"), "w") as f:
        json.dump(ev, f, indent=1, default=str, ensure_ascii=True)
    return exit_code


def unit_corr(imports, run_def, in_ty, out_ty, eqb, cases, label="unit", shard=400, extra_defs=""):
    """Generic function-level correspondence.
    run_def: Gallina text of a function  in_ty -> out_ty ; cases: list of (in_coq, out_coq).
    Returns (mismatch_indices, broken)."""
    files = []
    for s in range(0, len(cases), shard):
        chunk = cases[s:s + shard]
        body = CASE_HDR + imports + "\n" + extra_defs + "\n"
        body += "Definition run1 : %s -> %s := %s.\n" % (in_ty, out_ty, run_def)
        body += "Definition cases : list ((%s) * (%s)) := %s.\n" % (
            in_ty, out_ty, "[" + ";\n ".join("(%s, %s)" % c for c in chunk) + "]" if chunk else "[]")
        body += "Definition mm := mismatches run1 (%s) cases 0%%N.\n" % eqb
        body += "Eval vm_compute in (map fst mm).\nEval vm_compute in (map snd (firstn 3 mm)).\n"
        files.append(("%s_%d" % (label, s), body))
    mism, broken = [], []
    for (name, rc, out, err), s in zip(coq_eval_files(files), range(0, len(cases), shard)):
        if rc != 0:
            broken.append({"what": "model evaluation failed (%s)" % name, "log": (out + err)[-2000:]})
            continue
        ii = parse_mismatch_indices(out)
        if ii is None:
            broken.append({"what": "unparsable model output (%s)" % name, "log": out[-2000:]})
            continue
        tail = out.split(": list N", 1)[-1][-1500:] if ii else ""
        for k in ii:
            mism.append((s + k, tail))
    return mism, broken
