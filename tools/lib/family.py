"""Shared driver for the plugin-family properties (C14-C17, C06): gen -> prove -> whole-scan correspondence on
the family's generator -> statement-level oracle."""
import importlib
import random

import core
import scancorr


def run_family(R, prop_files, deps, gen_modules, oracle=None, what="", max_quick=None, eq="scan_out_eqb"):
    rng = random.Random(R.seed)
    for f in core.gen():
        R.broken.append({"what": "translator failed: " + f["translator"], "log": f["stderr"]})
    R.proof = core.prove(prop_files, deps)
    for f in R.proof["failed"]:
        R.broken.append({"what": "proof obligation no longer checks: %s (%s) %s" % (f["file"], f["why"], f.get("theorem") or ""),
                         "log": f.get("log", "")})
    progs = []
    for gm in gen_modules:
        mod = importlib.import_module(gm)
        ps = mod.programs(random.Random(R.seed), R.tier)
        for p in ps:
            p["family"] = gm
        progs.extend(ps)
    if R.tier == "quick" and max_quick and len(progs) > max_quick:
        keep = [p for p in progs if p.get("keep")]            # hand-picked boundary programs are never sampled away
        progs = keep + rng.sample([p for p in progs if not p.get("keep")], max(0, max_quick - len(keep)))
    outs, mism, broken = scancorr.run_cases(progs, R, R.pid.lower(), eq=eq)
    R.broken.extend(broken)
    for p, o in zip(progs, outs):
        R.count("family:" + p["family"].split(".")[-1])
        R.count("findings:%d" % min(len(o["results"]), 5))
        if o["errors"]:
            R.count("internal-error")
        if o["skipped"]:
            R.count("unparsable")
        R.case((p["src"], repr(p.get("config")), tuple(p.get("include") or [])),
               nontrivial=bool(o["results"]) or bool(o["errors"]),
               sample={"src": p["src"][:300], "config": p.get("config"),
                       "findings": [(r["test_id"], r["sev"], r["conf"], r["lineno"]) for r in o["results"]][:6],
                       "errors": [(t, e) for t, e, _ in o["errors"]][:3]})
        if oracle is not None and not o["skipped"]:
            for v in oracle(p, o) or []:
                R.violations.append(v)
    R.disagreements_checked = len(progs)
    for i, tail in mism[:50]:
        p, o = progs[i], outs[i]
        R.broken.append({"what": "correspondence: model scan and bandit differ on a generated program (%s)" % what,
                         "input": p["src"], "config": p.get("config"), "include": p.get("include"),
                         "implementation": {k: o[k] for k in ("results", "errors", "nosec", "skipped_tests")},
                         "model_output_excerpt": tail[:1500]})
    return progs, outs
