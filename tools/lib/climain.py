"""Run bandit.cli.main.main() in-process with a given argv/cwd/stdin; return exit code or escaped exception."""
import contextlib
import io
import logging
import os
import sys
import traceback


class _Bytes(io.BytesIO):
    name = "<stdout>"

    def close(self):
        pass


class _Capture(io.StringIO):
    """stdout stand-in: bandit's formatters close the file object they are given and look at .name/.buffer"""
    name = "<stdout>"
    mode = "w"

    def __init__(self):
        super().__init__()
        self.buffer = _Bytes()

    def close(self):
        pass

    def getvalue(self):
        return super().getvalue() + self.buffer.getvalue().decode("utf-8", "replace")


def _Stdin(data):
    """A real text stream over a real descriptor (as `bandit - < file`): .fileno(), .buffer and .read() all work, so the
    harness does not depend on which of them bandit uses to get at the bytes."""
    import tempfile
    f = tempfile.TemporaryFile()
    f.write(data)
    f.flush()
    f.seek(0)
    fd = os.dup(f.fileno())
    f.close()
    os.lseek(fd, 0, os.SEEK_SET)
    return open(fd, "r", encoding="utf-8", newline=None)


def _BrokenStdin():
    """standard input that cannot be read: a descriptor opened for writing only (reads fail with EBADF)"""
    import tempfile
    f = tempfile.NamedTemporaryFile(delete=False)
    f.close()
    fd = os.open(f.name, os.O_WRONLY)
    os.unlink(f.name)
    return open(fd, "w", encoding="utf-8")


def run_main(argv, cwd=None, stdin_bytes=None, entry="bandit.cli.main", stdin_broken=False):
    import importlib
    mod = importlib.import_module(entry)
    out, err = _Capture(), _Capture()
    old_argv, old_cwd, old_stdin = sys.argv, os.getcwd(), sys.stdin
    sys.argv = ["bandit"] + list(argv)
    res = {"exit": None, "exception": None, "traceback": None}
    st = None
    root = logging.getLogger()
    saved_handlers, saved_level = list(root.handlers), root.level
    saved_disable = logging.root.manager.disable
    logging.disable(logging.NOTSET)
    try:
        if cwd:
            os.chdir(cwd)
        if stdin_broken:
            st = _BrokenStdin()
            sys.stdin = st
        elif stdin_bytes is not None:
            st = _Stdin(stdin_bytes)
            sys.stdin = st
        with contextlib.redirect_stdout(out), contextlib.redirect_stderr(err):
            try:
                mod.main()
                res["exit"] = 0
            except SystemExit as e:
                c = e.code
                res["exit"] = 0 if c is None else (c if isinstance(c, int) else 1)
            except BaseException as e:  # noqa: B036  escaped exception == traceback for the user
                res["exception"] = type(e).__name__
                res["traceback"] = traceback.format_exc()[-1500:]
    finally:
        sys.argv = old_argv
        sys.stdin = old_stdin
        if st:
            try:
                st.close()      # bandit's own os.fdopen() of the descriptor may have closed it already
            except OSError:
                pass
        os.chdir(old_cwd)
        for h in list(root.handlers):
            try:
                h.flush()
            except Exception:
                pass
        root.handlers = saved_handlers
        root.setLevel(saved_level)
        logging.disable(saved_disable)
    res["stdout"] = out.getvalue()
    res["stderr"] = err.getvalue()
    return res
