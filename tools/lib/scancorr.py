"""Whole-scan correspondence: source bytes -> (implementation observables) vs (model scan by vm_compute)."""
import ast
import json
import os

import core
import coqlit as L
import impl

SHARD = 150

HDR = core.CASE_HDR + (
    "From Bandit Require Import Gen.Constants Gen.Blacklists Gen.Registry Gen.Regexes %s.\n"
    "Definition fname : pstr := %s.\n"
    "Record scase := SCase { s_mod : node; s_nosec : nosec_map; s_sel : list pstr; s_cfg : list (pstr * jv); s_lines : option (list pstr) }.\n"
    "Definition run1 (x : scase) : scan_out :=\n"
    "  scan consts_gen (build_tests registry %s defaults (s_cfg x) (fun i => mem_pstr i (s_sel x)) blacklist)\n"
    "       (s_nosec x) fname (s_lines x) (s_mod x).\n"
)


def effective_filter(mgr):
    """The set BanditTestSet._get_filter produced, recovered from the built test set."""
    ids = set()
    for p in mgr.b_ts.plugins:
        if p.name == "blacklist":
            for tests in p.plugin._config.values():
                ids.update(t["id"] for t in tests)
        else:
            ids.add(p.plugin._test_id)
    return sorted(ids)


def jv(v):
    if v is None:
        return "JNull"
    if v is True or v is False:
        return f"(JBool {L.B(v)})"
    if isinstance(v, int):
        return f"(JInt {L.Z(v)})"
    if isinstance(v, str):
        return f"(JStr {L.pstr(v)})"
    if isinstance(v, (list, tuple)):
        return f"(JList {L.lst([jv(x) for x in v], 'jv')})"
    if isinstance(v, dict):
        return "(JDict %s)" % L.lst([L.pair(L.pstr(str(k)), jv(x)) for k, x in v.items()], "pstr * jv")
    raise ValueError("config value %r" % (v,))


ERRORS_ONLY = ("(fun a b => list_eqb (fun x y => pstr_eqb (fst x) (fst y) && exn_eqb (snd x) (snd y)) (o_errors a) (o_errors b))")


FINDINGS_AND_ERRORS = ("(fun a b => list_eqb finding_eqb (o_results a) (o_results b) && "
                       "list_eqb (fun x y => pstr_eqb (fst x) (fst y) && exn_eqb (snd x) (snd y)) (o_errors a) (o_errors b))")


def run_cases(progs, R=None, label="scan", plugins=("Plugins.All", "all_plugins"), eq="scan_out_eqb"):
    """progs: list of dicts {src: bytes|str, include: [...]|None, exclude: [...]|None, ignore_nosec: bool}.
    Returns (outs, mismatches) where outs[i] are implementation observables and mismatches is a list of
    (i, model_output_text)."""
    outs = []
    cases = []
    for p in progs:
        src = p["src"]
        data = src if isinstance(src, bytes) else src.encode("utf-8", "surrogatepass")
        cfgfile = None
        if p.get("config") is not None:
            import yaml
            cfgfile = os.path.join(impl.scratch(), "cfg.yaml")
            with open(cfgfile, "w") as f:
                yaml.safe_dump(p["config"], f, sort_keys=False)      # the order of keys as the generator wrote them
        mgr = impl.make_manager(p.get("include"), p.get("exclude"), cfgfile, p.get("ignore_nosec", False))
        o = impl.scan_bytes(data, mgr=mgr)
        o["filter"] = effective_filter(mgr)
        o.pop("mgr", None)
        outs.append(o)
        if o["skipped"] or p.get("no_model"):
            # not a parsed program: nothing for the visitor model to say; or a program the model is not asked about (inputs
            # on which evaluating the model is impractical - kilobyte literals through the regex model - are judged by
            # the statement-level oracle alone)
            cases.append(None)
            continue
        try:
            tree = ast.parse(data)
            term = L.node(tree)
        except Exception as e:     # the harness cannot render it: skip, but count
            cases.append(None)
            continue
        lines_coq = "None"
        if "B613" in o["filter"]:
            try:
                import tokenize as _tk
                with open(o["path"], "rb") as _f:
                    _enc, _ = _tk.detect_encoding(_f.readline)
                with open(o["path"], encoding=_enc) as _f:
                    lines_coq = "(Some %s)" % L.lst([L.pstr(x) for x in _f.readlines()], "pstr")
            except Exception:
                lines_coq = "None"
        cases.append("(SCase %s %s %s %s %s, %s)" % (
            term, impl.nosec_map_coq(o["nosec_lines"]), L.lst([L.pstr(x) for x in o["filter"]], "pstr"),
            L.lst([L.pair(L.pstr(k), jv(v)) for k, v in (p.get("config") or {}).items()], "pstr * jv"),
            lines_coq, impl.scan_out_coq(o)))
    idx = [i for i, c in enumerate(cases) if c is not None]
    files = []
    hdr = HDR % (plugins[0], L.pstr("t.py"), plugins[1])
    for s in range(0, len(idx), SHARD):
        chunk = idx[s:s + SHARD]
        body = hdr + "Definition cases : list (scase * scan_out) := %s.\n" % L.lst(
            [cases[i] for i in chunk], "scase * scan_out")
        body += "Definition mm := mismatches run1 %s cases 0%%N.\n" % eq
        body += "Eval vm_compute in (map fst mm).\nEval vm_compute in (map snd (firstn 3 mm)).\n"
        files.append(("%s_%d" % (label, s), body))
    mism = []
    broken = []
    for (name, rc, out, err), s in zip(core.coq_eval_files(files), range(0, len(idx), SHARD)):
        chunk = idx[s:s + SHARD]
        if rc != 0:
            broken.append({"what": "model evaluation failed (%s)" % name, "log": (out + err)[-2000:]})
            continue
        ii = core.parse_mismatch_indices(out)
        if ii is None:
            broken.append({"what": "unparsable model output (%s)" % name, "log": out[-2000:]})
            continue
        tail = out.split(": list N", 1)[-1][-3000:] if ii else ""
        for k in ii:
            mism.append((chunk[k], tail))
    return outs, mism, broken
