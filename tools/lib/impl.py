"""Running the real bandit (from /repo) in-process and collecting the observables."""
import io
import logging
import re
import os
import shutil
import sys
import tempfile

import coqlit as L

logging.disable(logging.CRITICAL)
import warnings
warnings.simplefilter("ignore")

from bandit.core import config as b_config      # noqa: E402
from bandit.core import manager as b_manager    # noqa: E402
from bandit.core import tester as b_tester      # noqa: E402
from bandit.core import extension_loader        # noqa: E402

EXN = {"TypeError": "TypeError", "IndexError": "IndexError", "KeyError": "KeyError",
       "AttributeError": "AttributeError", "ValueError": "ValueError",
       "FileNotFoundError": "FileNotFoundError", "UnicodeDecodeError": "UnicodeError",
       "UnicodeEncodeError": "UnicodeError"}

_errors = []


def _report_error(test, context, error):
    _errors.append((test, EXN.get(type(error).__name__, "OtherError"), repr(error)[:200]))


b_tester.BanditTester.report_error = staticmethod(_report_error)

_captured = {}
_orig_exec = b_manager.BanditManager._execute_ast_visitor


def _exec(self, fname, fdata, data, nosec_lines):
    _captured["nosec_lines"] = dict(nosec_lines)
    return _orig_exec(self, fname, fdata, data, nosec_lines)


b_manager.BanditManager._execute_ast_visitor = _exec

_scratch = None


def scratch():
    global _scratch
    if _scratch is None:
        _scratch = tempfile.mkdtemp(prefix="verif_impl_")
    return _scratch


def cleanup():
    global _scratch
    if _scratch and os.path.isdir(_scratch):
        shutil.rmtree(_scratch, ignore_errors=True)
    _scratch = None


_ADDR = re.compile(r"<ast\.\w+ object at 0x[0-9a-f]+>")


def issue_dict(i):
    return {"test_id": i.test_id, "test": i.test, "sev": i.severity, "conf": i.confidence,
            "cwe": i.cwe.id, "text": _ADDR.sub("<AST-OBJECT>", i.text), "raw_text": i.text, "lineno": i.lineno, "linerange": list(i.linerange),
            "col": i.col_offset, "ecol": i.end_col_offset, "fname": i.fname}


def make_manager(include=None, exclude=None, config_file=None, ignore_nosec=False, profile=None):
    conf = b_config.BanditConfig(config_file=config_file)
    if profile is None:
        profile = {"include": set(include or []), "exclude": set(exclude or [])}
    return b_manager.BanditManager(conf, "file", profile=profile, ignore_nosec=ignore_nosec)


def scan_bytes(data, include=None, exclude=None, config_file=None, ignore_nosec=False, name="t.py", mgr=None):
    """Scan one file's bytes through manager.run_tests(); return the observables."""
    d = scratch()
    path = os.path.join(d, name)
    with open(path, "wb") as f:
        f.write(data)
    import linecache
    linecache.clearcache()
    del _errors[:]
    _captured.clear()
    if mgr is None:
        mgr = make_manager(include, exclude, config_file, ignore_nosec)
    mgr.files_list = [path]
    mgr.run_tests()
    m = mgr.metrics.data.get(path, {})
    return {
        "results": [issue_dict(i) for i in mgr.results],
        "nosec": m.get("nosec", 0), "skipped_tests": m.get("skipped_tests", 0), "loc": m.get("loc"),
        "metrics": dict(m), "totals": dict(mgr.metrics.data["_totals"]),
        "scores": mgr.scores[0] if mgr.scores else None,
        "errors": list(_errors),
        "skipped": list(mgr.skipped), "files_list": list(mgr.files_list),
        "nosec_lines": {k: (sorted(v) if v is not None else None) for k, v in _captured.get("nosec_lines", {}).items()},
        "path": path, "mgr": mgr,
    }


# ---- Gallina rendering of the observables (expected side of a correspondence case)

def finding_coq(r):
    return "(Finding %s %s %s %s %s %s %s %s %s %s)" % (
        L.pstr(r["test_id"]), L.pstr(r["test"]), r["sev"], r["conf"], L.Z(r["cwe"]), L.pstr(r["text"]),
        L.Z(r["lineno"]), L.lst([L.Z(x) for x in r["linerange"]], "Z"), L.Z(r["col"]), L.Z(r["ecol"]))


def scan_out_coq(o):
    sc = o["scores"] or {"SEVERITY": [0, 0, 0, 0], "CONFIDENCE": [0, 0, 0, 0]}
    return "(ScanOut %s %s %s %s %s %s)" % (
        L.lst([finding_coq(r) for r in o["results"]], "finding"),
        L.Z(o["nosec"]), L.Z(o["skipped_tests"]),
        L.lst([L.pair(L.pstr(t), e) for t, e, _ in o["errors"]], "pstr * exn"),
        L.lst([L.Z(x) for x in sc["SEVERITY"]], "Z"), L.lst([L.Z(x) for x in sc["CONFIDENCE"]], "Z"))


def nosec_map_coq(nl):
    items = [(k, v) for k, v in sorted(nl.items()) if v is not None]
    return L.lst([L.pair(L.Z(k), L.lst([L.pstr(x) for x in v], "pstr")) for k, v in items], "Z * list pstr")
