"""Python values -> Gallina literal text (the only glue between harness inputs and the model)."""
import ast


def Z(z):
    return f"({z})%Z" if z < 0 else f"{z}%Z"


def N(n):
    return f"{n}%N"


def nat(n):
    return f"{n}%nat"


def B(b):
    return "true" if b else "false"


def pstr(s):
    """str -> list N of code points"""
    if s is None:
        raise ValueError("pstr(None)")
    if len(s) == 0:
        return "(@nil N)"
    return "[" + ";".join(str(ord(c)) for c in s) + "]%N"


def pbytes(b):
    if len(b) == 0:
        return "(@nil N)"
    return "[" + ";".join(str(c) for c in b) + "]%N"


def cstring(s):
    return '"' + s.replace('"', '""') + '"'


def lst(items, ty=None):
    items = list(items)
    if not items:
        return f"(@nil ({ty}))" if ty else "[]"
    return "[" + "; ".join(items) + "]"


def opt(x, f, ty=None):
    if x is None:
        return f"(@None {ty})" if ty else "None"
    return f"(Some {f(x)})"


def pair(a, b):
    return f"({a}, {b})"


def const(v):
    if v is None:
        return "CNone"
    if v is True or v is False:
        return f"(CBool {B(v)})"
    if isinstance(v, int):
        return f"(CInt {Z(v)})"
    if isinstance(v, float):
        return f"(CFloat {pstr(repr(v))} {B(bool(v))})"
    if isinstance(v, complex):
        return f"(CComplex {pstr(repr(v))} {B(bool(v))})"
    if isinstance(v, str):
        return f"(CStr {pstr(v)})"
    if isinstance(v, bytes):
        return f"(CBytes {pbytes(v)})"
    if v is Ellipsis:
        return "CEllipsis"
    raise ValueError(f"unsupported constant {type(v)}")


def node(n):
    """Structural map of any CPython ast object onto the generic [node] type."""
    if isinstance(n, ast.AST):
        cls = type(n).__name__
        if hasattr(n, "lineno"):
            pos = "(Some (Pos %s %s %s %s))" % (
                Z(n.lineno), Z(n.col_offset),
                Z(getattr(n, "end_lineno", None) if getattr(n, "end_lineno", None) is not None else n.lineno),
                Z(getattr(n, "end_col_offset", None) if getattr(n, "end_col_offset", None) is not None else n.col_offset))
        else:
            pos = "None"
        fs = []
        for name in n._fields:
            if not hasattr(n, name):
                continue
            v = getattr(n, name)
            if cls == "Constant" and name == "value":
                fs.append(f"({cstring(name)}, NConst {const(v)})")
            else:
                fs.append(f"({cstring(name)}, {node(v)})")
        return f"(Node {cstring(cls)} {pos} {lst(fs, 'string * node')})"
    if isinstance(n, list):
        return f"(NList {lst([node(x) for x in n], 'node')})"
    if n is None:
        return "NNone"
    if isinstance(n, str):
        return f"(NId {pstr(n)})"
    if isinstance(n, bool):
        raise ValueError("bool field outside Constant")
    if isinstance(n, int):
        return f"(NInt {Z(n)})"
    raise ValueError(f"unsupported field value {type(n)}")
