"""Parse every report format back into records with standard parsers (never with bandit code)."""
import csv
import io
import json
import re
import xml.etree.ElementTree as ET


def parse(fmt, text):
    """-> dict(records=[{test_id, filename, line, severity, confidence, text}], skipped=[...], wellformed=bool, error=str)"""
    try:
        if fmt == "json":
            d = json.loads(text)
            recs = [{"test_id": r["test_id"], "filename": r["filename"], "line": r["line_number"],
                     "severity": r["issue_severity"], "confidence": r["issue_confidence"], "text": r["issue_text"],
                     "test_name": r.get("test_name"), "code": r.get("code"), "line_range": r.get("line_range"),
                     "col_offset": r.get("col_offset"), "end_col_offset": r.get("end_col_offset"),
                     "cwe": (r.get("issue_cwe") or {}).get("id", 0)}
                    for r in d["results"]]
            return {"records": recs, "skipped": [(e["filename"], e["reason"]) for e in d.get("errors", [])],
                    "wellformed": True, "raw": d}
        if fmt == "yaml":
            import yaml
            d = yaml.safe_load(text)
            recs = [{"test_id": r["test_id"], "filename": r["filename"], "line": r["line_number"],
                     "severity": r["issue_severity"], "confidence": r["issue_confidence"], "text": r["issue_text"],
                     "test_name": r.get("test_name")}
                    for r in (d.get("results") or [])]
            return {"records": recs, "skipped": [(e["filename"], e["reason"]) for e in (d.get("errors") or [])],
                    "wellformed": True, "raw": d}
        if fmt == "csv":
            rows = list(csv.DictReader(io.StringIO(text, newline="")))
            recs = [{"test_id": r["test_id"], "filename": r["filename"], "line": int(r["line_number"]),
                     "severity": r["issue_severity"], "confidence": r["issue_confidence"], "text": r["issue_text"],
                     "test_name": r.get("test_name")}
                    for r in rows]
            return {"records": recs, "skipped": None, "wellformed": True}
        if fmt == "xml":
            root = ET.fromstring(text)
            recs = []
            for tc in root.iter("testcase"):
                err = tc.find("error")
                m = re.search(r"Test ID: (\S+) Severity: (\S+) Confidence: (\S+)", err.text or "")
                loc = re.search(r"Location (.*):(\d+)$", (err.text or "").strip().splitlines()[-1] if (err.text or "").strip() else "")
                recs.append({"test_id": m.group(1) if m else None, "filename": tc.get("classname"),
                             "line": int(loc.group(2)) if loc else None,
                             "severity": m.group(2) if m else None, "confidence": m.group(3) if m else None,
                             "text": err.get("message"), "test_name": tc.get("name")})
            return {"records": recs, "skipped": None, "wellformed": True}
        if fmt == "sarif":
            d = json.loads(text)
            run = d["runs"][0]
            recs = []
            for r in run["results"]:
                loc = r["locations"][0]["physicalLocation"]
                recs.append({"test_id": r["ruleId"], "filename": loc["artifactLocation"]["uri"],
                             "line": loc["region"]["startLine"],
                             "severity": r["properties"]["issue_severity"], "confidence": r["properties"]["issue_confidence"],
                             "text": r["message"]["text"], "region": loc["region"]})
            return {"records": recs, "skipped": None, "wellformed": True, "raw": d}
        if fmt == "html":
            # well-formedness in the HTML sense: our own tokenizer-level checks live in C09; here count blocks
            blocks = re.findall(r'<div id="issue-\d+">', text)
            return {"records": [{} for _ in blocks], "skipped": None, "wellformed": True}
        if fmt in ("txt", "screen"):
            blocks = re.findall(r">> Issue: \[", text)
            return {"records": [{} for _ in blocks], "skipped": None, "wellformed": True}
        if fmt == "custom":
            lines = [l for l in text.split("\n") if l.strip()]      # the formatter ends every record with "\n" and with nothing else
            return {"records": [{} for _ in lines], "skipped": None, "wellformed": True}
    except Exception as e:
        return {"records": None, "skipped": None, "wellformed": False, "error": "%s: %s" % (type(e).__name__, e)}
    return {"records": None, "wellformed": False, "error": "unknown format"}
