import ast,sys
for f in sys.argv[1:]:
    src=open(f).read(); t=ast.parse(src)
    for n in ast.walk(t):
        if isinstance(n,(ast.Module,ast.FunctionDef,ast.ClassDef)) and n.body and isinstance(n.body[0],ast.Expr) and isinstance(getattr(n.body[0],'value',None),ast.Constant) and isinstance(n.body[0].value.value,str):
            n.body=n.body[1:] or [ast.Pass()]
    print('#### ',f); print(ast.unparse(t))
