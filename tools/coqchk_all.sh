#!/bin/sh
# Independent re-check of every property and instance file (and everything they depend on) with coqchk; prints the
# context summary (axioms, type-in-type, unsafe fixpoints, assumed positivity).  Takes 10-40 minutes.
cd /verif/coq || exit 2
# bring every .vo up to date first: the checks recompile regenerated Gen/*.v files, and files compiled against an older
# Gen/*.vo would be reported as "inconsistent assumptions"
(cd /verif && ./check setup > /dev/null 2>&1) || exit 2
mods=""
for f in theories/Props/C*.v theories/Inst/C*.v; do
  m=$(echo "$f" | sed 's#theories/#Bandit.#; s#/#.#g; s#\.v$##')
  mods="$mods $m"
done
timeout 7200 coqchk -silent -o -R theories Bandit $mods 2>&1 | tail -40
