"""G-names: programs that bind a dotted name by every import spelling and use it in every context."""
import random

CONTEXTS = ["stmt", "arg", "decorator", "default", "comprehension", "lambda", "multiline",
            "nested", "assign", "method_chain", "await_like", "class_body", "kwvalue", "subscript",
            "samename_method", "samename_inner_def", "fstring_multiline", "fstring_format_spec",
            "param_annotation", "return_annotation", "annotated_assign", "star_param_annotation"]


def spellings(q):
    """All (name, import_lines, callee_expr) that make callee_expr denote q = m1.m2...f."""
    parts = q.split(".")
    out = []
    if len(parts) < 2:
        return [("bare", [], q)]
    mod, f = parts[:-1], parts[-1]
    m = ".".join(mod)
    out.append(("import_m", ["import %s" % m], q))
    out.append(("import_m_as", ["import %s as zz_a" % m], "zz_a.%s" % f))
    out.append(("from_m_import_f", ["from %s import %s" % (m, f)], f))
    out.append(("from_m_import_f_as", ["from %s import %s as zz_g" % (m, f)], "zz_g"))
    # the same local name bound twice, the second time inside a handler / a nested block: the table is filled in source order
    out.append(("try_except_fallback_from", ["try:", "    from zz_speedups import %s" % f, "except ImportError:", "    from %s import %s" % (m, f)], f))
    out.append(("try_except_fallback_import_as", ["try:", "    import zz_speedups as zz_a", "except ImportError:", "    import %s as zz_a" % m], "zz_a.%s" % f))
    out.append(("if_else_import_from", ["if zz_flag:", "    from zz_other import %s" % f, "else:", "    from %s import %s" % (m, f)], f))
    # a method / an inner function of the same name does not rebind the module-level name
    out.append(("from_m_import_f_method_same_name", ["from %s import %s" % (m, f), "class ZzSame:", "    def %s(self, *zz_a):" % f, "        return zz_a"], f))
    out.append(("from_m_import_f_as_inner_def_same_name", ["from %s import %s as zz_g" % (m, f), "def zz_outer():", "    def zz_g():", "        pass", "    return zz_g"], "zz_g"))
    if len(mod) >= 2:
        p, x = ".".join(mod[:-1]), mod[-1]
        out.append(("from_p_import_m", ["from %s import %s" % (p, x)], "%s.%s" % (x, f)))
        out.append(("from_p_import_m_as", ["from %s import %s as zz_a" % (p, x)], "zz_a.%s" % f))
        out.append(("import_top_as", ["import %s as zz_t" % mod[0]], "zz_t.%s" % ".".join(parts[1:])))
    else:
        out.append(("import_top_as", ["import %s as zz_t" % mod[0]], "zz_t.%s" % f))
    return out


def import_spellings(m):
    """Ways of importing module m (for the import blacklist); (name, lines, kind)."""
    parts = m.split(".")
    out = [("import_m", ["import %s" % m]), ("import_m_as", ["import %s as zz_a" % m]),
           ("from_m_import_x", ["from %s import zz_x" % m]),
           ("from_m_import_x_as", ["from %s import zz_x as zz_y" % m]),
           ("dunder_import", ["__import__(%r)" % m]),
           ("importlib_import_module", ["import importlib", "importlib.import_module(%r)" % m]),
           ("importlib_dunder", ["import importlib", "importlib.__import__(%r)" % m]),
           ("import_submodule", ["import %s.zz_sub" % m])]
    if len(parts) >= 2:
        out.append(("from_p_import_m", ["from %s import %s" % (".".join(parts[:-1]), parts[-1])]))
        out.append(("from_p_import_m_as", ["from %s import %s as zz_a" % (".".join(parts[:-1]), parts[-1])]))
    return out


def in_context(ctx, call, pre_lines):
    """Return (source, lineno of the call start) for `call` (an expression text, possibly multi-line)."""
    pre = list(pre_lines)
    body = []
    if ctx == "stmt":
        body = [call]; off = 0
    elif ctx == "arg":
        body = ["print(1, %s)" % call]; off = 0
    elif ctx == "decorator":
        body = ["@%s" % call, "def zz_f():", "    pass"]; off = 0
    elif ctx == "default":
        body = ["def zz_f(a=%s):" % call, "    return a"]; off = 0
    elif ctx == "comprehension":
        body = ["zz_l = [%s for zz_i in range(3)]" % call]; off = 0
    elif ctx == "lambda":
        body = ["zz_h = lambda zz_v: %s" % call]; off = 0
    elif ctx == "multiline":
        body = ["zz_r = (", "    1,", "    %s," % call, ")"]; off = 2
    elif ctx == "nested":
        body = ["class ZzC:", "    def m(self):", "        if self:", "            try:",
                "                with self as w:", "                    return %s" % call,
                "            finally:", "                pass"]; off = 5
    elif ctx == "assign":
        body = ["zz_v = %s" % call]; off = 0
    elif ctx == "method_chain":
        body = ["%s.zz_m().zz_n" % call]; off = 0
    elif ctx == "await_like":
        body = ["async def zz_co():", "    return await %s" % call]; off = 1
    elif ctx == "class_body":
        body = ["class ZzK:", "    attr = %s" % call]; off = 1
    elif ctx == "kwvalue":
        body = ["print(key=%s)" % call]; off = 0
    elif ctx == "subscript":
        body = ["zz_d[%s] = 1" % call]; off = 0
    elif ctx == "fstring_multiline":
        # inside a triple-quoted f-string, on a later line than the opening quote
        body = ["zz_s = f\'\'\'", "head {zz_h}", "{%s}" % call.replace("'", '"'), "tail\'\'\'"]; off = 2
    elif ctx == "fstring_format_spec":
        body = ["zz_s = f'{zz_v:{%s}}'" % call.replace("'", '"')]; off = 0
    elif ctx == "samename_method":
        # a method that happens to carry the local name of the callee does not rebind the module-level name
        import re as _re
        nm = _re.match(r"[A-Za-z_][A-Za-z_0-9]*", call).group(0)
        body = ["class ZzW:", "    def %s(self, zz_v):" % nm, "        return zz_v", "zz_r = %s" % call]; off = 3
    elif ctx == "samename_inner_def":
        import re as _re
        nm = _re.match(r"[A-Za-z_][A-Za-z_0-9]*", call).group(0)
        body = ["def zz_outer():", "    def %s(zz_v):" % nm, "        return zz_v", "    return 1", "zz_r = %s" % call]; off = 4
    elif ctx == "param_annotation":
        body = ["def zz_f(zz_a: %s, zz_b=1):" % call, "    return zz_a"]; off = 0
    elif ctx == "star_param_annotation":
        body = ["def zz_f(*zz_a: %s, zz_k: int = 1, **zz_kw: %s):" % (call, "int"), "    return zz_a"]; off = 0
    elif ctx == "return_annotation":
        body = ["def zz_f(zz_a) -> %s:" % call, "    return zz_a"]; off = 0
    elif ctx == "annotated_assign":
        body = ["zz_v: %s = 1" % call]; off = 0
    else:
        raise ValueError(ctx)
    src = "\n".join(pre + body) + "\n"
    return src, len(pre) + off + 1


ARG_LAYOUTS = ["()", "(zz_x)", "(zz_x, 'lit', k=1)", "(\n    zz_x,\n    k=2,\n)", "(*zz_a, **zz_k)"]


def near_misses(q, rng):
    parts = q.split(".")
    out = []
    out.append(("suffix", ".".join(parts) + "x"))
    out.append(("prefix_mod", "zz" + ".".join(parts)))
    out.append(("other_module", "zzother." + parts[-1]))
    if len(parts) >= 2:
        out.append(("truncated", ".".join(parts[:-1]) + "." + parts[-1][:-1] if len(parts[-1]) > 1 else q + "q"))
        out.append(("extra_attr", q + ".zz_more"))
    return out
