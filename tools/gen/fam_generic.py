"""Generic crash-oriented generator: every function name any check keys on x argument shapes that are unusual but valid."""
import glob
import os
import random

KEYED = [
    "subprocess.Popen", "os.system", "os.execl", "os.chmod", "hashlib.md5", "hashlib.new", "crypt.crypt", "crypt.mksalt",
    "requests.get", "httpx.get", "ssl.wrap_socket", "yaml.load", "torch.load", "tarfile.open().extractall", "t.extractall",
    "app.run", "logging.config.listen", "client.exec_command", "exec", "eval", "mark_safe", "django.utils.safestring.mark_safe",
    "Markup", "markupsafe.Markup", "jinja2.Environment", "mako.template.Template", "q.extra", "RawSQL", "cursor.execute",
    "importlib.import_module", "importlib.__import__", "__import__", "pickle.loads", "ssh.set_missing_host_key_policy",
    "CommunityData", "UsmUserData", "rsa.generate_private_key", "dsa.generate_private_key", "ec.generate_private_key",
    "RSA.generate", "DSA.generate", "SSL.Context", "random.random", "xml.etree.ElementTree.parse", "f",
]
IMPORTS = ("import subprocess, os, hashlib, crypt, requests, httpx, ssl, yaml, torch, tarfile, logging.config, importlib, pickle, random\n"
           "import paramiko, flask, jinja2, mako.template, markupsafe, xml.etree.ElementTree\n"
           "from django.utils.safestring import mark_safe\nfrom django.db.models.expressions import RawSQL\nfrom markupsafe import Markup\n"
           "from pysnmp.hlapi import CommunityData, UsmUserData\n"
           "from cryptography.hazmat.primitives.asymmetric import rsa, dsa, ec\nfrom Crypto.PublicKey import RSA, DSA\nfrom OpenSSL import SSL\n")
ARGS = [
    "", "*a", "**k", "*a, **k", "**{'x': 1}", "**'x'", "**{}", "x", "'lit'", "b'lit'", "0", "-1", "1.5", "2j", "True", "None", "...",
    "[]", "[1]", "()", "(1,)", "{}", "{'a': 1}", "{1}", "{[1]}", "{(1, [2])}", "{**d}", "[*l]", "f'x{y}'", "'a' + b", "'a %s' % b",
    "'{}'.format(b)", "x.y", "x.y()", "x()()", "lambda: 0", "x if y else z", "(yield)", "not x", "-x", "x[0]", "x[0]()", "await x",
    "a := 1", "[i for i in x]", "{i for i in x}", "{i: i for i in x}", "(i for i in x)", "name=1", "shell=True", "shell={[1]}",
    "password='x'", "debug=True", "verify=False", "timeout=None", "members=o.m()", "members=[x]", "filter='data'", "sql='x'",
    "mode=0o777", "['os', 'sys']", "name={'a': 1}", "name=['x']", "1, 2, 3, 4, 5, 6, 7, 8, 9, 10, 11, 12", "key_size=[512]", "key_size=None", "bits='512'", "curve=[1]", "curve=ec.SECP192R1", "autoescape=x",
    "usedforsecurity={[1]}", "Loader=yaml.SafeLoader", "weights_only=True", "1, 2, 3, 4, 5, 6, 7", "x, *a, y=1, **k", "'chmod *', shell=1",
]
STMTS = [
    "def f(a={[1]}, *, password={[1]}): pass\n", "def f(password=b'x', /, token=..., *a, k=ssl.PROTOCOL_SSLv3, **kw): pass\n",
    "try:\n    pass\nexcept (A, B):\n    pass\n", "try:\n    pass\nexcept x.y:\n    continue\n" if False else "for i in x:\n    try:\n        pass\n    except x.y:\n        continue\n",
    "zz_e = os.environb[b'PATH']\nzz_h = b'\\x89PNG'[0]\nzz_d[b'k'] = 1\nzz_d[b'password'] = b'x'\nzz_d[b'token':b'secret'] = b''\n",
    "zz_pw = b'hunter2'\nzz_o.password = b'x'\nzz_f(password=b'x', token=bytearray(b'y'))\nzz_pw == b'x'\ndef zz_g(secret=b'z'): pass\n",
    "assert {[1]}\n", "password = {[1]}\n", "a.password = b'x'\n", "d['token'] = 'x'\n", "d[{[1]}] = 'x'\n", "x = d['password': 'y']\n",
    "password == 'a' == 'b'\n", "'password'[0] = 'q'\n", "s = '/tmp/' '0.0.0.0'\n", "lambda password='x': 0\n", "class C:\n    password: str = 'x'\n",
    "async def f():\n    async with a as b:\n        await mark_safe(b)\n", "v = (\n v)\nmark_safe(v)\n" if False else "w = 'x'\nmark_safe(w)\n",
    "zz_s = '-' * 10 + zz_t + '-' * 10\n", "zz_q = 'select %s from t ' % zz_c * 2\ncur.execute('select %s from t ' % zz_c * 2)\n",
    "print('=' * 20 + '-' * 20)\n", "zz_m = 'a' + 1 * 'b' + b'c'.decode() + 2 * zz_n\n", "zz_p = ('x' + zz_a) * 3 + 'y' % () + None\n",
    "zz_w = 'insert into t values (' + 3 * '?, ' + '?)'\ncur.execute('delete from t where a in (' + 2 * '%s,' % zz_v + ')')\n",
    "match x:\n    case {'password': 'y'}:\n        pass\n", "type X = int\n", "def f[T](x: T = 'select * from t where %s' % y): pass\n",
    "print(f'{\"select * from t where a=\" + x!r:>{w}}')\n", "x = 'select a from b' % (yield)\n", "global_var = [exec, eval, __import__]\n",
]


def programs(rng, tier):
    out = []
    names = KEYED if tier == "thorough" else rng.sample(KEYED, 18)
    args = ARGS if tier == "thorough" else rng.sample(ARGS, 26)
    # boundary shapes every keyed name gets in every tier: many positional arguments, unhashable and non-string literals
    must = ["1, 2, 3, 4, 5, 6, 7", "1, 2, 3, 4, 5, 6, 7, 8, 9, 10, 11, 12", "['os', 'sys']", "name={'a': 1}", "{[1]}", "**'x'", "b'lit'", "None, None, None"]
    for n in KEYED:
        body = ["%s(%s)\n" % (n, a) for a in must]
        for i in range(0, len(body), 4):
            out.append({"src": IMPORTS + "".join(body[i:i + 4]), "include": None, "config": None, "keep": True})
    for n in names:
        body = []
        for a in args:
            line = "%s(%s)" % (n, a)
            if "await" in a or "yield" in a:
                body.append("async def zz_w():\n    %s\n" % line)
            else:
                body.append(line + "\n")
        # keep programs small so that a crash is attributable
        for i in range(0, len(body), 6):
            out.append({"src": IMPORTS + "".join(body[i:i + 6]), "include": None, "config": None})
    # the last name of every keyed function called as a method of receivers that are not plain names (attribute chains,
    # subscripts, calls, operators, literals) and as a bare name: a check that looks at the receiver must cope with all of them
    recvs = ["self.zz_p.%s", "zz_l[0].%s", "zz_f('x').%s", "(zz_a / 'x').%s", "''.%s", "%s", "zz_m.zz_n.zz_o.%s", "(lambda: 0).%s", "[].%s"]
    rargs = ["", "0o777", "'x', 0o777", "mode=0o777", "zz_v", "'lit'", "1, 2, 3", "shell=True", "*a", "**k"]
    lasts = sorted({n.rsplit(".", 1)[-1] for n in KEYED if n.rsplit(".", 1)[-1].isidentifier()})
    for last in (lasts if tier == "thorough" else sorted(set(rng.sample(lasts, 10)) | {"chmod", "extractall", "execute", "load"})):
        body = ["%s(%s)\n" % (r_ % last, a) for r_ in recvs for a in (rargs if tier == "thorough" or last == "chmod" else rng.sample(rargs, 4))]
        for i in range(0, len(body), 6):
            out.append({"src": IMPORTS + "".join(body[i:i + 6]), "include": None, "config": None})
    # callees that are not names or attribute chains (conditional, boolean, lambda, call result, subscript, walrus, await),
    # given the arguments checks look at from the *argument's* side: strings being built (SQL or not), literals, shell=True
    callees = ["(zz_a if zz_c else zz_b)", "(zz_a or zz_b)", "(lambda zz_q: zz_q)", "zz_f()", "zz_d['k']", "(zz_w := zz_f)", "zz_m.n()[0]",
               "(zz_log.debug if zz_v else zz_log.info)", "(not zz_f)", "[zz_f][0]", "{'k': zz_f}['k']"]
    cargs = ["'select a from t where b=%s' % zz_x", "'select a from t where b=' + zz_x", "'select {} from t'.format(zz_x)",
             "f'select a from t where b={zz_x}'", "'delete from t where a in (' + zz_x + ')'", "'/tmp/zz_file'", "password='hunter2'",
             "zz_c, shell=True", "'0.0.0.0'", "'select a from t'.replace('a', zz_x)"]
    for ce in callees:
        body = ["%s(%s)\n" % (ce, a) for a in (cargs if tier == "thorough" else rng.sample(cargs, 5))]
        body.append("async def zz_aw():\n    (await zz_h)(%s)\n" % cargs[0])
        out.append({"src": IMPORTS + "".join(body), "include": None, "config": None, "keep": True})
    for s in STMTS:
        out.append({"src": IMPORTS + s, "include": None, "config": None})
    # the same material under selections that leave some node type of the built-in blacklist check without a rule, keep
    # one plugin only, or skip whole groups: no selection may make a check raise
    sel_srcs = [IMPORTS + "pickle.loads(x)\nsubprocess.Popen(c, shell=True)\nimport telnetlib\nfrom xml import sax\n__import__('ftplib')\n",
                "import os\nfrom os import path as p\nimport importlib\nimportlib.import_module('pickle')\neval(x)\nassert y\n"]
    sels = [(["B301", "B602"], None), (["B401"], None), (["B001", "B101"], None), (None, ["B401", "B402", "B403", "B404", "B405", "B406", "B407", "B408", "B409",
            "B410", "B411", "B412", "B413", "B415"]), (None, ["B001"]), (["B307"], ["B301"]), (None, ["B301", "B302", "B303", "B304", "B305", "B306", "B307"])]
    for src in sel_srcs:
        for inc, exc in sels:
            out.append({"src": src, "include": inc, "exclude": exc, "config": None})
    # every kind of finding (node checks with one-line and multi-line spans, the file-level check whose reported line lies
    # outside its context's line range) next to every form of nosec comment: the tester's comment handling runs inside the
    # catch-all too, so a comment may not make a check raise either
    forms = ["# nosec", "# nosec B105", "# nosec B613", "# nosec B101, B613", "# nosec hardcoded_password_string", "#nosec: B602,B101",
             "# nosec B999", "# an ordinary comment", "# nosec trojansource B105"]
    lines = ["zz_password = 'a\u202eb'", "assert zz_x, '\u2066'", "zz_y = 1  # \u2069 tail", "zz_s = \"\"\"\u202d\"\"\"",
             "subprocess.Popen(zz_c,\n    shell='\u2067')", "exec(zz_c)"]
    for ln in lines:
        for i in range(0, len(forms), 3):
            out.append({"src": IMPORTS + "".join("%s  %s\n" % (ln, f_) for f_ in forms[i:i + 3]), "include": None, "config": None, "keep": True})
    ex = sorted(glob.glob(os.path.join(os.environ.get("VERIF_REPO", "/repo"), "examples", "*.py")))
    for f in (ex if tier == "thorough" else rng.sample(ex, 12)):
        try:
            src = open(f, encoding="utf-8").read()
        except Exception:
            continue
        if len(src) > 20000:
            continue      # examples/long_set.py: a 10^4-element set display; evaluating the model on it takes an hour and proves nothing new
        out.append({"src": src, "include": None, "config": None})
    return out
