"""Program generator for the "misc" plugin family:
B506 yaml_load, B614 pytorch_load, B202 tarfile_unsafe_members, B201 flask_debug_true,
B612 logging_config_insecure_listen, B601 paramiko_calls, B102 exec_used, B101 assert_used,
B110 try_except_pass, B112 try_except_continue.

programs(rng, tier) -> list of dict(src, include, config).  Deterministic given rng.

B202 `extractall(members=<neither a Name nor a Call>)` embeds str() of an AST object in the finding
text; the harness canonicalises `<ast.X object at 0x...>` to `<AST-OBJECT>` (the model's marker), so
these shapes are generated too (MEMBERS_NODE_VALUES).

B101 skips globs: the implementation matches the glob against the full path of the scanned file
(<scratch dir>/t.py), the model against "t.py".  Only globs whose outcome is the same for both are
generated (checked by _check_globs); that excludes e.g. '*/t.py', 't.p?', '?.py', '*_*'.
"""
import fnmatch
import itertools

ALL_IDS = ["B506", "B614", "B202", "B201", "B612", "B601", "B102", "B101", "B110", "B112"]

AVOIDED_SHAPES = []

# every literal kind / expression kind as an argument value
VALUES = [
    "'s'", "b'b'", "0", "1", "-1", "1.5", "2j", "True", "False", "None", "...", "[]", "[1]", "()", "(1,)",
    "{1}", "{}", "{'a': 1}", "{[1]}", "zz_n", "zz_o.attr", "zz_f()", "f'{zz_x}'", "'%s' % zz_x",
    "'a' + zz_x", "'{}'.format(zz_x)", "lambda: 0", "-zz_n", "zz_a[0]", "not zz_n", "[zz_n, 's']",
    "('s', zz_o.attr)", "{'s', 1}",
]
SHORT_VALUES = ["'s'", "0", "None", "zz_n", "zz_o.attr", "zz_f()", "{[1]}", "[1]"]

EXTRA_ARGS = ["", "*zz_a", "**zz_k", "**{'x': 1}", "**'x'", "zz_kw=1", "zz_kw={[1]}"]


class Acc:
    def __init__(self):
        self.items = []     # (category, dict)

    def add(self, cat, src, include=None, config=None):
        if not src.endswith("\n"):
            src += "\n"
        self.items.append((cat, {"src": src, "include": list(include or ALL_IDS), "config": config}))


def call(callee, args):
    args = [a for a in args if a != ""]
    return "%s(%s)" % (callee, ", ".join(args))


def multiline(callee, args):
    args = [a for a in args if a != ""]
    if not args:
        return "%s(\n)" % callee
    return "%s(\n%s\n)" % (callee, "\n".join("    %s," % a for a in args))


def with_imports(imports, body_lines):
    return "\n".join(list(imports) + list(body_lines)) + "\n"


# ------------------------------------------------------------------------------------------------
# B506 yaml_load

YAML_IMPORTS = [
    ("imp", ["import yaml"], "yaml"),
    ("imp_as", ["import yaml as zz_y"], "zz_y"),
    ("from_load", ["from yaml import load"], None),
    ("from_load_as", ["from yaml import load as zz_l"], None),
    ("imp_and_from", ["import yaml", "from yaml import load"], None),
    ("imp_and_from_as", ["import yaml", "from yaml import load as zz_l"], None),
    ("none", [], "yaml"),
    ("sub", ["import yaml.reader"], "yaml"),
    ("other_pkg", ["import ruamel.yaml as yaml"], "yaml"),
    ("star", ["from yaml import *"], None),
    ("two", ["import os, yaml"], "yaml"),
    ("from_pkg", ["from zz_p import yaml"], "yaml"),
    ("late", [], "yaml"),          # import placed after the call
    ("in_func", ["def zz_g():", "    import yaml"], "yaml"),
]

LOADER_VALUES = [
    "yaml.SafeLoader", "yaml.CSafeLoader", "SafeLoader", "CSafeLoader", "'SafeLoader'", "'CSafeLoader'",
    "b'SafeLoader'", "yaml.Loader", "yaml.FullLoader", "yaml.UnsafeLoader", "yaml.CLoader", "Loader",
    "zz_o.x.SafeLoader", "SafeLoader()", "zz_f().SafeLoader", "zz_f().Loader", "None", "True",
    "[SafeLoader]", "(SafeLoader,)", "{[1]}", "...", "yaml.SafeLoaderX", "yaml.safeloader", "f'SafeLoader'",
    "'Safe' 'Loader'", "'Safe' + 'Loader'", "zz_d['SafeLoader']", "SafeLoader.zz", "{SafeLoader}",
]


def yaml_callees(kind, mod):
    if kind in ("from_load", "imp_and_from", "star"):
        base = ["load", "load_all", "safe_load"]
    elif kind in ("from_load_as", "imp_and_from_as"):
        base = ["zz_l"]
    else:
        base = []
    m = mod or "yaml"
    base += ["%s.load" % m, "%s.load_all" % m, "%s.safe_load" % m, "%s.unsafe_load" % m, "%s.loadx" % m,
             "%s.xload" % m, "zz_o.%s.load" % m, "%s.zz.load" % m, "%s.load.load" % m, "%sx.load" % m,
             "%s.load.zz" % m, "load", "zz_o.load", "zz_f().load", "%s.Load" % m]
    return list(dict.fromkeys(base))


def gen_yaml(acc):
    for kind, imps, mod in YAML_IMPORTS:
        for callee in yaml_callees(kind, mod):
            main = callee.endswith(".load") or callee in ("load", "zz_l")
            primary = callee == yaml_callees(kind, mod)[0]
            full = primary and kind in ("imp", "imp_as", "imp_and_from", "imp_and_from_as", "two")
            argsets = [[], ["zz_x"]]
            if main and not full:
                for lv in LOADER_VALUES[:10] + ["{[1]}"]:
                    argsets.append(["zz_x", "Loader=%s" % lv])
                    argsets.append(["zz_x", lv])
                argsets += [["zz_x", "zz_kw={[1]}"], ["zz_x", "**zz_k"], ["*zz_a"], ["SafeLoader"],
                            ["*zz_a", "SafeLoader"], ["zz_x", "**'x'"]]
            elif main:
                for lv in LOADER_VALUES:
                    argsets.append(["zz_x", "Loader=%s" % lv])
                    argsets.append(["zz_x", lv])
                for lv in LOADER_VALUES[:8]:
                    argsets.append([lv])                         # position 0
                    argsets.append(["zz_x", "zz_y", lv])         # position 2
                    argsets.append(["Loader=%s" % lv])
                    argsets.append(["zz_x", "loader=%s" % lv])   # near-miss keyword
                    argsets.append(["*zz_a", lv])                # Starred at 0, value at 1
                    argsets.append(["zz_x", lv, "Loader=yaml.Loader"])
                    argsets.append(["zz_x", "yaml.Loader", "Loader=%s" % lv])
                    argsets.append(["stream=zz_x", "Loader=%s" % lv])
                    argsets.append(["zz_x", "**{'Loader': %s}" % lv])
                for e in EXTRA_ARGS:
                    argsets.append(["zz_x", e])
                    argsets.append(["zz_x", "yaml.SafeLoader", e])
                    argsets.append(["zz_x", "Loader=yaml.SafeLoader", e])
                argsets.append(["zz_x", "*zz_a"])
                argsets.append(["*zz_a"])
                argsets.append(["**zz_k"])
                for v in VALUES:
                    argsets.append(["zz_x", v])
                    argsets.append(["zz_x", "Loader=%s" % v])
                    argsets.append([v])
            else:
                argsets += [["zz_x", "Loader=yaml.SafeLoader"], ["zz_x", "yaml.SafeLoader"], ["zz_x", "{[1]}"],
                            ["zz_x", "zz_kw={[1]}"], ["zz_x", "Loader={[1]}"]]
            for args in argsets:
                layouts = [call(callee, args)]
                if full and len(args) >= 2 and kind in ("imp", "imp_and_from"):
                    layouts.append(multiline(callee, args))
                for ly in layouts:
                    if kind == "late":
                        src = with_imports([], [ly, "import yaml"])
                    else:
                        src = with_imports(imps, [ly])
                    acc.add("yaml/%s/%s" % (kind, "main" if main else "near"), src)
    # in contexts, with nosec
    for ctx_src in [
        "import yaml\ndef zz_g(zz_x):\n    return yaml.load(zz_x)\n",
        "import yaml\nzz_v = [yaml.load(zz_i) for zz_i in zz_l]\n",
        "import yaml\nyaml.load(zz_x)  # nosec\n",
        "import yaml\nyaml.load(zz_x)  # nosec B506\n",
        "import yaml\nyaml.load(zz_x)  # nosec B102\n",
        "import yaml\nyaml.load(\n    zz_x,  # nosec\n    Loader=yaml.Loader)\n",
        "import yaml\nyaml.load(yaml.load(zz_x), Loader=yaml.SafeLoader)\n",
        "import yaml\nyaml.load(zz_x, Loader=yaml.load(zz_y))\n",
        "import yaml as zz_y\nimport zz_y as yaml\nyaml.load(zz_x)\n",
        "import yaml\nyaml = zz_o\nyaml.load(zz_x)\n",
        "try:\n    import yaml\nexcept ImportError:\n    yaml = None\nyaml.load(zz_x)\n",
    ]:
        acc.add("yaml/context", ctx_src)


# ------------------------------------------------------------------------------------------------
# B614 pytorch_load

TORCH_IMPORTS = [
    ("imp", ["import torch"], "torch"),
    ("imp_as", ["import torch as zz_t"], "zz_t"),
    ("from_load", ["from torch import load"], None),
    ("from_load_as", ["from torch import load as zz_l"], None),
    ("imp_and_from", ["import torch", "from torch import load"], None),
    ("none", [], "torch"),
    ("sub", ["import torch.nn"], "torch"),
    ("sub_and", ["import torch.nn, torch"], "torch"),
    ("vision", ["import torchvision"], "torch"),
    ("from_jit", ["import torch", "from torch import jit"], "torch"),
]
WEIGHTS_VALUES = ["True", "False", "'True'", "'False'", "b'True'", "None", "1", "0", "zz_n", "zz_o.True_",
                  "zz_o.flag", "zz_f()", "not False", "bool(1)", "[True]", "(True,)", "{[1]}", "...",
                  "f'True'", "'Tr' 'ue'", "True if zz_n else False", "'true'", "TRUE", "1.0"]


def gen_torch(acc):
    for kind, imps, mod in TORCH_IMPORTS:
        callees = []
        if kind in ("from_load", "imp_and_from"):
            callees += ["load"]
        if kind == "from_load_as":
            callees += ["zz_l"]
        if kind == "from_jit":
            callees += ["jit.load"]
        m = mod or "torch"
        callees += ["%s.load" % m, "%s.jit.load" % m, "%s.save" % m, "%s.loads" % m, "%s.load_state_dict" % m,
                    "zz_model.load", "zz_o.%s.load" % m, "%sx.load" % m, "%s.load.zz" % m, "load",
                    "%s.hub.load" % m, "%s.Load" % m]
        for callee in dict.fromkeys(callees):
            main = callee.endswith(".load") or callee in ("load", "zz_l")
            full = callee == list(dict.fromkeys(callees))[0] and kind in ("imp", "imp_as", "imp_and_from", "sub_and")
            argsets = [[], ["zz_f"]]
            if main and not full:
                for w in WEIGHTS_VALUES[:8] + ["{[1]}"]:
                    argsets.append(["zz_f", "weights_only=%s" % w])
                argsets += [["zz_f", "zz_kw={[1]}"], ["zz_f", "**zz_k"], ["*zz_a"], ["zz_f", "load=zz_n"],
                            ["zz_f", "**'x'"], ["zz_f", "'cpu'", "zz_p", "True"]]
            elif main:
                for w in WEIGHTS_VALUES:
                    argsets.append(["zz_f", "weights_only=%s" % w])
                for w in WEIGHTS_VALUES[:6]:
                    argsets.append(["weights_only=%s" % w])
                    argsets.append(["zz_f", "'cpu'", "zz_p", w])                # positional
                    argsets.append(["zz_f", "Weights_only=%s" % w])
                    argsets.append(["zz_f", "**{'weights_only': %s}" % w])
                    argsets.append(["zz_f", "map_location='cpu'", "weights_only=%s" % w])
                    argsets.append(["zz_f", "weights_only=%s" % w, "load=zz_n"])
                    argsets.append(["zz_f", "load=zz_n", "weights_only=%s" % w])
                for e in EXTRA_ARGS:
                    argsets.append(["zz_f", e])
                    argsets.append(["zz_f", "weights_only=True", e])
                    argsets.append(["zz_f", "weights_only=False", e])
                argsets += [["*zz_a"], ["**zz_k"], ["zz_f", "load=zz_n"], ["zz_f", "load={[1]}"]]
                for v in VALUES:
                    argsets.append(["zz_f", v])
                    argsets.append(["zz_f", "map_location=%s" % v])
            else:
                argsets += [["zz_f", "weights_only=True"], ["zz_f", "weights_only=False"], ["zz_f", "{[1]}"],
                            ["zz_f", "zz_kw={[1]}"]]
            for args in argsets:
                layouts = [call(callee, args)]
                if full and len(args) >= 2 and kind in ("imp", "imp_and_from"):
                    layouts.append(multiline(callee, args))
                    if kind == "imp":
                        layouts.append("zz_r = (\n    1,\n    %s)" % multiline(callee, args))
                for ly in layouts:
                    acc.add("torch/%s/%s" % (kind, "main" if main else "near"), with_imports(imps, [ly]))
    for ctx_src in [
        "import torch\ntorch.load(zz_f)  # nosec\n",
        "import torch\ntorch.load(zz_f,\n    load=zz_n)  # nosec\n",
        "import torch\ntorch.load(zz_f,  # nosec\n    load=zz_n)\n",
        "import torch\ntorch.load(zz_f,\n    load=zz_n,  # nosec B614\n    weights_only=False)\n",
        "import torch\nclass ZzC:\n    def m(self):\n        return torch.load(self.p, weights_only=self.w)\n",
        "import torch\ntorch.load(torch.load(zz_f), weights_only=True)\n",
    ]:
        acc.add("torch/context", ctx_src)


# ------------------------------------------------------------------------------------------------
# B202 tarfile_unsafe_members

TAR_IMPORTS = [
    ("imp", ["import tarfile"]),
    ("imp_as", ["import tarfile as zz_tf"]),
    ("from_open", ["from tarfile import open"]),
    ("from_cls", ["from tarfile import TarFile"]),
    ("imp_and_from", ["import tarfile", "from tarfile import TarFile"]),
    ("none", []),
    ("sub", ["import tarfile.zz"]),
    ("near", ["import tarfile2"]),
    ("two", ["import os, tarfile"]),
]
TAR_CALLEES = ["zz_t.extractall", "tarfile.open(zz_p).extractall", "extractall", "zz_my_extractall2",
               "zz_t.extractall_x", "zz_t.x_extractall", "zz_t.extract", "zz_t.zz.extractall",
               "zz_t.extractall.zz", "zz_f().extractall", "zz_t.Extractall", "tarfile.TarFile.extractall"]
# members values that are neither a Name nor a Call: {'Other': <AST-OBJECT>}
MEMBERS_NODE_VALUES = ["[m for m in zz_t]", "None", "zz_o.ms", "'s'", "zz_t.getmembers()[1:]", "[]", "...",
                       "{[1]}", "(m for m in zz_t if zz_ok(m))", "zz_ms or None", "[zz_a, zz_b]", "lambda: 0",
                       "f'{zz_x}'", "zz_d['k']", "True", "b'x'", "1"]
# Names and Calls
MEMBERS_VALUES = ["zz_ms", "zz_f(zz_t)", "zz_f()", "zz_o.m(zz_t)", "zz_t.getmembers()", "zz_f()()",
                  "(lambda: zz_x)()", "zz_a[0]()", "list(zz_t)", "zz_f(zz_t)(zz_u)", "zz_o.a.b()", "é_fn(zz_t)",
                  "members", "é_ms", "Function", "(zz_ms)", "(zz_f)(zz_t)", "zz_f(*zz_a, **zz_k)",
                  "zz_f({[1]})"]
FILTER_VALUES = ["'data'", "\"data\"", "'tar'", "'fully_trusted'", "data", "zz_o.data", "b'data'", "zz_flt", "tarfile.data_filter",
                 "None", "f'data'", "'da' 'ta'", "'da' + 'ta'", "{[1]}", "'Data'", "'data '", "''", "zz_f()",
                 "['data']", "('data')", "u'data'", "r'data'", "'''data'''", "True", "0"]


def gen_tarfile(acc):
    for kind, imps in TAR_IMPORTS:
        for callee in TAR_CALLEES:
            main = "extractall" in callee.split("(")[-1].split(".")[-1] if "(" not in callee.split(".")[-1] else False
            argsets = [[], ["zz_p"], ["path=zz_p"]]
            full = kind in ("imp", "imp_as", "two", "imp_and_from") and callee in (
                "zz_t.extractall", "tarfile.open(zz_p).extractall", "extractall", "zz_my_extractall2")
            if full:
                for mv in MEMBERS_VALUES + MEMBERS_NODE_VALUES:
                    argsets.append(["members=%s" % mv])
                    argsets.append(["zz_p", "members=%s" % mv])
                for mv in MEMBERS_NODE_VALUES[:8]:
                    for fv in FILTER_VALUES[:4]:
                        argsets.append(["members=%s" % mv, "filter=%s" % fv])
                for fv in FILTER_VALUES:
                    argsets.append(["filter=%s" % fv])
                    argsets.append(["zz_p", "filter=%s" % fv])
                for mv in MEMBERS_VALUES[:10]:
                    for fv in FILTER_VALUES[:9]:
                        argsets.append(["members=%s" % mv, "filter=%s" % fv])
                        argsets.append(["filter=%s" % fv, "members=%s" % mv])
                for mv in MEMBERS_VALUES[:6]:
                    argsets.append(["zz_p", mv])                               # positional members
                    argsets.append(["zz_p", mv, "filter='data'"])
                    argsets.append(["zz_p", "Members=%s" % mv])
                    argsets.append(["zz_p", "**{'members': %s}" % mv])
                    argsets.append(["zz_p", "members=%s" % mv, "numeric_owner=True"])
                    argsets.append(["zz_p", "members=%s" % mv, "**zz_k"])
                    argsets.append(["zz_p", "members=%s" % mv, "zz_kw={[1]}"])
                    argsets.append(["*zz_a", "members=%s" % mv])
                for fv in FILTER_VALUES[:6]:
                    argsets.append(["zz_p", "None", "numeric_owner=True", "filter=%s" % fv])
                    argsets.append(["zz_p", "**{'filter': %s}" % fv])
                    argsets.append(["zz_p", "Filter=%s" % fv])
                    argsets.append(["zz_p", "filter=%s" % fv, "**zz_k"])
                    argsets.append(["zz_p", "filter=%s" % fv, "zz_kw={[1]}"])
                for e in EXTRA_ARGS:
                    argsets.append(["zz_p", e])
                    argsets.append([e])
                for v in VALUES:
                    argsets.append([v])
                    argsets.append(["path=%s" % v])
            else:
                argsets += [["members=zz_ms"], ["members=zz_f(zz_t)"], ["members=zz_t.getmembers()"],
                            ["members=[m for m in zz_t]"], ["members=None"],
                            ["filter='data'"], ["filter='tar'"], ["members=zz_ms", "filter='data'"],
                            ["zz_kw={[1]}"], ["**zz_k"], ["members=zz_f(zz_t)", "filter=zz_flt"]]
            for args in argsets:
                layouts = [call(callee, args)]
                if full and len(args) >= 2 and callee == "zz_t.extractall" and kind == "imp":
                    layouts.append(multiline(callee, args))
                for ly in layouts:
                    acc.add("tar/%s/%s" % (kind, "full" if full else "near"), with_imports(imps, [ly]))
    for ctx_src in [
        "import tarfile\nwith tarfile.open(zz_p) as zz_t:\n    zz_t.extractall()\n",
        "import tarfile\nwith tarfile.open(zz_p) as zz_t:\n    zz_t.extractall(members=zz_safe(zz_t))  # nosec\n",
        "import tarfile\ndef zz_g(zz_t):\n    zz_t.extractall(\n        path='.',\n        members=zz_ms,  # nosec B202\n    )\n",
        "import tarfile\nzz_t.extractall(filter='data', members=zz_o.m())\n",
        "import tarfile\nzz_t.extractall(members=zz_o.m(), filter='data')\n",
        "import tarfile\nzz_z.extractall()\nimport zipfile\n",
        "import zipfile\nzz_z.extractall()\nimport tarfile\n",
    ]:
        acc.add("tar/context", ctx_src)


# ------------------------------------------------------------------------------------------------
# B201 flask_debug_true

FLASK_IMPORTS = [
    ("imp", ["import flask"]),
    ("from_cls", ["from flask import Flask"]),
    ("imp_as", ["import flask as zz_fl"]),
    ("like_pkg", ["from flask_restful import Api"]),
    ("like_mid", ["import myflaskapp"]),
    ("like_sub", ["import zz_p.flask.zz"]),
    ("none", []),
    ("case", ["import Flask"]),
    ("near", ["import flas"]),
    ("from_x", ["from zz_p import flask"]),
]
FLASK_CALLEES = ["zz_app.run", "run", "flask.Flask(__name__).run", "zz_app.runx", "zz_app.xrun", "zz_app.zz.run",
                 "zz_app.run.run", "zz_app.run.zz", "zz_f().run", "zz_app.Run", "subprocess.run", "zz_a[0].run"]
DEBUG_VALUES = ["True", "False", "'True'", "'true'", "b'True'", "1", "0", "None", "zz_n", "zz_cfg.DEBUG",
                "zz_cfg.True_", "not zz_n", "bool(1)", "True if zz_n else False", "[True]", "{[1]}", "...",
                "f'True'", "'Tr' 'ue'", "zz_f()", "TRUE", "(True)", "1.0", "'True '"]


def gen_flask(acc):
    for kind, imps in FLASK_IMPORTS:
        for callee in FLASK_CALLEES:
            main = callee.endswith(".run")
            full = main and kind in ("imp", "from_cls", "like_pkg", "none") and callee in (
                "zz_app.run", "flask.Flask(__name__).run", "subprocess.run")
            argsets = [[], ["debug=True"], ["debug=False"], ["zz_kw={[1]}"], ["debug=True", "zz_kw={[1]}"]]
            if full:
                for dv in DEBUG_VALUES:
                    argsets.append(["debug=%s" % dv])
                    argsets.append(["host='0.0.0.0'", "debug=%s" % dv, "port=80"])
                for dv in DEBUG_VALUES[:8]:
                    argsets.append(["'h'", "80", dv])                          # positional debug
                    argsets.append(["Debug=%s" % dv])
                    argsets.append(["**{'debug': %s}" % dv])
                    argsets.append(["debug=%s" % dv, "**zz_k"])
                    argsets.append(["*zz_a", "debug=%s" % dv])
                    argsets.append(["debug=%s" % dv, "use_reloader=False"])
                for e in EXTRA_ARGS:
                    argsets.append([e])
                    argsets.append(["debug=True", e])
                for v in VALUES:
                    argsets.append([v])
                    argsets.append(["host=%s" % v, "debug=True"])
            for args in argsets:
                layouts = [call(callee, args)]
                if full and args and callee == "zz_app.run":
                    layouts.append(multiline(callee, args))
                for ly in layouts:
                    acc.add("flask/%s/%s" % (kind, "full" if full else "near"), with_imports(imps, [ly]))
    for ctx_src in [
        "from flask import Flask\nzz_app = Flask(__name__)\nif __name__ == '__main__':\n    zz_app.run(debug=True)\n",
        "import flask\nzz_app.run(\n    host='h',\n    debug=True)  # nosec\n",
        "import flask\nzz_app.run(  # nosec\n    host='h',\n    debug=True)\n",
        "import flask\nzz_app.run(\n    host='h',  # nosec B201\n    debug=True)\n",
        "import flask\nzz_app.run(\n    host='h',\n    debug=True  # nosec B201\n)\n",
        "import flask\nzz_app.run(debug=(\n    'True'))\n",
        "import flask\nzz_app.run(debug=\n    True)\n",
        "zz_app.run(debug=True)\nimport flask\n",
        "import flask\nzz_app.run(debug=zz_other.run(debug=True))\n",
    ]:
        acc.add("flask/context", ctx_src)


# ------------------------------------------------------------------------------------------------
# B612 logging_config_insecure_listen

LISTEN_SPELLINGS = [
    ("imp", ["import logging.config"], "logging.config.listen"),
    ("imp_as", ["import logging.config as zz_lc"], "zz_lc.listen"),
    ("from_f", ["from logging.config import listen"], "listen"),
    ("from_f_as", ["from logging.config import listen as zz_l"], "zz_l"),
    ("from_m", ["from logging import config"], "config.listen"),
    ("from_m_as", ["from logging import config as zz_c"], "zz_c.listen"),
    ("imp_top", ["import logging"], "logging.config.listen"),
    ("imp_top_as", ["import logging as zz_lg"], "zz_lg.config.listen"),
    ("none", [], "logging.config.listen"),
    ("none_bare", [], "listen"),
    ("near_x", ["import logging.config"], "logging.config.listenx"),
    ("near_short", ["import logging.config"], "logging.listen"),
    ("near_pre", ["import logging.config"], "zz_o.logging.config.listen"),
    ("near_post", ["import logging.config"], "logging.config.listen.zz"),
    ("near_case", ["import logging.config"], "logging.config.Listen"),
    ("near_other", ["import logging.config"], "logging.config.dictConfig"),
    ("near_call", ["import logging.config"], "zz_f().listen"),
]
VERIFY_VALUES = ["zz_verify", "None", "lambda b: b", "zz_o.verify", "zz_f()", "True", "{[1]}", "'s'", "..."]


def gen_listen(acc):
    for kind, imps, callee in LISTEN_SPELLINGS:
        argsets = [[], ["9999"], ["port=9999"], ["zz_kw={[1]}"], ["9999", "verify=zz_verify"]]
        if not kind.startswith("near"):
            for vv in VERIFY_VALUES:
                argsets.append(["9999", "verify=%s" % vv])
                argsets.append(["verify=%s" % vv])
                argsets.append(["port=9999", "verify=%s" % vv])
                argsets.append(["verify=%s" % vv, "port=9999"])
            for vv in VERIFY_VALUES[:4]:
                argsets.append(["9999", vv])                                   # positional verify
                argsets.append(["9999", "Verify=%s" % vv])
                argsets.append(["9999", "**{'verify': %s}" % vv])
                argsets.append(["9999", "verify=%s" % vv, "**zz_k"])
                argsets.append(["*zz_a", "verify=%s" % vv])
            for e in EXTRA_ARGS:
                argsets.append([e])
                argsets.append(["9999", e])
                argsets.append(["9999", "verify=zz_verify", e])
            for v in VALUES:
                argsets.append([v])
                argsets.append(["port=%s" % v])
        for args in argsets:
            layouts = [call(callee, args)]
            if kind in ("imp", "from_f") and len(args) >= 1:
                layouts.append(multiline(callee, args))
            for ly in layouts:
                acc.add("listen/%s" % kind, with_imports(imps, [ly]))
    for ctx_src in [
        "import logging.config\nzz_t = logging.config.listen(9999)\nzz_t.start()\n",
        "import logging.config\nlogging.config.listen(9999)  # nosec\n",
        "import logging.config\nlogging.config.listen(\n    9999)  # nosec B612\n",
        "from logging import config\nconfig = zz_o\nconfig.listen(1)\n",
    ]:
        acc.add("listen/context", ctx_src)


# ------------------------------------------------------------------------------------------------
# B601 paramiko_calls

PARAMIKO_IMPORTS = [
    ("imp", ["import paramiko"]),
    ("from_cls", ["from paramiko import SSHClient"]),
    ("imp_as", ["import paramiko as zz_pk"]),
    ("like_mid", ["import myparamikowrapper"]),
    ("like_sub", ["from zz_p.paramiko_x import zz_y"]),
    ("none", []),
    ("case", ["import Paramiko"]),
    ("near", ["import paramik"]),
    ("from_client", ["from paramiko.client import SSHClient"]),
]
PARAMIKO_CALLEES = ["zz_c.exec_command", "exec_command", "paramiko.SSHClient().exec_command",
                    "zz_c.exec_commandx", "zz_c.xexec_command", "zz_c.zz.exec_command", "zz_c.exec_command.zz",
                    "zz_c.invoke_shell", "zz_c.Exec_command", "zz_f().exec_command", "zz_c.exec", "exec"]


def gen_paramiko(acc):
    for kind, imps in PARAMIKO_IMPORTS:
        for callee in PARAMIKO_CALLEES:
            argsets = [[], ["'ls'"], ["zz_cmd"], ["command=zz_cmd"], ["zz_kw={[1]}"]]
            if callee in ("zz_c.exec_command", "exec_command") and kind in ("imp", "from_cls", "none"):
                for e in EXTRA_ARGS:
                    argsets.append(["zz_cmd", e])
                for v in VALUES:
                    argsets.append([v])
                    argsets.append(["command=%s" % v])
                argsets += [["zz_cmd", "1", "2", "3"], ["*zz_a"], ["**zz_k"], ["zz_cmd", "get_pty=True"]]
            for args in argsets:
                layouts = [call(callee, args)]
                if callee == "zz_c.exec_command" and kind == "imp" and args:
                    layouts.append(multiline(callee, args))
                for ly in layouts:
                    acc.add("paramiko/%s" % kind, with_imports(imps, [ly]))
    for ctx_src in [
        "import paramiko\nzz_i, zz_o, zz_e = zz_c.exec_command(zz_cmd)\n",
        "import paramiko\nzz_c.exec_command(zz_cmd)  # nosec\n",
        "import paramiko\nzz_c.exec_command(\n    zz_cmd)  # nosec B601\n",
        "zz_c.exec_command(zz_cmd)\nimport paramiko\n",
        "def zz_g():\n    import paramiko\nzz_c.exec_command(zz_cmd)\n",
    ]:
        acc.add("paramiko/context", ctx_src)


# ------------------------------------------------------------------------------------------------
# B102 exec_used

EXEC_FORMS = [
    ([], "exec"), ([], "(exec)"), ([], "exec "), ([], "builtins.exec"), (["import builtins"], "builtins.exec"),
    (["from builtins import exec"], "exec"), (["from builtins import exec as zz_e"], "zz_e"),
    (["import zz_m as exec"], "exec"), (["from os import execl as exec"], "exec"),
    (["from zz_m import zz_f as exec"], "exec"), (["import exec"], "exec"), (["import exec"], "exec.zz"),
    (["from exec import zz"], "exec"),
    ([], "execx"), ([], "xexec"), ([], "Exec"), ([], "zz_o.exec"), ([], "exec.zz"), ([], "eval"),
    ([], "zz_f().exec"), ([], "exec()"), ([], "execfile"), (["exec = zz_o"], "exec"),
    (["import zz_m as zz_a"], "zz_a.exec"), (["from zz_m import exec"], "exec"),
    (["import exec as zz_q"], "zz_q"),
]


def gen_exec(acc):
    for imps, callee in EXEC_FORMS:
        argsets = [[], ["'x = 1'"], ["zz_src"], ["zz_src", "zz_g"], ["zz_src", "zz_g", "zz_l"],
                   ["zz_src", "globals=zz_g"], ["*zz_a"], ["**zz_k"], ["**{'x': 1}"], ["**'x'"], ["zz_kw={[1]}"],
                   ["{[1]}"], ["compile(zz_src, 'f', 'exec')"], ["exec(zz_src)"]]
        if callee == "exec" and not imps:
            for v in VALUES:
                argsets.append([v])
                argsets.append(["zz_src", v])
        for args in argsets:
            layouts = [call(callee, args)]
            if callee == "exec" and args:
                layouts.append(multiline(callee, args))
            for ly in layouts:
                acc.add("exec", with_imports(imps, [ly]))
    for ctx_src in [
        "exec\n", "zz_v = exec\nzz_v('x')\n", "def exec(x):\n    pass\nexec('x')\n",
        "class ZzC:\n    def exec(self):\n        exec('x')\n", "exec('x')  # nosec\n", "exec(\n    'x')  # nosec B102\n",
        "lambda: exec('x')\n", "@exec('x')\ndef zz_g():\n    pass\n", "def zz_g(a=exec('x')):\n    pass\n",
        "[exec(zz_i) for zz_i in zz_l]\n", "async def zz_co():\n    await exec('x')\n",
    ]:
        acc.add("exec/context", ctx_src)


# ------------------------------------------------------------------------------------------------
# B101 assert_used

# globs with the same outcome on "<scratch dir>/t.py" and on "t.py"
GLOBS_MATCH = ["*", "*.py", "*t.py", "**.py", "*t.p?", "*?.py", "*????", "*[st].py", "*[!a].py", "*[a-z].py",
               "*.p[xyz]", "*.p[!x]", "*[!b-a]?py", "*[b-a!x].py", "*t[.]py", "*[]t].py", "*[!]].py",
               "*t.py*", "*t*.py", "*.p*", "*[t-t].py", "*t[--/]py", "*t[&~|.]py", "*[^t].py", "*[!^].py",
               "*[b-a!-z].py", "*[!!].py", "*.[p][y]", "*[s-u][,-.]py", "*.p[]y]", "*.p[y-]", "*.p[-y]"]
GLOBS_NOMATCH = ["", "nomatch*", "*.pyc", "*.PY", "*T.py", "*test_*.py", "*[!t].py", "*[a-s].py", "*[b-a].py",
                 "*.py[", "*[.py", "*.p[!y]", "*t[!.]py", "*.p[!a-z]", "*.py?", "*[].py", "*[!].py", "*t.py]",
                 "*.p[z-y]", "*[b-a!t].py", "*[!!-z].py", "*[b-a!-z]py", "*.p[x-]", "t", "*[[]t.py",
                 "*\\.py", "*.p[\\y", "*[t.py", "*.p[!]y]"]


_ALL_GLOBS = GLOBS_MATCH + GLOBS_NOMATCH
GLOBS_MATCH = [g for g in _ALL_GLOBS if fnmatch.fnmatch("t.py", g)]
GLOBS_NOMATCH = [g for g in _ALL_GLOBS if not fnmatch.fnmatch("t.py", g)]


def _check_globs():
    paths = ["/tmp/verif_impl_abcd1234/t.py", "/var/tmp/verif_impl_zzzzzzzz/t.py"]
    try:
        import os
        import impl
        paths.append(os.path.join(impl.scratch(), "t.py"))
    except Exception:
        pass
    for g in GLOBS_MATCH + GLOBS_NOMATCH:
        for p in paths:
            assert fnmatch.fnmatch(p, g) == fnmatch.fnmatch("t.py", g), (g, p)


ASSERT_SOURCES = [
    "assert zz_x\n",
    "assert zz_x, 'msg'\n",
    "def zz_g(a):\n    assert a > 0\n    return a\n",
    "class ZzC:\n    assert True\n    def m(self):\n        assert self.x, (\n            'long'\n            ' message')\n",
    "assert (\n    zz_x\n)\n",
    "assert zz_x  # nosec\n",
    "assert zz_x  # nosec B101\n",
    "assert zz_x  # nosec B102\n",
    "if zz_x:\n    assert zz_y\nelse:\n    assert zz_z\nassert zz_w\n",
    "async def zz_co():\n    assert await zz_f()\n",
    "lambda: zz_assert\nzz_o.assert_(1)\nassertTrue(zz_x)\n",
    "for zz_i in zz_l:\n    assert zz_i; assert zz_i + 1\n",
    "try:\n    assert zz_x\nexcept AssertionError:\n    pass\n",
    "assert exec('x')\n",
    "def zz_test_f():\n    assert 1 == 1\n    with zz_o:\n        assert 2\n",
]


def assert_configs():
    cfgs = [None, {"assert_used": None}, {"assert_used": {}}, {"assert_used": {"skips": []}},
            {"assert_used": {"skips": None}}, {"assert_used": {"skips": 3}}, {"assert_used": {"skips": True}},
            {"assert_used": {"skips": "*.py"}}, {"assert_used": {"skips": "t"}}, {"assert_used": {"skips": ""}},
            {"assert_used": {"skips": "t.py"}}, {"assert_used": {"skips": "[*]"}},
            {"assert_used": {"skips": [1]}}, {"assert_used": {"skips": [None]}},
            {"assert_used": {"skips": [["*.py"]]}}, {"assert_used": {"skips": [True]}},
            {"assert_used": {"skips": [{"a": 1}]}},
            {"assert_used": {"skips": ["nomatch", 1]}}, {"assert_used": {"skips": ["*.py", 1]}},
            {"assert_used": {"skips": [1, "*.py"]}},
            {"assert_used": "x"}, {"assert_used": ["*.py"]}, {"assert_used": 0}, {"assert_used": 7},
            {"assert_used": False}, {"assert_used": True}, {"assert_used": ""}, {"assert_used": []},
            {"assert_used": {"skips": {"*.py": 1}}}, {"assert_used": {"skips": {"nomatch": 1, "*t.py": 2}}},
            {"assert_used": {"skips": {}}},
            {"assert_used": {"Skips": ["*.py"]}}, {"assert_used": {"skip": ["*.py"]}},
            {"assert_usedx": {"skips": ["*.py"]}}, {"try_except_pass": {"skips": ["*.py"]}},
            {"assert_used": {"skips": ["*.py"], "zz": 1}},
            {"assert_used": {"skips": ["*.py"]}, "try_except_pass": {"check_typed_exception": True}}]
    for g in GLOBS_MATCH + GLOBS_NOMATCH:
        cfgs.append({"assert_used": {"skips": [g]}})
    for g in GLOBS_MATCH[:12]:
        for h in GLOBS_NOMATCH[:6]:
            cfgs.append({"assert_used": {"skips": [h, g]}})
            cfgs.append({"assert_used": {"skips": [g, h]}})
    for h in GLOBS_NOMATCH:
        for h2 in GLOBS_NOMATCH[:5]:
            cfgs.append({"assert_used": {"skips": [h, h2]}})
    cfgs.append({"assert_used": {"skips": list(GLOBS_NOMATCH)}})
    cfgs.append({"assert_used": {"skips": list(GLOBS_NOMATCH) + ["*.py"]}})
    return cfgs


def gen_assert(acc):
    _check_globs()
    cfgs = assert_configs()
    for i, cfg in enumerate(cfgs):
        srcs = ASSERT_SOURCES if i < 45 else [ASSERT_SOURCES[i % len(ASSERT_SOURCES)], ASSERT_SOURCES[0]]
        for src in srcs:
            acc.add("assert/%s" % ("cfg" if i < 45 else "glob"), src, config=cfg)


# ------------------------------------------------------------------------------------------------
# B110 try_except_pass / B112 try_except_continue

HANDLER_TYPES = ["", " Exception", " Exception as zz_e", " ValueError", " BaseException", " builtins.Exception",
                 " zz_m.Exception", " (Exception,)", " (ValueError, TypeError) as zz_e", " (Exception)",
                 " zz_f()", " zz_o.errs[0]", " exception", " Exception_", " ()", " é_err"]
HANDLER_BODIES = [["pass"], ["continue"], ["..."], ["'doc'"], ["pass", "pass"], ["pass", "continue"],
                  ["continue", "pass"], ["zz_x = 1"], ["break"], ["return"], ["raise"], ["if zz_c:", "    pass"],
                  ["pass  # why"], ["zz_log(zz_e)"], ["pass; pass"], ["None"], ["del zz_v"],
                  ["try:", "    zz_h()", "except:", "    pass"],
                  ["for zz_j in zz_l:", "    continue"], ["with zz_o:", "    pass"], ["global zz_gl"],
                  ["continue  # nosec"], ["pass  # nosec B110"], ["pass  # nosec B112"]]
WRAPPERS = ["module", "for", "while", "func_for", "async_func", "method", "with", "nested_try", "for_else"]


def indent(lines, n):
    return [(" " * n) + ln for ln in lines]


def wrap(kind, lines):
    if kind == "module":
        return lines
    if kind == "for":
        return ["for zz_i in zz_l:"] + indent(lines, 4)
    if kind == "while":
        return ["while zz_c:"] + indent(lines, 4) + ["    zz_n += 1"]
    if kind == "func_for":
        return ["def zz_g(zz_l):"] + indent(["for zz_i in zz_l:"] + indent(lines, 4), 4) + ["    return 1"]
    if kind == "async_func":
        return ["async def zz_co():"] + indent(["async for zz_i in zz_l:"] + indent(lines, 4), 4)
    if kind == "method":
        return ["class ZzC:", "    def m(self):", "        while True:"] + indent(lines, 12)
    if kind == "with":
        return ["for zz_i in zz_l:", "    with zz_o as zz_w:"] + indent(lines, 8)
    if kind == "nested_try":
        return ["for zz_i in zz_l:", "    try:"] + indent(lines, 8) + ["    finally:", "        zz_done()"]
    if kind == "for_else":
        return ["for zz_i in zz_l:", "    zz_h()", "else:"] + indent(lines, 4)
    raise ValueError(kind)


def try_stmt(handlers, orelse=None, final=None, star=False, try_body=None):
    lines = ["try:"] + indent(try_body or ["zz_h()"], 4)
    for ty, body in handlers:
        lines.append("except%s%s:" % ("*" if star else "", ty))
        lines += indent(body, 4)
    if orelse is not None:
        lines += ["else:"] + indent(orelse, 4)
    if final is not None:
        lines += ["finally:"] + indent(final, 4)
    return lines


def try_configs():
    out = [None]
    for key in ("try_except_pass", "try_except_continue"):
        for v in [True, False, None, 0, 1, "yes", "", [], [0], {}, {"a": 1}]:
            out.append({key: {"check_typed_exception": v}})
        out += [{key: {}}, {key: None}, {key: "x"}, {key: ["check_typed_exception"]}, {key: 5}, {key: True},
                {key: {"Check_typed_exception": True}}, {key: {"check_typed_exception": True, "zz": 1}}]
    out.append({"try_except_pass": {"check_typed_exception": True},
                "try_except_continue": {"check_typed_exception": False}})
    out.append({"try_except_pass": {"check_typed_exception": False},
                "try_except_continue": {"check_typed_exception": True}})
    out.append({"try_except_pass": {"check_typed_exception": True},
                "try_except_continue": {"check_typed_exception": True}})
    return out


def gen_try(acc, tier):
    cfgs = try_configs()
    main_cfgs = [None, cfgs[-1], cfgs[-2], cfgs[-3], {"try_except_pass": {}}, {"try_except_continue": {}}]
    # handler type x body x wrapper, under the main configs
    for ty in HANDLER_TYPES:
        for body in HANDLER_BODIES:
            for w in WRAPPERS:
                src = "\n".join(wrap(w, try_stmt([(ty, body)]))) + "\n"
                for cfg in (main_cfgs if w in ("for", "func_for") else main_cfgs[:1]):
                    acc.add("try/matrix/%s" % w, src, config=cfg)
    # every config shape on a small set of handlers
    small = [("", ["pass"]), ("", ["continue"]), (" Exception", ["pass"]), (" ValueError", ["pass"]),
             (" ValueError", ["continue"]), (" zz_m.Exception", ["pass"]), (" (Exception,)", ["continue"]),
             ("", ["pass", "pass"]), (" ValueError", ["zz_x = 1"]), ("", ["..."])]
    for cfg in cfgs:
        for ty, body in small:
            acc.add("try/config", "\n".join(wrap("for", try_stmt([(ty, body)]))) + "\n", config=cfg)
    # except* handlers
    for ty in HANDLER_TYPES[1:]:
        for body in HANDLER_BODIES[:8]:
            for cfg in main_cfgs[:3]:
                acc.add("try/star", "\n".join(wrap("for", try_stmt([(ty, body)], star=True))) + "\n", config=cfg)
    # several handlers, else / finally bodies
    multi = [
        try_stmt([(" ValueError", ["pass"]), (" Exception", ["pass"]), ("", ["pass"])]),
        try_stmt([(" ValueError", ["continue"]), (" Exception", ["continue"]), ("", ["continue"])]),
        try_stmt([(" KeyError", ["zz_log()"]), ("", ["pass"])], orelse=["pass"], final=["pass"]),
        try_stmt([(" KeyError", ["zz_log()"])], orelse=["pass"]),
        try_stmt([(" KeyError", ["zz_log()"])], orelse=["continue"], final=["pass"]),
        try_stmt([], final=["pass"]),
        try_stmt([("", ["pass"])], try_body=["pass"]),
        try_stmt([("", ["continue"])], try_body=["continue"], orelse=["continue"]),
        try_stmt([(" Exception", ["pass"])], try_body=try_stmt([(" Exception", ["continue"])])),
        try_stmt([(" Exception", try_stmt([("", ["pass"])], try_body=["pass"]))]),
        try_stmt([(" Exception", ["pass"])], final=try_stmt([("", ["continue"])])),
        ["try: zz_h()", "except: pass"],
        ["try: zz_h()", "except Exception: continue"],
        ["try: zz_h()", "except ValueError: pass", "except: continue"],
        try_stmt([("", ["pass"])]) + ["zz_after()"],
        try_stmt([("", ["pass", ""])]) + ["", "", "zz_after()"],
        try_stmt([("", ["# only a comment", "pass"])]),
        try_stmt([("", ["pass"]), ]) + ["# nosec"],
        ["try:", "    zz_h()", "except:  # nosec", "    pass"],
        ["try:", "    zz_h()", "except:  # nosec B110", "    pass"],
        ["try:", "    zz_h()", "except:  # nosec B112", "    continue"],
        ["try:", "    zz_h()", "except:", "    pass  # nosec"],
        ["try:", "    zz_h()", "except Exception:  # nosec B110, B112", "    continue"],
    ]
    for lines in multi:
        for w in WRAPPERS:
            for cfg in main_cfgs[:4]:
                acc.add("try/multi", "\n".join(wrap(w, lines)) + "\n", config=cfg)


# ------------------------------------------------------------------------------------------------
# cross-plugin programs: every keyed name in one file, and names of one plugin under imports of another

def gen_cross(acc):
    imports = ["import yaml", "import torch", "import tarfile", "import flask", "import logging.config",
               "import paramiko", "from yaml import load", "from torch import load", "import builtins",
               "from flask import *", "import paramiko.client"]
    calls = ["yaml.load(zz_x)", "torch.load(zz_x)", "zz_t.extractall()", "zz_app.run(debug=True)",
             "logging.config.listen(1)", "zz_c.exec_command(zz_x)", "exec(zz_x)", "load(zz_x)",
             "yaml.torch.load(zz_x)", "torch.yaml.load(zz_x, weights_only=True)",
             "torch.yaml.load(zz_x, Loader=SafeLoader)", "zz_t.extractall(debug=True, verify=1)",
             "zz_o.exec_command.run(debug=True)", "zz_o.run.exec_command(debug=True)"]
    for r in range(0, 4):
        for imps in itertools.combinations(imports, r):
            if r == 3 and (hash_str("".join(imps)) % 4):
                continue
            body = list(imps) + calls + ["assert zz_x", "for zz_i in zz_l:", "    try:", "        zz_h()",
                                         "    except:", "        continue", "    try:", "        zz_h()",
                                         "    except Exception:", "        pass"]
            acc.add("cross", "\n".join(body) + "\n")
    acc.add("cross", "\n".join(calls + imports + calls) + "\n")
    acc.add("cross", "\n")
    acc.add("cross", "")
    acc.add("cross", "# nothing\n")


def hash_str(s):
    h = 0
    for ch in s:
        h = (h * 131 + ord(ch)) % 1000003
    return h


# ------------------------------------------------------------------------------------------------

QUICK_PER_CATEGORY = 16
THOROUGH_CAP = 30000


def programs(rng, tier):
    acc = Acc()
    gen_yaml(acc)
    gen_torch(acc)
    gen_tarfile(acc)
    gen_flask(acc)
    gen_listen(acc)
    gen_paramiko(acc)
    gen_exec(acc)
    gen_assert(acc)
    gen_try(acc, tier)
    gen_cross(acc)
    # de-duplicate (same source + config)
    seen = set()
    items = []
    for cat, p in acc.items:
        key = (p["src"], repr(p["config"]))
        if key in seen:
            continue
        seen.add(key)
        items.append((cat, p))
    by_cat = {}
    for cat, p in items:
        by_cat.setdefault(cat, []).append(p)
    out = []
    if tier == "quick":
        for cat in sorted(by_cat):
            ps = by_cat[cat]
            k = min(len(ps), QUICK_PER_CATEGORY)
            out += [ps[i] for i in sorted(rng.sample(range(len(ps)), k))]
    else:
        total = len(items)
        if total <= THOROUGH_CAP:
            out = [p for _, p in items]
        else:
            # keep every category, sample the big ones proportionally
            for cat in sorted(by_cat):
                ps = by_cat[cat]
                k = max(min(len(ps), 40), (len(ps) * THOROUGH_CAP) // total)
                k = min(k, len(ps))
                out += [ps[i] for i in sorted(rng.sample(range(len(ps)), k))]
            out = out[:THOROUGH_CAP]
    return out
