"""Program generator for the "crypto" plugin family:
B324 hashlib, B505 weak_cryptographic_key, B502/B503/B504 insecure_ssl_tls, B501
request_with_no_cert_validation, B113 request_without_timeout, B507 ssh_no_host_key_verification,
B508/B509 snmp_security_check.

programs(rng, tier) -> list of dict(src=..., include=[test ids], config=dict|None)

Shapes deliberately NOT generated:
  * float-valued configuration values (the harness cannot render YAML floats into `jv`; `jv` has no float).
"""
from gen.programs import spellings

IDS = ["B324", "B505", "B502", "B503", "B504", "B501", "B113", "B507", "B508", "B509"]

# every literal kind (and a few non-literals) usable as an argument value
GENERIC_VALUES = [
    "'s'", "''", "b'x'", "b''", "0", "1", "-1", "7", "2.5", "0.0", "1.0", "1e999", "2j", "0j",
    "True", "False", "None", "...", "[]", "[1]", "()", "(1,)", "{1}", "{}", "{1: 2}", "{[1]}", "([1],)",
    "{(1, [2])}", "zz_name", "zz_o.attr", "zz_o.a.b", "zz_f()", "zz_f().attr", "f'x{zz_v}'", "f'plain'",
    "'%s' % zz_v", "'a' + 'b'", "'{}'.format(1)", "-zz_v", "not zz_v", "zz_d[0]", "lambda: 0",
    "zz_a if zz_b else zz_c", "[zz_i for zz_i in zz_l]", "*zz_star",
]
STAR_FORMS = ["*zz_a", "**zz_k", "*zz_a, **zz_k", "**'x'", "**{'x': 1}"]


def P(lines, config=None, include=None):
    return dict(src="\n".join(lines) + "\n", include=list(include or IDS), config=config)


SCALE = [1]      # calls per program are multiplied by this (thorough tier packs more calls per program)


def chunks(lst, n):
    n = n * SCALE[0]
    for i in range(0, len(lst), n):
        yield lst[i:i + n]


def layouts(callee, args):
    """single-line and multi-line renderings of callee(args...) (args: list of argument texts)"""
    one = "%s(%s)" % (callee, ", ".join(args))
    out = [one]
    if args:
        out.append("%s(\n    %s,\n)" % (callee, ",\n    ".join(args)))
    return out


def calls_programs(q, arglists, config=None, per=6, spell=None, multi=True, pre=()):
    """for each import spelling of q: programs holding `per` calls each"""
    out = []
    sp = spellings(q)
    if spell is not None:
        sp = [s for s in sp if s[0] in spell]
    for _, imports, callee in sp:
        stmts = []
        for k, args in enumerate(arglists):
            ls = layouts(callee, args)
            stmts.append(ls[0])
            if multi and len(ls) > 1 and k % 3 == 0:
                stmts.append("zz_r = " + ls[1])
        for ch in chunks(stmts, per):
            out.append(P(list(pre) + list(imports) + ch, config))
    # whatever the tier selects above: one program per name under the spellings where a same-named method / inner function
    # stands between the import and the calls
    if spell is not None and arglists:
        for name, imports, callee in spellings(q):
            if "same_name" in name or "fallback" in name or "if_else" in name:
                stmts = [layouts(callee, args)[0] for args in arglists[:per]]
                out.append(P(list(pre) + list(imports) + stmts, config))
    return out


# --------------------------------------------------------------------------------------------------
# B505
# --------------------------------------------------------------------------------------------------
DSA_IO = "cryptography.hazmat.primitives.asymmetric.dsa.generate_private_key"
RSA_IO = "cryptography.hazmat.primitives.asymmetric.rsa.generate_private_key"
EC_IO = "cryptography.hazmat.primitives.asymmetric.ec.generate_private_key"
PYC = ["Crypto.PublicKey.DSA.generate", "Crypto.PublicKey.RSA.generate",
       "Cryptodome.PublicKey.DSA.generate", "Cryptodome.PublicKey.RSA.generate"]

CURVES = {"SECT571K1": 571, "SECT571R1": 570, "SECP521R1": 521, "BrainpoolP512R1": 512, "SECT409K1": 409,
          "SECT409R1": 409, "BrainpoolP384R1": 384, "SECP384R1": 384, "SECT283K1": 283, "SECT283R1": 283,
          "BrainpoolP256R1": 256, "SECP256K1": 256, "SECP256R1": 256, "SECT233K1": 233, "SECT233R1": 233,
          "SECP224R1": 224, "SECP192R1": 192, "SECT163K1": 163, "SECT163R2": 163}

DEFAULT_KEY_CFG = {"weak_key_size_dsa_high": 1024, "weak_key_size_dsa_medium": 2048,
                   "weak_key_size_rsa_high": 1024, "weak_key_size_rsa_medium": 2048,
                   "weak_key_size_ec_high": 160, "weak_key_size_ec_medium": 224}


def keycfg(**kw):
    d = dict(DEFAULT_KEY_CFG)
    for k, v in kw.items():
        d["weak_key_size_" + k] = v
    return {"weak_cryptographic_key": d}


def around(ts):
    s = []
    for t in ts:
        s += [t - 1, t, t + 1]
    return sorted(set(s))


def key_values(thresholds):
    ints = around(thresholds) + [0, 1, -1, -2048, 2 ** 70, 4096, 100000]
    vals = [str(i) for i in sorted(set(ints))]
    vals += ["%d.0" % thresholds[0], "%d.5" % (thresholds[0] - 1), "%d.0" % thresholds[-1],
             "%d.25" % (thresholds[-1] - 1), "1e3", "1e999", "0.0", "1e-5", "2.048e3", "1.5e300",
             "'1024'", "''", "'x'", "b'1024'", "b''", "2j", "0j", "True", "False", "None", "...",
             "[]", "[1024]", "()", "(1,)", "{1}", "{}", "{1: 2}", "{[1]}", "zz_size", "zz_o.size", "zz_f()",
             "f'{zz_v}'", "1000 + 24", "-1024", "'%d' % 5", "'10'.format()", "0x400", "0o2000", "1_024",
             "1023.9999999999999", "1023.99999999999999999", "1024.0000000000002", "2047.9999999999998", "5e-324",
             "1e22", "1e23", "123456789012345678.0", ".5", "1_0.2_5e0_1", "[4]", "['a']", "[[1]]"]
    return vals


def key_arglists(kw, pos, values, rng, full):
    """placements of the deciding argument: keyword, positional, both (keyword falsy -> positional), neither"""
    pad = ["zz_p%d" % i for i in range(pos)]
    out = [[], list(pad), ["%s=0" % kw], pad + ["512"], pad + ["512", "%s=0" % kw], pad + ["512", "%s=4096" % kw],
           pad + ["0"], pad + ["0", "%s=0" % kw], pad + ["0", "%s=[]" % kw], pad + ["[]", "%s=''" % kw],
           pad + ["None", "%s=None" % kw], pad + ["512", "%s=zz_f()" % kw], pad + ["512", "%s=zz_n" % kw],
           pad + ["1536", "%s=None" % kw], pad + ["zz_q", "%s=0.0" % kw]]
    if pos:
        out += [["512"], ["512", "%s=0" % kw], ["%s=512" % kw, "public_exponent=3"],
                ["public_exponent=65537", "%s=2048" % kw], ["backend=zz_b", "%s=1024" % kw]]
    for v in values:
        out.append(["%s=%s" % (kw, v)])
        out.append(pad + [v])
        if full or rng.random() < 0.25:
            out.append(pad + [v, "%s=0" % kw])
            out.append(pad + ["512", "%s=%s" % (kw, v)])
            out.append(pad + [v, "zz_extra", "backend=zz_b"])
    for s in STAR_FORMS:
        out.append([s])
        out.append(pad + ["512", s])
        out.append(["%s=512" % kw, s] if not s.startswith("*zz_a") else [s, "%s=512" % kw])
    out += [["**{'%s': 512}" % kw], ["*[512]"], ["*zz_a", "512"]]
    return out


def curve_arglists(rng, full):
    out = [[], ["backend=zz_b"], ["curve=None"], ["curve=0"]]
    names = list(CURVES) + ["SECP128R1", "secp192r1", "SECP192R1x", "X25519", ""]
    for c in names:
        forms = ["zz_ec.%s" % c, "zz_ec.%s()" % c, c, "%r" % c, "zz_a.b.%s" % c] if c else ["''"]
        for f in forms:
            if not f:
                continue
            out.append([f])
            out.append(["curve=%s" % f])
            if full or rng.random() < 0.3:
                out.append([f, "zz_backend"])
                out.append(["zz_other", "curve=%s" % f])
                out.append(["zz_ec.SECP192R1", "curve=%s" % f])
                out.append([f, "curve=None"])
                out.append([f, "curve=''"])
    for v in GENERIC_VALUES:
        out.append([v])
        out.append(["curve=%s" % v] if not v.startswith("*") else ["curve=1", v])
        out.append(["zz_ec.SECT163K1", "curve=%s" % v] if not v.startswith("*") else [v, "curve=zz_ec.SECT163K1"])
    for s in STAR_FORMS:
        out.append([s])
        out.append(["zz_ec.SECP192R1", s])
    out += [["**{'curve': 1}"], ["curve=zz_ec.SECP192R1", "**zz_k"], ["{[1]}", "curve=zz_ec.SECP192R1"],
            ["zz_ec.SECP192R1", "zz_k={[1]}"], ["curve=zz_ec.SECP192R1", "zz_k={[1]}"]]
    return out


BAD_KEY_CONFIGS = [
    {"weak_cryptographic_key": {}},
    {"weak_cryptographic_key": {"weak_key_size_dsa_high": 1024}},
    {"weak_cryptographic_key": dict((k, v) for k, v in DEFAULT_KEY_CFG.items() if k != "weak_key_size_ec_medium")},
    {"weak_cryptographic_key": [1024, 2048]},
    {"weak_cryptographic_key": "1024"},
    {"weak_cryptographic_key": 0},
    {"weak_cryptographic_key": 7},
    {"weak_cryptographic_key": False},
    {"weak_cryptographic_key": None},
    keycfg(dsa_high="1024", rsa_high="1024", ec_high="160"),
    keycfg(dsa_medium=None, rsa_medium=None, ec_medium=None),
    keycfg(dsa_high=True, dsa_medium=False, rsa_high=False, rsa_medium=True),
    keycfg(dsa_high=[1], rsa_medium={"a": 1}, ec_high=[]),
    {"weak_cryptographic_key": dict(DEFAULT_KEY_CFG, extra=1)},
    {"other_option": {"x": 1}},
]
LIST_KEY_CONFIG = keycfg(dsa_high=[5], dsa_medium=[1, "b"], rsa_high=["a"], rsa_medium=[[2]], ec_high=[], ec_medium=[None])
LIST_KEY_VALUES = ["[4]", "[5]", "[6]", "[5, 1]", "[4, zz_f()]", "[1, 'a']", "[1, 'b']", "[1, 'c']", "[1]", "[2]", "[0, {}]",
                   "['a']", "['']", "['b']", "['A']", "['a', 1]", "[[1]]", "[[2]]", "[[3]]", "[[2, 0]]", "[[]]", "[None]", "[...]",
                   "[(1,)]", "[5.0]", "[4.5]", "[5.5]", "[1.0, 'a']", "[True]", "[]", "[b'a']", "[{}]", "[1, ['b']]", "[2j]", "[1, 2]",
                   "7", "'s'", "(4,)", "{4}", "1.5"]
HUGE_KEY_CONFIG = keycfg(dsa_high=10 ** 23 - 1, dsa_medium=10 ** 23, rsa_high=2 ** 53 + 1, rsa_medium=2 ** 53 + 2,
                         ec_high=2 ** 53, ec_medium=2 ** 53 + 1)
HUGE_KEY_VALUES = ["1e23", "1e+23", "99999999999999991611392", "99999999999999991611393", "9007199254740993.0", "9007199254740992.0",
                   "9007199254740994.0", "9007199254740993", "9007199254740992", "1e22", "9.999999999999999e22", "1.0000000000000001e23",
                   "1e999", "2e308", "1.7976931348623157e308"]
USER_KEY_CONFIGS = [
    (keycfg(dsa_high=100, dsa_medium=200, rsa_high=300, rsa_medium=400, ec_high=250, ec_medium=500), [100, 200, 300, 400]),
    (keycfg(dsa_high=2048, dsa_medium=1024, rsa_high=4096, rsa_medium=512, ec_high=500, ec_medium=200), [512, 1024, 2048, 4096]),
    (keycfg(dsa_high=0, dsa_medium=0, rsa_high=-5, rsa_medium=3, ec_high=0, ec_medium=1000), [-5, 0, 3]),
    (keycfg(dsa_high=3000, dsa_medium=3000, rsa_high=2 ** 64, rsa_medium=2 ** 65, ec_high=571, ec_medium=572), [3000, 2 ** 64, 2 ** 65]),
]
# the same settings written in another order in the file (medium before high, ec first): the order of keys in a mapping says nothing
USER_KEY_CONFIGS += [({"weak_cryptographic_key": dict(reversed(list(c_["weak_cryptographic_key"].items())))}, t_) for c_, t_ in USER_KEY_CONFIGS[:2]]
USER_KEY_CONFIGS.append(({"weak_cryptographic_key": dict(sorted(DEFAULT_KEY_CFG.items(), key=lambda kv: (kv[0].split("_")[-1] != "medium", kv[0])))}, [1024, 2048]))


def gen_b505(rng, full):
    out = []
    defaults = [1024, 2048]
    for q, kw, pos in [(DSA_IO, "key_size", 0), (RSA_IO, "key_size", 1)] + [(p, "bits", 0) for p in PYC]:
        al = key_arglists(kw, pos, key_values(defaults), rng, full)
        out += calls_programs(q, al)
        # user-configured thresholds, values around each of them
        for cfg, ts in USER_KEY_CONFIGS:
            vals = [str(v) for v in around(ts) + [0, 1, 2047, 2048]] + ["%d.0" % ts[0], "%d.5" % ts[0], "'s'", "[1]", "None"]
            al2 = [["%s=%s" % (kw, v)] for v in vals] + [["zz_p"] * pos + [v] for v in vals]
            out += calls_programs(q, al2, config=cfg, spell=None if full else ("import_m", "from_m_import_f_as"),
                                  multi=False)
        for cfg, vals in [(LIST_KEY_CONFIG, LIST_KEY_VALUES), (HUGE_KEY_CONFIG, HUGE_KEY_VALUES)]:
            al2 = [["%s=%s" % (kw, v)] for v in vals] + [["zz_p"] * pos + [v] for v in vals]
            out += calls_programs(q, al2, config=cfg, spell=None if full else ("import_m", "from_m_import_f_as"), multi=False)
        vals = ["512", "1024", "4096", "0", "'s'", "zz_n", "[1]", "None", "1024.0", "True"]
        al3 = [["%s=%s" % (kw, v)] for v in vals] + [["zz_p"] * pos + ["512"], []]
        for cfg in BAD_KEY_CONFIGS:
            out += calls_programs(q, al3, config=cfg, spell=("import_m", "from_m_import_f"), multi=False, per=13)
    # EC
    ecpre = ["from cryptography.hazmat.primitives.asymmetric import ec as zz_ec"]
    al = curve_arglists(rng, full)
    out += calls_programs(EC_IO, al, pre=ecpre)
    ec_cfgs = [keycfg(ec_high=c, ec_medium=c + 1) for c in sorted(set(CURVES.values()))]
    ec_cfgs += [{"weak_cryptographic_key": dict(reversed(list(keycfg(ec_high=200, ec_medium=300)["weak_cryptographic_key"].items())))}]
    ec_cfgs += [keycfg(ec_high=225, ec_medium=225), keycfg(ec_high=224, ec_medium=225), keycfg(ec_high=600, ec_medium=100),
                keycfg(ec_high=0, ec_medium=0)]
    al_all = [["zz_ec.%s" % c] for c in CURVES] + [["curve=zz_ec.%s" % c] for c in CURVES] + [[], ["zz_unknown"], ["zz_ec.X()"]]
    for cfg in ec_cfgs:
        out += calls_programs(EC_IO, al_all, config=cfg, spell=None if full else ("from_p_import_m",), multi=False,
                              per=14, pre=ecpre)
    for cfg in BAD_KEY_CONFIGS:
        out += calls_programs(EC_IO, [["zz_ec.SECP192R1"], ["curve='SECT163K1'"], [], ["[1]"]], config=cfg,
                              spell=("import_m", "from_m_import_f"), multi=False, pre=ecpre)
    # near misses and unrelated calls
    near = ["cryptography.hazmat.primitives.asymmetric.dsa.generate_private_keys",
            "cryptography.hazmat.primitives.asymmetric.dh.generate_private_key",
            "cryptography.hazmat.primitives.asymmetric.ed25519.generate_private_key",
            "cryptography.hazmat.primitives.asymmetric.rsa.generate", "Crypto.PublicKey.ECC.generate",
            "Crypto.PublicKey.DSA.generates", "Crypto.PublicKey.RSA.construct", "Cryptodome.PublicKey.ElGamal.generate",
            "crypto.PublicKey.RSA.generate", "zz.Crypto.PublicKey.RSA.generate", "Crypto.PublicKey.RSA.generate.zz"]
    for q in near:
        out += calls_programs(q, [["512"], ["key_size=512"], ["bits=512"], ["{[1]}"], []], multi=False)
    out.append(P(["from Crypto.PublicKey import RSA", "RSA.generate(512)(bits=512)", "zz_f()(bits=512)",
                  "zz_x[0](512)", "(lambda: 0)(bits=512)", "RSA.generate(bits=512).generate(bits=512)"]))
    out.append(P(["import Crypto.PublicKey.RSA", "import Crypto.PublicKey.RSA as RSA", "RSA.generate(512)",
                  "Crypto.PublicKey.RSA.generate(512)", "from Crypto.PublicKey.RSA import *", "generate(512)"]))
    out.append(P(["from Crypto.PublicKey import RSA as DSA", "DSA.generate(1500)", "from Crypto.PublicKey import DSA",
                  "DSA.generate(1500)", "RSA = DSA", "RSA.generate(1500)"]))
    return out


# --------------------------------------------------------------------------------------------------
# B324
# --------------------------------------------------------------------------------------------------
WEAK = ["md4", "md5", "sha", "sha1"]
STRONG = ["sha224", "sha256", "sha384", "sha512", "sha3_256", "blake2b", "blake2s", "shake_128", "sha512_256", "sm3",
          "ripemd160", "whirlpool", "md5_sha1", "md6", "sha0", "sha11", "md", "MD5", "Sha1"]
UFS = [None, "usedforsecurity=True", "usedforsecurity=False", "usedforsecurity='True'", "usedforsecurity='False'",
       "usedforsecurity=None", "usedforsecurity=0", "usedforsecurity=1", "usedforsecurity=zz_flag",
       "usedforsecurity=zz_o.True_", "usedforsecurity=zz_f()", "usedforsecurity=not True", "usedforsecurity=b'True'",
       "usedforsecurity=['True']", "usedforsecurity={[1]}", "usedforsecurity=...", "usedforsecurity=''",
       "usedforsecurity=1.0", "**{'usedforsecurity': False}", "**zz_k", "UsedForSecurity=False",
       "usedforsecurity=True_", "usedforsecurity=True.real"]


def hash_name_forms():
    names = []
    for h in WEAK:
        names += [h, h.upper(), h.capitalize(), h[:-1] + h[-1].upper(), " " + h, h + " ", h + "\\n", h + "-" + h]
    names += STRONG[:14]
    names += ["", "new", "hashlib", "\\uff2d\\uff24\\uff15", "\\u017fha1", "md5\\u0130", "\\u212ad5", "mD\\u2464", "SHA\\u00b9"]
    out = ["'%s'" % n for n in names]
    out += ["b'md5'", "5", "0", "None", "True", "md5", "zz_h.md5", "zz_h.sha1()", "zz_name", "zz_o.sha256", "['md5']",
            "('md5',)", "{'md5'}", "{[1]}", "f'md5'", "f'{zz_v}'", "'md' + '5'", "'%s' % 'md5'", "'md5'.lower()",
            "...", "1.5", "2j", "{}", "*zz_a", "*['md5']", "lambda: 'md5'"]
    return out


def gen_b324(rng, full):
    out = []
    heads = [(["import hashlib"], "hashlib.%s"), (["import hashlib as zz_h"], "zz_h.%s"),
             (["from hashlib import %s"], "%s"), (["from hashlib import %s as zz_g"], "zz_g"),
             ([], "hashlib.%s"), ([], "zz_self.hashlib.%s"), ([], "hashlib.zz_sub.%s"),
             (["import zz_pkg.hashlib"], "zz_pkg.hashlib.%s"), (["from zz_pkg import hashlib"], "hashlib.%s"),
             (["import hashlib.zz_sub as zz_s"], "zz_s.%s"), (["from zz_pkg import hashlib as zz_hh"], "zz_hh.%s"),
             (["import zz_other as hashlib"], "hashlib.%s"), (["import hashlib as zz_q"], "zz_q.zz_x.%s")]
    nears = [([], "myhashlib.%s"), ([], "hashlib_.%s"), ([], "Hashlib.%s"), ([], "hashlibs.%s"), ([], "%s"),
             (["import hashlib as zz_h"], "zz_h().%s"), (["import hashlib"], "hashlib.%s.zz_more"),
             (["import hashlib"], "hashlib.%s()"), (["import hashlib"], "zz_f(hashlib).%s"),
             (["import hashlib"], "hashlib['x'].%s"), (["from zz_hashlib import %s"], "%s"),
             (["import zz_lib as zz_l"], "zz_l.hashlib_%s"), (["from hashlib import *"], "%s")]
    funcs = WEAK + ["sha256", "sha512", "blake2b", "sha3_512", "md6", "MD5", "Sha1", "md5_", "pbkdf2_hmac", "file_digest"]
    for hi, (imp, pat) in enumerate(heads + nears):
        for fn in funcs:
            if not full and hi >= 4 and fn not in ("md5", "sha1", "sha256", "MD5"):
                continue
            callee = pat % fn if "%s" in pat else pat
            imports = [i % fn if "%s" in i else i for i in imp]
            stmts = []
            for u in UFS:
                args = ["b'data'"] + ([u] if u else [])
                stmts.append("%s(%s)" % (callee, ", ".join(args)))
            stmts += ["%s()" % callee, "%s(\n    zz_data,\n    usedforsecurity=False,\n)" % callee,
                      "zz_r = %s(\n    zz_data,\n    usedforsecurity=True,\n).hexdigest()" % callee,
                      "%s(zz_data, {[1]})" % callee, "%s(*zz_a, **zz_k)" % callee, "%s(**'x')" % callee,
                      "%s(zz_data, usedforsecurity=False, **zz_k)" % callee]
            if not full and hi >= 4:
                stmts = stmts[:8] + stmts[-7:]
            for ch in chunks(stmts, 8):
                out.append(P(imports + ch))
    # hashlib.new
    names = hash_name_forms()
    newheads = heads[:6] + [(["import hashlib"], "hashlib.zz_x.%s")] + (heads[6:] if full else [])
    for hi, (imp, pat) in enumerate(newheads + nears[:6]):
        callee = pat % "new" if "%s" in pat else pat
        imports = [i % "new" if "%s" in i else i for i in imp]
        stmts = []
        for k, n in enumerate(names):
            star = n.startswith("*")
            stmts.append("%s(%s)" % (callee, n))
            if not star:
                stmts.append("%s(name=%s)" % (callee, n))
            if full or hi < 2 or k % 5 == 0:
                stmts.append("%s(%s, b'data')" % (callee, n))
                stmts.append("%s(%s, usedforsecurity=False)" % (callee, n))
                if not star:
                    stmts.append("%s(name=%s, usedforsecurity=False)" % (callee, n))
                    stmts.append("%s(data=b'', name=%s)" % (callee, n))
                    stmts.append("%s('sha256', name=%s)" % (callee, n))
                    stmts.append("%s(%s, name='sha256')" % (callee, n))
                    stmts.append("%s(string=%s)" % (callee, n))
                    stmts.append("%s(\n    name=%s,\n    usedforsecurity=True,\n)" % (callee, n))
        for u in UFS:
            if u:
                stmts.append("%s('md5', %s)" % (callee, u))
                stmts.append("%s(name='SHA1', %s)" % (callee, u))
                stmts.append("%s('sha256', %s)" % (callee, u))
        stmts += ["%s()" % callee, "%s(**zz_k)" % callee, "%s(**{'name': 'md5'})" % callee, "%s(**'x')" % callee,
                  "%s('md5', zz_k={[1]})" % callee, "%s('sha256', {[1]})" % callee, "%s(name={[1]})" % callee,
                  "%s(zz_k={[1]})" % callee]
        for ch in chunks(stmts, 8):
            out.append(P(imports + ch))
    # crypt
    cheads = [(["import crypt"], "crypt.%s"), (["import crypt as zz_c"], "zz_c.%s"), (["from crypt import %s"], "%s"),
              (["from crypt import %s as zz_g"], "zz_g"), ([], "zz_self.crypt.%s"), (["from zz_pkg import crypt"], "crypt.%s"),
              ([], "mycrypt.%s"), ([], "crypt_.%s"), ([], "%s"), (["import crypt"], "crypt.zz_x.%s"),
              (["import hashlib, crypt"], "hashlib.crypt.%s"), (["import crypt"], "crypt.hashlib.%s")]
    methods = ["METHOD_CRYPT", "METHOD_MD5", "METHOD_BLOWFISH", "METHOD_SHA256", "METHOD_SHA512", "method_md5",
               "METHOD_MD5x", "METHOD_"]
    vals = []
    for m in methods:
        vals += ["crypt.%s" % m, m, "'%s'" % m, "zz_o.a.%s" % m, "crypt.%s()" % m]
    vals += ["b'METHOD_MD5'", "None", "5", "['METHOD_MD5']", "{[1]}", "zz_f()", "f'METHOD_MD5'", "...", "*zz_a", "''"]
    for imp, pat in cheads:
        for fn in ["crypt", "mksalt", "methods", "Crypt", "crypt_r"]:
            callee = pat % fn if "%s" in pat else pat
            imports = [i % fn if "%s" in i else i for i in imp]
            stmts = ["%s()" % callee, "%s('pw')" % callee, "%s(**zz_k)" % callee, "%s(zz_k={[1]})" % callee,
                     "%s(**'x')" % callee]
            for k, v in enumerate(vals):
                star = v.startswith("*")
                stmts.append("%s('pw', %s)" % (callee, v))
                stmts.append("%s(%s)" % (callee, v))
                if not star:
                    stmts.append("%s('pw', salt=%s)" % (callee, v))
                    stmts.append("%s(method=%s)" % (callee, v))
                    if full or k % 4 == 0:
                        stmts.append("%s(word='pw', salt=%s)" % (callee, v))
                        stmts.append("%s(%s, method='METHOD_SHA512')" % (callee, v))
                        stmts.append("%s('pw', 'x', salt=%s)" % (callee, v))
                        stmts.append("%s(\n    'pw',\n    salt=%s,\n    method=%s,\n)" % (callee, v, v))
            if not full and fn not in ("crypt", "mksalt"):
                stmts = stmts[:12]
            for ch in chunks(stmts, 8):
                out.append(P(imports + ch))
    return out


# --------------------------------------------------------------------------------------------------
# B502 / B503 / B504
# --------------------------------------------------------------------------------------------------
BAD_PROTOS = ["PROTOCOL_SSLv2", "SSLv2_METHOD", "SSLv23_METHOD", "PROTOCOL_SSLv3", "PROTOCOL_TLSv1", "SSLv3_METHOD",
              "TLSv1_METHOD", "PROTOCOL_TLSv1_1", "TLSv1_1_METHOD"]
SAFE_PROTOS = ["PROTOCOL_TLSv1_2", "PROTOCOL_TLS", "PROTOCOL_TLS_CLIENT", "PROTOCOL_SSLv23", "TLSv1_2_METHOD", "TLS_METHOD",
               "PROTOCOL_TLSv1_", "protocol_sslv2", "PROTOCOL_SSLv2x", "xPROTOCOL_SSLv2", "SSLv2"]


def sslcfg(v):
    return {"ssl_with_bad_version": {"bad_protocol_versions": v}}


SSL_CONFIGS = [
    sslcfg(["PROTOCOL_TLSv1_2"]), sslcfg([]), sslcfg(["zz_name", "SSLv2"]), sslcfg("PROTOCOL_SSLv3"), sslcfg("SSL"),
    sslcfg(""), sslcfg(3), sslcfg(0), sslcfg(True), sslcfg(None), sslcfg({"PROTOCOL_SSLv3": 1}), sslcfg({}),
    sslcfg([2, 3, "PROTOCOL_TLSv1", None, True]), sslcfg([[1], [], ["PROTOCOL_SSLv2"], [[1]], [None]]),
    sslcfg([0]), sslcfg(["True", "None", "False", "1"]), sslcfg([{}]), sslcfg([{"a": 1}]),
    {"ssl_with_bad_version": {}}, {"ssl_with_bad_version": {"bad_protocol_version": ["PROTOCOL_SSLv2"]}},
    {"ssl_with_bad_version": ["PROTOCOL_SSLv2"]}, {"ssl_with_bad_version": "PROTOCOL_SSLv2"},
    {"ssl_with_bad_version": 0}, {"ssl_with_bad_version": None}, {"ssl_with_bad_defaults": {"bad_protocol_versions": []}},
    sslcfg(BAD_PROTOS + ["PROTOCOL_TLSv1_2"]),
]


def proto_forms(p):
    return ["ssl.%s" % p, "SSL.%s" % p, p, "'%s'" % p, "zz_a.b.%s" % p, "ssl.%s()" % p, "b'%s'" % p, "[%s]" % p,
            "['%s']" % p, "zz_f(ssl.%s)" % p, "ssl.%s | 1" % p]


def ssl_arglists(full, rng):
    out = [[], ["zz_sock"], ["zz_sock", "None", "None", "False", "ssl.CERT_NONE", "ssl.PROTOCOL_SSLv3"]]
    for p in BAD_PROTOS + SAFE_PROTOS:
        for k, f in enumerate(proto_forms(p)):
            if not full and k >= 4 and rng.random() < 0.6:
                continue
            out.append(["ssl_version=%s" % f])
            out.append(["method=%s" % f])
            out.append(["zz_sock", "ssl_version=%s" % f, "method=ssl.PROTOCOL_TLSv1_2"])
            out.append(["method=%s" % f, "ssl_version=zz_unknown()"])
            if full or k < 2:
                out.append(["ssl_version=ssl.PROTOCOL_TLSv1_2", "method=%s" % f])
                out.append(["zz_sock", "protocol=%s" % f])
                out.append([f])
                out.append(["version=%s" % f, "SSL_VERSION=%s" % f])
    for v in GENERIC_VALUES:
        if v.startswith("*"):
            out.append([v, "ssl_version=ssl.PROTOCOL_SSLv2"])
            continue
        out.append(["ssl_version=%s" % v])
        out.append(["method=%s" % v])
        out.append(["method=%s" % v, "ssl_version=ssl.PROTOCOL_SSLv3"])
        out.append(["ssl_version=%s" % v, "method=SSL.SSLv2_METHOD"])
    for s in STAR_FORMS:
        out.append([s])
        out.append(["ssl_version=ssl.PROTOCOL_SSLv2", s] if not s.startswith("*zz_a") else [s, "ssl_version=ssl.PROTOCOL_SSLv2"])
    out += [["**{'ssl_version': ssl.PROTOCOL_SSLv2}"], ["zz_k={[1]}", "ssl_version=ssl.PROTOCOL_SSLv2"],
            ["ssl_version=ssl.PROTOCOL_SSLv2", "zz_k={[1]}"], ["method={[1]}"]]
    return out


def gen_ssl(rng, full):
    out = []
    pre = ["import ssl", "from OpenSSL import SSL"]
    al = ssl_arglists(full, rng)
    targets = [("ssl.wrap_socket", None), ("pyOpenSSL.SSL.Context", None),
               ("OpenSSL.SSL.Context", ("import_m", "from_p_import_m")), ("ssl.SSLContext", ("import_m", "from_m_import_f")),
               ("zz_mod.zz_func", ("import_m",)), ("ssl.wrap_sockets", ("import_m",)), ("zz.ssl.wrap_socket", ("import_m",)),
               ("pyOpenSSL.SSL.Contexts", ("import_m",)), ("ssl.wrap_socket.zz", ("import_m",)),
               ("ssl.create_default_context", ("import_m",)), ("ssl.SSLContext.wrap_socket", ("import_m",))]
    for q, sp in targets:
        out += calls_programs(q, al, spell=sp, pre=pre, per=7)
    # any number of positional arguments short of the sixth (which is ssl_version itself) leaves the version unset
    out.append(P(pre + ["ssl.wrap_socket(zz_s)", "ssl.wrap_socket(zz_s, zz_k)", "ssl.wrap_socket(zz_s, zz_k, zz_c, True)",
                        "ssl.wrap_socket(zz_s, zz_k, zz_c, True, ssl.CERT_REQUIRED)", "ssl.wrap_socket(zz_s, zz_k, zz_c, True, ssl.CERT_REQUIRED, ca_certs=zz_ca)"]))
    out[-1]["keep"] = True
    out.append(P(pre + ["zz_ctx.wrap_socket(zz_s, ssl_version=ssl.PROTOCOL_SSLv2)", "wrap_socket(ssl_version=ssl.PROTOCOL_SSLv2)",
                        "zz_f()(ssl_version=ssl.PROTOCOL_SSLv2)", "zz_x[0](method=SSL.SSLv2_METHOD)",
                        "ssl.wrap_socket(ssl_version=ssl.PROTOCOL_SSLv2)(method=SSL.SSLv3_METHOD)",
                        "ssl.wrap_socket(zz_g(ssl_version=ssl.PROTOCOL_TLSv1), ssl_version=ssl.PROTOCOL_TLSv1_2)"]))
    small = [["ssl_version=ssl.%s" % p] for p in BAD_PROTOS + SAFE_PROTOS[:3]] + \
            [["method=SSL.%s" % p] for p in BAD_PROTOS + SAFE_PROTOS[:3]] + \
            [[], ["ssl_version='PROTOCOL_SSLv3'"], ["ssl_version=2"], ["ssl_version=3.0"], ["ssl_version=1"], ["method=True"],
             ["method=0"], ["method=0.0"], ["method=0j"], ["ssl_version=[1]"], ["ssl_version=[]"], ["ssl_version=[[1]]"],
             ["ssl_version=['PROTOCOL_SSLv2']"], ["ssl_version=[...]"], ["ssl_version=[None]"], ["ssl_version={}"],
             ["ssl_version={'a': 1}"], ["ssl_version=None"], ["ssl_version=True"], ["method=zz_name"], ["method=zz_o.SSLv2"],
             ["method=(1,)"], ["ssl_version=1.0"], ["ssl_version=2.0"], ["method=SSL.SSLv2_METHOD", "ssl_version=zz_f()"]]
    for cfg in SSL_CONFIGS:
        for q, sp in targets[:5]:
            out += calls_programs(q, small, config=cfg, spell=("import_m", "from_m_import_f_as") if full else ("import_m",),
                                  pre=pre, per=10, multi=full)
    # B503
    defaults = []
    for p in BAD_PROTOS + SAFE_PROTOS[:4]:
        defaults += ["ssl.%s" % p, "SSL.%s" % p, "zz_a.b.%s" % p, p, "'%s'" % p, "zz_f().%s" % p, "zz_s.%s" % p,
                     "zz_o.%s.zz_more" % p, "ssl.%s()" % p, "zz_x[0].%s" % p, "(ssl.%s, 1)" % p, "'x'.%s" % p]
    defaults += ["1", "None", "''", "zz_n", "zz_o.attr", "[]", "{[1]}", "lambda: ssl.PROTOCOL_SSLv2", "zz_o.PROTOCOL"]
    forms = ["def zz_f(a=%s):\n    pass", "def zz_f(a, b=1, c=%s, *args, d=2, **kw):\n    return a",
             "def zz_f(a=1, b=%s, c=ssl.PROTOCOL_TLSv1_2):\n    pass", "def zz_f(a=ssl.PROTOCOL_TLSv1_2, b=%s):\n    pass",
             "def zz_f(a, /, b=%s):\n    pass", "def zz_f(*, a=%s):\n    pass", "def zz_f(a=1, *, b=%s):\n    pass",
             "async def zz_f(a=%s):\n    pass", "zz_l = lambda a=%s: a", "class ZzC:\n    def m(self, v=%s):\n        pass",
             "def zz_f(\n    a,\n    b=%s,\n):\n    def inner(c=%s):\n        pass\n    return inner",
             "@zz_deco(%s)\ndef zz_f(a=2):\n    pass", "def zz_f(a: int = %s) -> None:\n    pass",
             "def zz_f(a=%s): return zz_g(a)  # nosec", "def zz_f(a=%s):  # nosec B503\n    pass",
             "def zz_f(a=%s):  # nosec B502\n    pass"]
    imps = [["import ssl", "from OpenSSL import SSL"], ["import ssl as zz_s", "from OpenSSL import SSL as zz_t"],
            ["from ssl import *"], []]
    for ii, imp in enumerate(imps):
        for fi, form in enumerate(forms):
            stmts = []
            for di, d in enumerate(defaults):
                if not full and (ii + fi + di) % 4 != 0 and not (ii == 0 and fi < 2):
                    continue
                stmts.append(form.replace("%s", d))
            for ch in chunks(stmts, 6):
                out.append(P(imp + ch))
    few = ["ssl.PROTOCOL_SSLv3", "zz_a.PROTOCOL_TLSv1_2", "zz_n", "1", "zz_o.SSL", "zz_o.a1"]
    for cfg in SSL_CONFIGS:
        stmts = [forms[0].replace("%s", d) for d in few] + ["def zz_g():\n    pass", "def zz_h(a, *b, c=ssl.PROTOCOL_SSLv3):\n    pass",
                                                             forms[2].replace("%s", "zz_o.PROTOCOL_SSLv2")]
        out.append(P(imps[0] + stmts, config=cfg))
    return out


# --------------------------------------------------------------------------------------------------
# B501 / B113
# --------------------------------------------------------------------------------------------------
VERBS = ["get", "options", "head", "post", "put", "patch", "delete"]
HTTPX = ["request", "stream", "Client", "AsyncClient"] + VERBS
REQ_VALUES = ["True", "False", "None", "0", "5", "5.0", "0.0", "-1", "(3, 5)", "(3, None)", "'False'", "'None'", "'True'", "''",
              "b'False'", "b'None'", "zz_name", "zz_o.attr", "zz_o.False_", "zz_o.None_", "zz_f()", "not True", "[]", "[False]",
              "[None]", "{}", "{[1]}", "...", "f'None'", "f'{zz_v}'", "'No' + 'ne'", "None or 5", "zz_t if zz_c else None",
              "'/path/ca.pem'", "2j", "lambda: None", "False_", "NONE", "none"]


def req_arglists(full, rng):
    out = [[], ["zz_url"], ["zz_url", "zz_data"], ["'GET'", "zz_url"]]
    for kw in ("verify", "timeout"):
        for v in REQ_VALUES:
            out.append(["zz_url", "%s=%s" % (kw, v)])
            if full or rng.random() < 0.3:
                out.append(["%s=%s" % (kw, v)])
                out.append(["zz_url", "data=zz_d", "%s=%s" % (kw, v), "headers={}"])
    for v in ["True", "False", "None", "5", "zz_n", "zz_f()"]:
        for w in ["True", "False", "None", "5", "zz_n", "zz_f()", "{[1]}"]:
            out.append(["zz_url", "verify=%s" % v, "timeout=%s" % w])
            if full:
                out.append(["zz_url", "timeout=%s" % w, "verify=%s" % v])
    for s in STAR_FORMS:
        out.append([s])
        out.append(["zz_url", s])
        out.append(["zz_url", "timeout=5", "verify=False", s] if not s.startswith("*zz_a") else ["zz_url", s, "timeout=5", "verify=False"])
    out += [["zz_url", "**{'verify': False}"], ["zz_url", "**{'timeout': None}"], ["zz_url", "False"], ["zz_url", "None"],
            ["zz_url", "Timeout=None"], ["zz_url", "VERIFY=False"], ["zz_url", "timeouts=None"], ["zz_url", "verify_=False"],
            ["{[1]}", "verify=False"], ["zz_url", "zz_k={[1]}", "timeout=None"], ["zz_url", "timeout=None", "zz_k={[1]}"]]
    return out


def gen_requests(rng, full):
    out = []
    al = req_arglists(full, rng)
    names = [("requests", v) for v in VERBS] + [("httpx", v) for v in HTTPX]
    for lib, v in names:
        q = "%s.%s" % (lib, v)
        sp = None if (full or v in ("get", "post", "Client", "stream")) else ("import_m", "from_m_import_f_as")
        out += calls_programs(q, al, spell=sp, per=7)
    small = [["zz_url"], ["zz_url", "verify=False"], ["zz_url", "timeout=None"], ["zz_url", "timeout=5", "verify=True"],
             ["zz_url", "timeout=zz_f()"], ["zz_url", "verify=False", "timeout=None"], ["zz_url", "timeout=5"]]
    others = ["requests.request", "requests.Session", "requests.session", "requests.api.get", "requests.sessions.Session.get",
              "requests.get.zz", "requests.Get", "requests.gets", "requests.GET", "requests.head_", "httpx.Request", "httpx.client",
              "httpx.AsyncClient.get", "httpx.Client.stream", "httpx.zz.post", "httpx.send", "httpx.Timeout", "requests2.get",
              "myrequests.get", "zz.requests.get", "zz.httpx.get", "Requests.get", "httpx_.get", "http.get", "aiohttp.get",
              "urllib3.request", "requests_toolbelt.get", "requests", "httpx", "get", "post"]
    for q in others:
        out += calls_programs(q, small, spell=None if full else ("import_m", "from_m_import_f", "import_top_as", "bare"), multi=False, per=8)
    out.append(P(["import requests, httpx", "zz_s = requests.Session()", "zz_s.get(zz_u)", "zz_s.get(zz_u, verify=False, timeout=None)",
                  "requests.Session().get(zz_u, verify=False)", "requests.get(zz_u, timeout=3).json(verify=False)",
                  "httpx.Client().get(zz_u, verify=False, timeout=None)", "requests.get(requests.get(zz_u), timeout=None)",
                  "with httpx.Client(verify=False) as zz_c:\n    zz_c.get(zz_u, timeout=None)",
                  "zz_f()(verify=False)", "zz_x[0](timeout=None)", "(requests.get)(zz_u)", "requests.get(zz_u)(zz_v)"]))
    out.append(P(["import requests as httpx", "httpx.get(zz_u)", "httpx.Client(timeout=None)", "import httpx as requests",
                  "requests.get(zz_u)", "requests.stream(verify=False)", "from requests import get as post, post as Client",
                  "post(zz_u)", "Client(zz_u, timeout=None)", "from httpx import get", "get(zz_u)", "get(zz_u, timeout=None)"]))
    out.append(P(["import requests", "requests.get(zz_u,\n    verify=False)", "requests.get(\n    zz_u,\n    timeout=None,\n    verify=False,\n)",
                  "zz_r = requests.post(zz_u, data={\n    'a': 1,\n},\n    verify=\n        False)",
                  "requests.get(zz_u, verify=False)  # nosec", "requests.get(zz_u, verify=False)  # nosec B501",
                  "requests.get(zz_u, verify=False)  # nosec B113", "requests.get(zz_u,  # nosec\n    verify=False)",
                  "requests.get(zz_u,\n    verify=False)  # nosec B501"]))
    return out


# --------------------------------------------------------------------------------------------------
# B507
# --------------------------------------------------------------------------------------------------
def gen_b507(rng, full):
    out = []
    imports = [["import paramiko"], ["from paramiko import client"], ["import paramiko.client as zz_pc"],
               ["from paramiko.client import SSHClient, AutoAddPolicy, WarningPolicy, RejectPolicy"],
               ["import zz_myparamiko_x"], ["from zz import paramiko"], ["import zz_other as paramiko"], ["import Paramiko"],
               ["from paramiko import *"], [], ["import os"], ["import paramik, aramiko"], ["import zz.paramiko.zz as zz_m"],
               ["from zz import yy as paramiko"]]
    pols = []
    for p in ["AutoAddPolicy", "WarningPolicy", "RejectPolicy", "MissingHostKeyPolicy", "autoaddpolicy", "AutoAddPolicy_", "AutoAdd"]:
        pols += ["paramiko.%s" % p, "paramiko.%s()" % p, p, "%s()" % p, "paramiko.client.%s" % p, "paramiko.client.%s()" % p,
                 "client.%s(zz_x)" % p, "'%s'" % p, "zz_f().%s" % p, "zz_f().%s()" % p, "%s()()" % p, "zz_x[0].%s" % p,
                 "zz_x.%s[0]" % p, "%s.zz_more" % p, "%s.zz_more()" % p, "[%s]" % p, "*%s" % p, "(%s)" % p, "%s if zz_c else zz_d" % p,
                 "lambda: %s" % p, "zz_d[0](%s)" % p, "policy=%s" % p, "policy=paramiko.%s()" % p]
    callees = ["zz_c.set_missing_host_key_policy", "set_missing_host_key_policy", "paramiko.SSHClient().set_missing_host_key_policy",
               "zz_a.b.c.set_missing_host_key_policy", "self.client.set_missing_host_key_policy"]
    nearc = ["zz_c.set_missing_host_key_policy2", "zz_c.set_missing_host_key", "zz_c.Set_missing_host_key_policy",
             "zz_c.set_missing_host_key_policy.zz", "zz_c.load_system_host_keys", "zz_c.set_missing_host_key_policy()",
             "zz_f()", "zz_x[0]"]
    for ii, imp in enumerate(imports):
        for ci, callee in enumerate(callees + nearc):
            if not full and ii >= 2 and ci >= 2 and (ii + ci) % 3:
                continue
            stmts = ["%s()" % callee, "%s(**zz_k)" % callee, "%s(*zz_a)" % callee, "%s(**'x')" % callee, "%s({[1]})" % callee]
            for pi, p in enumerate(pols):
                if not full and (ii >= 1 or ci >= 1) and (pi + ii + ci) % 5:
                    continue
                if full and ci >= len(callees) and (pi + ii) % 3:
                    continue
                stmts.append("%s(%s)" % (callee, p))
                if (full and (ci < 2 or (pi + ii) % 2 == 0)) or (not full and pi % 4 == 0):
                    stmts.append("%s(%s, zz_extra)" % (callee, p) if not p.startswith("policy=") else "%s(zz_extra, %s)" % (callee, p))
                    if not p.startswith("policy="):
                        stmts.append("%s(zz_first, %s)" % (callee, p))
                        stmts.append("%s(\n    %s,\n    set_missing_host_key_policy=1,\n)" % (callee, p))
                        stmts.append("%s(\n    %s,\n    zz_k=2,\n\n    set_missing_host_key_policy=zz_v)" % (callee, p))
            for ch in chunks(stmts, 8):
                out.append(P(imp + ch))
    out.append(P(["def zz_f():\n    import paramiko\nzz_c.set_missing_host_key_policy(AutoAddPolicy)",
                  "zz_c.set_missing_host_key_policy(AutoAddPolicy)\nimport paramiko\nzz_c.set_missing_host_key_policy(AutoAddPolicy)"]))
    out.append(P(["zz_c.set_missing_host_key_policy(AutoAddPolicy)", "import paramiko", "zz_c.set_missing_host_key_policy(AutoAddPolicy)  # nosec",
                  "zz_c.set_missing_host_key_policy(AutoAddPolicy)  # nosec B507", "zz_c.set_missing_host_key_policy(AutoAddPolicy)  # nosec B501"]))
    return out


# --------------------------------------------------------------------------------------------------
# B508 / B509
# --------------------------------------------------------------------------------------------------
def gen_snmp(rng, full):
    out = []
    mp = ["0", "1", "2", "3", "-1", "0.0", "1.0", "2.0", "0.5", "1e0", "1e-400", "1.0000000000000002", "0j", "1j", "True", "False", "None",
          "'0'", "'1'", "b'0'", "zz_v", "zz_o.attr", "zz_f()", "[0]", "(0,)", "{0}", "{}", "{[1]}", "...", "0x0", "0b1", "00",
          "1 - 1", "-0", "+1", "not 1", "10 ** 400", "1e999"]
    al = [[], ["'public'"], ["'public'", "0"], ["'public'", "'public'", "0"], ["'public'", "mpmodel=0"], ["'public'", "MPMODEL=1"],
          ["'public'", "mpModel_=0"]]
    for v in mp:
        al.append(["'public'", "mpModel=%s" % v])
        al.append(["mpModel=%s" % v])
        if full:
            al.append(["'idx'", "'public'", "mpModel=%s" % v, "contextName=b''"])
            al.append(["mpModel=%s" % v, "communityName='public'"])
    for s in STAR_FORMS:
        al.append([s])
        al.append(["'public'", s])
        al.append(["'public'", "mpModel=0", s] if not s.startswith("*zz_a") else ["'public'", s, "mpModel=0"])
    al += [["'public'", "**{'mpModel': 0}"], ["'public'", "mpModel=0", "CommunityData=1"],
           ["'public'", "mpModel=1", "zz_k=2", "CommunityData=\n    zz_v"], ["'public'", "zz_k={[1]}", "mpModel=0"], ["{[1]}", "mpModel=0"]]
    ual = [[]]
    for n in range(0, 5):
        base = ["'a%d'" % i for i in range(n)]
        ual += [list(base), base + ["authProtocol=zz_p"], base + ["authKey='k'", "privKey='p'"],
                base + ["*zz_a"], base + ["**zz_k"], base + ["UsmUserData=1"], base + ["zz_k=1", "UsmUserData=\n    zz_v"]]
        if n:
            ual += [base[:-1] + ["*zz_a"], base[:-1] + ["{[1]}"], base[:-1] + ["zz_f()"], ["*zz_a"] + base, base[:-1] + ["None"]]
    ual += [["userName='u'", "authKey='a'", "privKey='p'"], ["**{'a': 1}"], ["**'x'"], ["zz_k={[1]}"], ["'a'", "'b'", "'c'", "{[1]}"]]
    for q, a in [("pysnmp.hlapi.CommunityData", al), ("pysnmp.hlapi.UsmUserData", ual)]:
        out += calls_programs(q, a, per=8)
        fn = q.split(".")[-1]
        for imp, callee in [(["from pysnmp.hlapi import *"], fn), (["import pysnmp"], "pysnmp.hlapi.%s" % fn),
                            (["from pysnmp.hlapi.asyncio import %s" % fn], fn), (["import pysnmp.hlapi.asyncio as zz_h"], "zz_h.%s" % fn),
                            (["from pysnmp.hlapi.v3arch import %s" % fn], fn), (["from pysnmp.entity.rfc3413.oneliner import cmdgen"], "cmdgen.%s" % fn),
                            ([], "pysnmp.hlapi.%s" % fn), ([], fn), (["from zz import pysnmp"], "pysnmp.hlapi.%s" % fn),
                            (["import pysnmp.hlapi"], "pysnmp.hlapi.%s.zz" % fn), (["import pysnmp.hlapi"], "pysnmp.hlapi.%ss" % fn),
                            (["import pysnmp.hlapi"], "pysnmp.hlapi.%s" % fn.lower()), (["import pysnmp.hlapi"], "zz.pysnmp.hlapi.%s" % fn),
                            (["import pysnmp.hlapi"], "pysnmp.hlapi.%s()" % fn), (["import Pysnmp.hlapi as zz_p"], "zz_p.%s" % fn)]:
            stmts = [layouts(callee, args)[0] for args in (a if full else a[::4])]
            for ch in chunks(stmts, 10):
                out.append(P(imp + ch))
    out.append(P(["from pysnmp.hlapi import CommunityData, UsmUserData", "CommunityData('public', mpModel=0)  # nosec",
                  "CommunityData('public', mpModel=0)  # nosec B508", "UsmUserData('a')  # nosec B509", "UsmUserData('a')  # nosec B508",
                  "getCmd(SnmpEngine(), CommunityData('public', mpModel=1), UsmUserData('u', 'a'), UsmUserData('u', 'a', 'p'))",
                  "CommunityData(UsmUserData('x'), mpModel=CommunityData('p', mpModel=0))"]))
    return out


# --------------------------------------------------------------------------------------------------
# generic: every keyed function name with every literal kind in every deciding position
# --------------------------------------------------------------------------------------------------
def gen_generic(rng, full):
    out = []
    targets = [(DSA_IO, ["key_size"], 1), (RSA_IO, ["key_size"], 2), (EC_IO, ["curve"], 1), (PYC[0], ["bits"], 1), (PYC[3], ["bits"], 1),
               ("hashlib.md5", ["usedforsecurity"], 1), ("hashlib.new", ["name", "usedforsecurity"], 1),
               ("crypt.crypt", ["salt"], 2), ("crypt.mksalt", ["method"], 1),
               ("ssl.wrap_socket", ["ssl_version"], 1), ("pyOpenSSL.SSL.Context", ["method"], 1), ("zz_any.zz_call", ["method", "ssl_version"], 1),
               ("requests.get", ["verify", "timeout"], 1), ("httpx.Client", ["verify", "timeout"], 1), ("httpx.stream", ["timeout"], 2),
               ("pysnmp.hlapi.CommunityData", ["mpModel"], 2), ("pysnmp.hlapi.UsmUserData", ["authKey"], 3),
               ("zz_c.set_missing_host_key_policy", ["policy"], 1)]
    for q, kws, npos in targets:
        al = []
        for v in GENERIC_VALUES:
            star = v.startswith("*")
            for n in range(1, npos + 1):
                al.append(["zz_p"] * (n - 1) + [v])
            if not star:
                for kw in kws:
                    al.append(["%s=%s" % (kw, v)])
                    al.append(["zz_p", "%s=%s" % (kw, v)])
                al.append(["zz_unrelated=%s" % v])
        for s in STAR_FORMS:
            al.append([s])
        pre = ["import paramiko"] if "host_key" in q else []
        out += calls_programs(q, al, spell=None if full else ("import_m", "from_m_import_f_as"), pre=pre, per=8)
    return out


CORE = [
    ["import hashlib", "hashlib.md5(b'x')", "hashlib.sha1(b'x', usedforsecurity=False)", "hashlib.new('MD5')",
     "hashlib.new(name='sha1', usedforsecurity=True)", "hashlib.new('sha256')", "hashlib.new()", "hashlib.md5(usedforsecurity=zz_x)",
     "import crypt", "crypt.crypt('pw', crypt.METHOD_MD5)", "crypt.mksalt(method=crypt.METHOD_CRYPT)"],
    ["from cryptography.hazmat.primitives.asymmetric import dsa, rsa, ec", "dsa.generate_private_key(key_size=1024)",
     "dsa.generate_private_key(512)", "rsa.generate_private_key(65537, 2047)", "rsa.generate_private_key(public_exponent=65537, key_size=0)",
     "rsa.generate_private_key(3, 1024, key_size=0)", "ec.generate_private_key(ec.SECP192R1)", "ec.generate_private_key(curve=ec.SECT163K1)",
     "ec.generate_private_key(ec.SECP192R1())", "ec.generate_private_key([1])", "ec.generate_private_key()",
     "dsa.generate_private_key(key_size=[1])", "dsa.generate_private_key(key_size=None)", "dsa.generate_private_key(key_size=1024.0)",
     "dsa.generate_private_key(key_size=1e999)", "dsa.generate_private_key(key_size=2j)", "dsa.generate_private_key(key_size=b'x')",
     "dsa.generate_private_key(key_size=zz_x)", "dsa.generate_private_key(1.5e3)"],
    ["from Crypto.PublicKey import DSA, RSA", "DSA.generate(bits=512)", "RSA.generate(2047)", "RSA.generate({[1]})"],
    ["import ssl", "from pyOpenSSL import SSL", "ssl.wrap_socket(ssl_version=ssl.PROTOCOL_SSLv3)", "ssl.wrap_socket()",
     "ssl.wrap_socket(ssl_version=zz_f())", "SSL.Context(method=SSL.SSLv2_METHOD)", "zz_foo(method=SSL.SSLv23_METHOD)",
     "zz_foo(ssl_version='PROTOCOL_TLSv1',\n    method=5)", "def zz_f(a, b=SSL.SSLv2_METHOD, c=3): pass", "def zz_g(a=zz_x.y.TLSv1_METHOD): pass"],
    ["import requests, httpx", "requests.get(zz_u, verify=False)", "requests.get(zz_u, timeout=None)", "requests.post(zz_u, timeout=zz_f())",
     "httpx.get(zz_u)", "httpx.Client(timeout=None, verify=False)", "requests.Session()", "requests.get(zz_u, timeout=5, verify=True)"],
    ["import paramiko", "zz_c = paramiko.SSHClient()", "zz_c.set_missing_host_key_policy(paramiko.AutoAddPolicy)",
     "zz_c.set_missing_host_key_policy(paramiko.AutoAddPolicy())", "zz_c.set_missing_host_key_policy(WarningPolicy)",
     "zz_c.set_missing_host_key_policy(RejectPolicy())", "zz_c.set_missing_host_key_policy()", "zz_c.set_missing_host_key_policy(*zz_a)"],
    ["from pysnmp.hlapi import CommunityData, UsmUserData", "CommunityData('public', mpModel=0)", "CommunityData('public', mpModel=1)",
     "CommunityData('public', mpModel=2)", "CommunityData('public', mpModel=0.0)", "CommunityData('public', mpModel=0j)",
     "CommunityData('public', mpModel=True)", "UsmUserData('a')", "UsmUserData('a', 'b', 'c')", "UsmUserData(*zz_a)"],
]

SECTIONS = [("b505", gen_b505, 340), ("b324", gen_b324, 300), ("ssl", gen_ssl, 300), ("requests", gen_requests, 230),
            ("b507", gen_b507, 100), ("snmp", gen_snmp, 110), ("generic", gen_generic, 110)]


def programs(rng, tier):
    full = tier == "thorough"
    SCALE[0] = 2 if full else 1
    out = [P(c) for c in CORE]
    for name, fn, quota in SECTIONS:
        sec = fn(rng, full)
        if not full and len(sec) > quota:
            # keep the order; a deterministic stratified sample
            kept = [i for i, p_ in enumerate(sec) if p_.get("keep") or "ZzSame" in p_["src"] or "zz_outer" in p_["src"] or "zz_speedups" in p_["src"]]
            idx = sorted(set(rng.sample(range(len(sec)), quota)) | set(kept))    # hand-picked programs are never sampled away
            sec = [sec[i] for i in idx]
        out += sec
    if full and len(out) > 30000:
        idx = sorted(rng.sample(range(len(out)), 30000))
        out = [out[i] for i in idx]
    return out
