"""Program generator for the plugin family "Shell": injection_shell.py (B602..B607) and
injection_wildcard.py (B609).

programs(rng, tier) -> list of dict(src=..., include=[...], config=<dict or None>)

The space is organised in *groups*; "thorough" emits every group in full, "quick" keeps a fixed
deterministic sample of each group (every group stays represented)."""
import random

IDS = ["B602", "B603", "B604", "B605", "B606", "B607", "B609"]

SUBPROCESS = ["subprocess.Popen", "subprocess.call", "subprocess.check_call", "subprocess.check_output",
              "subprocess.run"]
SHELL = ["os.system", "os.popen", "os.popen2", "os.popen3", "os.popen4", "popen2.popen2", "popen2.popen3",
         "popen2.popen4", "popen2.Popen3", "popen2.Popen4", "commands.getoutput", "commands.getstatusoutput",
         "subprocess.getoutput", "subprocess.getstatusoutput"]
NO_SHELL = ["os.execl", "os.execle", "os.execlp", "os.execlpe", "os.execv", "os.execve", "os.execvp",
            "os.execvpe", "os.spawnl", "os.spawnle", "os.spawnlp", "os.spawnlpe", "os.spawnv", "os.spawnve",
            "os.spawnvp", "os.spawnvpe", "os.startfile"]
ALL_NAMES = SUBPROCESS + SHELL + NO_SHELL


def spellings(q):
    """(import lines, callee expression) making the callee resolve to the dotted name q."""
    parts = q.split(".")
    if len(parts) < 2:
        return [([], q)]
    m, f = ".".join(parts[:-1]), parts[-1]
    return [
        (["import %s" % m], q),
        (["import %s as zz_a" % m], "zz_a.%s" % f),
        (["from %s import %s" % (m, f)], f),
        (["from %s import %s as zz_g" % (m, f)], "zz_g"),
        # the same bare name imported twice, the relevant import second (try/except fallback): the later binding is the one in force
        (["try:", "    from zz_%s32 import %s" % (m.split(".")[0], f), "except ImportError:", "    from %s import %s" % (m, f)], f),
    ]


# callee expressions that are *not* one of the configured names (near misses, unresolved shapes)
OTHER_CALLEES = [
    ([], "subprocess.Popen"),                       # no import at all: still resolves textually
    (["import subprocess"], "subprocess.Popen2"),
    (["import subprocess"], "subprocess.popen"),
    (["import subprocess"], "subprocess.Popen.zz_more"),
    (["import subprocess"], "subprocess.cal"),
    (["import zzsubprocess"], "zzsubprocess.Popen"),
    (["import os"], "os.systemx"),
    (["import os"], "os.exec"),
    (["import os"], "os.path.system"),
    (["import os.path as system"], "system"),
    (["from zzother import Popen"], "Popen"),
    (["from os import *"], "system"),
    ([], "Popen"),
    ([], "zz_foo"),
    ([], "zz_obj.run"),
    ([], "self.zz_exec.call"),
    ([], "zz_get()"),                               # func is a Call: empty qualname
    ([], "zz_tab[0]"),                              # func is a Subscript: empty qualname
    ([], "(lambda *a, **k: 0)"),
    (["import subprocess as os"], "os.system"),     # alias shadowing: resolves to subprocess.system
    (["import os as subprocess"], "subprocess.Popen"),
    (["import subprocess"], "subprocess . Popen"),
]

# first-argument shapes: (label, text of the positional part of the argument list)
ARGS = [
    ("none", ""),
    ("str", "'ls -l'"),
    ("str_full", "'/bin/ls -l'"),
    ("str_empty", "''"),
    # what the literal says is irrelevant to its grading: shell metacharacters, substitutions, wildcards, redirections
    ("str_backticks", "'echo `id`'"),
    ("str_dollar_paren", "'echo $(id) > /dev/null'"),
    ("str_meta", "'ls *.py | wc -l && echo $HOME; true'"),
    ("str_implicit_concat", "'ls' ' -l'"),
    ("str_triple", "'''ls\n-l'''"),
    ("bytes", "b'ls'"),
    ("list", "['ls', '-l']"),
    ("list_full", "['/bin/ls', '-l']"),
    ("list_empty", "[]"),
    ("list_name_first", "[zz_cmd, '-l']"),
    ("list_nested", "[['ls'], '-l']"),
    ("list_mixed", "['ls', 1, None, 2.5, True, zz_v, b'x', ..., -3]"),
    ("tuple", "('ls', '-l')"),
    ("tuple_empty", "()"),
    ("set", "{'ls'}"),
    ("set_unhashable", "{[1]}"),
    ("set_unhashable_tuple", "{(1, [2])}"),
    ("dict", "{'a': 1}"),
    ("dict_empty", "{}"),
    ("concat", "'ls ' + zz_x"),
    ("percent", "'ls %s' % zz_x"),
    ("fstring", "f'ls {zz_x}'"),
    ("fstring_plain", "f'ls'"),
    ("format", "'ls {}'.format(zz_x)"),
    ("join", "' '.join(zz_l)"),
    ("name", "zz_cmd"),
    ("attr", "self.zz_cmd"),
    ("call", "zz_get_cmd()"),
    ("subscript", "zz_cmds[0]"),
    ("ifexp", "'a' if zz_x else 'b'"),
    ("star", "*zz_args"),
    ("star_list", "*['ls', '-l']"),
    ("int0", "0"),
    ("int", "7"),
    ("negint", "-1"),
    ("float", "1.5"),
    ("complex", "2j"),
    ("true", "True"),
    ("false", "False"),
    ("none_const", "None"),
    ("ellipsis", "..."),
    ("lambda", "lambda: 'ls'"),
    ("two", "'ls', '-l'"),
    ("many", "'/bin/ls', zz_b, 3, None"),
    ("str_then_star", "'ls', *zz_rest"),
    ("name_then_str", "zz_mode, '/bin/ls'"),
    ("int_then_str", "0, 'ls'"),
]
ARGS_CORE = ["none", "str", "str_full", "list", "list_empty", "tuple", "concat", "percent", "fstring", "name",
             "call", "star", "two"]

# shell= values (None = keyword absent)
SHELLS = [
    None, "True", "False", "None", "0", "1", "-1", "2.0", "0.0", "0j", "1j", "''", "'x'", "'True'", "'False'",
    "b''", "b'x'", "[]", "[1]", "[[]]", "()", "(1,)", "{}", "{'a': 1}", "{**zz_d}", "{1}", "{[1]}", "{(1, [2])}",
    "zz_flag", "zz_get()", "not zz_x", "zz_o.flag", "...", "f''", "f'{zz_x}'", "lambda: 0",
    "1 == 1", "True and zz_x", "zz_t[0]", "1 if zz_x else 0", "{*zz_s}", "(*zz_t,)", "[*zz_l]", "{0}", "(0,)", "'' ''", "set()", "'\\0'",
]
SHELLS_CORE = [None, "True", "False", "0", "1", "''", "()", "[]", "{}", "zz_flag", "{[1]}"]

# other keyword material that can surround shell=
EXTRA_KW = [
    "",
    "stdout=zz_PIPE",
    "**zz_k",
    "**{'shell': True}",
    "**{'shell': False}",
    "**'x'",
    "**{'x': 1}",
    "Shell=True",
    "shel=True",
    "shell_=True",
    "stdin={[1]}",                 # unhashable set element in another keyword (skipped since e3b31e7)
    "env=zz_o.environ",
    "args='ls'",
    "cmd=['chmod', '*']",
    "bufsize=-zz_n",               # unary operators on names / literals among the other arguments
    "timeout=-1, bufsize=+zz_n",
    "umask=~zz_m, close_fds=not zz_c",
    "executable='/bin/bash'",      # other keywords that name a program or a path do not take part in any decision
    "executable='sh', cwd='/usr/bin'",
    "executable=zz_exe, env={'PATH': '/bin'}",
]

LAYOUTS = ["single", "kw_line", "value_line", "leading_kw_star"]


def build_call(callee, args, shell, extra, layout):
    """Text of the call; multi-line layouts put shell= (or its value) on its own line."""
    items = []
    if args:
        items.append(args)
    kws = []
    if extra and not extra.startswith("**"):
        kws.append(extra)
    if shell is not None:
        kws.append("shell=%s" % shell)
    if extra and extra.startswith("**"):
        kws.append(extra)
    if layout == "single":
        return "%s(%s)" % (callee, ", ".join(items + kws))
    if layout == "kw_line":
        body = "".join("    %s,\n" % x for x in items + kws)
        return "%s(\n%s)" % (callee, body)
    if layout == "value_line":
        out = []
        for x in items:
            out.append("    %s," % x)
        for k in kws:
            if k.startswith("shell="):
                out.append("    shell=")
                out.append("        %s," % k[len("shell="):])
            else:
                out.append("    %s," % k)
        return "%s(\n%s\n)" % (callee, "\n".join(out)) if out else "%s(\n)" % callee
    if layout == "leading_kw_star":
        # keywords first, a starred positional afterwards (legal: f(shell=True, *a))
        pos = [x for x in items]
        if kws and pos and all(p.lstrip().startswith("*") for p in pos):
            return "%s(%s,\n    %s)" % (callee, ", ".join(kws), ", ".join(pos))
        return "%s(%s\n    )" % (callee, ",\n    ".join(items + kws))
    raise ValueError(layout)


WRAPS = ["stmt", "func_with", "nested_arg", "assign_tail", "samename_method", "samename_inner_def"]


def wrap(imports, call, how):
    pre = list(imports)
    if how == "stmt":
        body = [call]
    elif how == "func_with":
        ind = "        "
        lines = call.split("\n")
        body = ["def zz_f(zz_x, *zz_args, **zz_k):", "    with zz_x as zz_w:",
                ind + "return " + lines[0]] + [ind + l for l in lines[1:]]
    elif how == "nested_arg":
        body = ["print(1, %s, sep='')" % call]
    elif how == "assign_tail":
        body = ["zz_r = %s.zz_m().zz_n" % call]
    elif how in ("samename_method", "samename_inner_def"):
        # a method / inner function that merely shares the callee's local name; the call itself follows at module level
        import re as _re
        nm = _re.match(r"[A-Za-z_][A-Za-z_0-9]*", call).group(0)
        if how == "samename_method":
            body = ["class ZzJob:", "    def %s(self, zz_v):" % nm, "        return zz_v", "zz_r = " + call]
        else:
            body = ["def zz_outer():", "    def %s(zz_v):" % nm, "        return zz_v", "    return 1", "zz_r = " + call]
    else:
        raise ValueError(how)
    return "\n".join(pre + body) + "\n"


def P(src, config=None, include=None):
    return {"src": src, "include": list(include or IDS), "config": config}


# ------------------------------------------------------------------------------------------------
# user-supplied configurations

def SI(v):
    return {"shell_injection": v}


CUSTOM = SI({"subprocess": ["zz_x.y", "zz_foo", "subprocess.Popen"], "shell": ["zz_a.b", "os.system"],
             "no_shell": ["zz_n.s"]})
CONFIGS = [
    ("custom", CUSTOM),
    ("all_empty", SI({"subprocess": [], "shell": [], "no_shell": []})),
    ("empty_dict", SI({})),
    ("only_subprocess", SI({"subprocess": ["zz_x.y", "subprocess.Popen"]})),
    ("only_shell", SI({"shell": ["zz_a.b", "os.system"]})),
    ("only_no_shell", SI({"no_shell": ["zz_n.s", "os.execl"]})),
    ("no_no_shell", SI({"subprocess": ["zz_x.y", "subprocess.Popen"], "shell": ["zz_a.b", "os.system"]})),
    ("no_shell_key", SI({"subprocess": ["zz_x.y", "subprocess.Popen"], "no_shell": ["zz_n.s"]})),
    ("no_subprocess_key", SI({"shell": ["zz_a.b", "os.system"], "no_shell": ["zz_n.s"]})),
    ("strings", SI({"subprocess": "zz_x.y.z subprocess.Popen", "shell": "zz_a.b os.system", "no_shell": "zz_n.s"})),
    ("odd_values", SI({"subprocess": {"zz_x.y": 1}, "shell": None, "no_shell": 3})),
    ("odd_values2", SI({"subprocess": None, "shell": ["os.system"], "no_shell": True})),
    ("odd_elements", SI({"subprocess": [None, 1, "subprocess.Popen", ["zz_x.y"]], "shell": [True], "no_shell": [{}]})),
    ("overlap", SI({"subprocess": ["subprocess.Popen", "os.system"], "shell": ["subprocess.Popen", "os.system"],
                    "no_shell": ["subprocess.Popen", "os.system"]})),
    ("extra_key", SI({"subprocess": ["zz_x.y"], "shell": [], "no_shell": [], "zz_more": 1})),
    ("cfg_list", SI(["shell", "subprocess"])),
    ("cfg_list_empty", SI([])),
    ("cfg_str", SI("shell subprocess")),
    ("cfg_str_empty", SI("")),
    ("cfg_int", SI(3)),
    ("cfg_zero", SI(0)),
    ("cfg_true", SI(True)),
    ("cfg_false", SI(False)),
    ("cfg_null", SI(None)),
    ("unrelated", {"zz_other": {"a": 1}}),
    ("empty_name", SI({"subprocess": [""], "shell": [""], "no_shell": [""]})),
]
CONFIG_CALLS = [
    (["import zz_x"], "zz_x.y"), (["import zz_a"], "zz_a.b"), (["import zz_n"], "zz_n.s"), ([], "zz_foo"),
    (["import subprocess"], "subprocess.Popen"), (["import subprocess"], "subprocess.call"),
    (["import os"], "os.system"), (["import os"], "os.execl"), ([], "zz_get()"), ([], "zz_unlisted"),
    (["from zz_x import y"], "y"), (["import zz_x.y as z"], "z.z"),
]
CONFIG_TAILS = [
    ("'ls'", None), ("'ls'", "True"), ("['chmod', '*']", "True"), ("'chown *'", None), ("", "True"), ("", None),
    ("zz_c", "False"), ("'/bin/tar *'", "1"), ("{[1]}", "True"), ("'ls'", "{[1]}"),
]

# ------------------------------------------------------------------------------------------------
# B607: partial vs full paths

PATHS = ["ls", "/bin/ls", "./x", "../x", "..", ".", "C:\\\\x", "c:", "c:x", "cc:\\\\x", "C", "1:\\\\x", "\\\\x",
         "\\\\\\\\srv\\\\x", "", " /bin/ls", "~/x", "$HOME/x", ":x", "é:", "\\n/bin/ls", "Z:/x", "zz", "/"]
PATH_FORMS = [
    ("str", lambda p: "'%s'" % p),
    ("str_args", lambda p: "'%s', '-l'" % p),
    ("list", lambda p: "['%s', '-l']" % p),
    ("list_single", lambda p: "['%s']" % p),
    ("tuple", lambda p: "('%s', '-l')" % p),
    ("list_of_list", lambda p: "[['%s']]" % p),
    ("second_arg", lambda p: "zz_mode, '%s'" % p),
    ("bytes", lambda p: "b'%s'" % p if p.isascii() else "b'x'"),
    ("raw", lambda p: "r'%s'" % p),
    ("fstring", lambda p: "f'%s'" % p),
    ("list_fstring_first", lambda p: "[f'%s', 'x']" % p),
    ("list_name_then", lambda p: "[zz_p, '%s']" % p),
]

# ------------------------------------------------------------------------------------------------
# B609: wildcard commands

WILD_CMDS = ["chown", "chmod", "tar", "rsync", "/bin/chown", "star", "guitar", "CHOWN", "chow n", "cp", "rm"]
WILD_TAILS = [" *", " root *.txt", " root x", "", "*", " -R root /tmp/*", " \\\\*"]
WILD_FORMS = [
    ("str", lambda c, t: "'%s%s'" % (c, t)),
    ("list_joined", lambda c, t: "['%s%s']" % (c, t)),
    ("list_split", lambda c, t: "[%s]" % ", ".join("'%s'" % w for w in ([c] + t.split()))),
    ("tuple_split", lambda c, t: "(%s,)" % ", ".join("'%s'" % w for w in ([c] + t.split()))),
    ("two_args", lambda c, t: "'%s', '%s'" % (c, t)),
    ("name_in_list", lambda c, t: "[zz_pre, '%s', '%s']" % (c, t.strip())),
    ("split_across", lambda c, t: "['%s', '%s', '%s']" % (c[:2], c[2:], t.strip())),
]
WILD_ELEMS = [
    # element kinds inside the list (f-string formatting of each element)
    "['chown', 1, '*']", "['chmod', None, '*']", "['tar', 2.5, '*', -1]", "['rsync', True, False, '*']",
    "['chown', zz_star, '*']", "[chown, '*']", "[zz_o.chown, '*']", "['chmod', ..., '*']", "['tar', 2j, '*']",
    "['chown', b'x', '*']", "[b'chown', '*']", "[b'chown *']", "[b'chmod \\'*']", "[b'ta', b'r*']",
    "['chown', 1e100, '*']", "['chmod', 0x10, '*', 1_000]", "['tar', 0.1, '*']", "['t', 'ar', '*']",
    "['chown', ['x'], '*']", "['chmod', ('x',), '*']", "['tar', {'x'}, '*']", "['rsync', {'a': 1}, '*']",
    "['chown', {[1]}, '*']", "[1, 2]", "[None]", "['']", "[]", "['*']", "['chown']",
    "chown", "zz_o.chown", "zz_o.tar_star", "tar", "None", "True", "'*'", "'tar'", "'*tar'", "b'chown *'",
    "'chown ' '*'", "'chown %s' % '*'", "'chown ' + '*'", "f'chown *'", "'''chmod\n*'''", "'rsync\\t*'",
]
WILD_CALLERS = [
    # (imports, callee, shell value)
    (["import os"], "os.system", None),
    (["import os"], "os.popen", "False"),
    (["import subprocess"], "subprocess.getoutput", None),
    (["import subprocess"], "subprocess.Popen", "True"),
    (["import subprocess"], "subprocess.Popen", None),
    (["import subprocess"], "subprocess.Popen", "False"),
    (["import subprocess"], "subprocess.call", "1"),
    (["import subprocess"], "subprocess.run", "'True'"),
    (["import subprocess"], "subprocess.check_call", "true"),
    (["import subprocess"], "subprocess.check_output", "zz_o.shell"),
    (["import os"], "os.execl", "True"),
    ([], "zz_wrapper", "True"),
]


# ------------------------------------------------------------------------------------------------

def g_names():
    """every configured name x import spelling x a core of (argument, shell) combinations"""
    out = []
    combos = [("'ls -l'", None, "single"), ("'/bin/ls'", "True", "single"), ("zz_c", "True", "kw_line"),
              ("['ls']", "False", "value_line"), ("", "True", "single"), ("", None, "single"),
              ("'chmod 777 *'", "True", "value_line"), ("*zz_a", "1", "leading_kw_star")]
    for q in ALL_NAMES:
        for imps, callee in spellings(q):
            for a, s, lay in combos:
                out.append(P(wrap(imps, build_call(callee, a, s, "", lay), "stmt")))
    return out


def g_names_full():
    """every configured name x spelling x core arguments x core shell values (thorough only)"""
    out = []
    for q in ALL_NAMES:
        for imps, callee in spellings(q):
            for lab in ARGS_CORE:
                a = dict(ARGS)[lab]
                for s in SHELLS_CORE:
                    out.append(P(wrap(imps, build_call(callee, a, s, "", "single"), "stmt")))
    return out


REPRESENTATIVES = [
    (["import subprocess"], "subprocess.Popen"),
    (["from subprocess import run as zz_g"], "zz_g"),
    (["import os"], "os.system"),
    (["import os"], "os.execv"),
    ([], "zz_wrapper"),
]


def g_args_shells():
    """one name per section (and an unlisted one) x every argument shape x every shell value x layout"""
    out = []
    for imps, callee in REPRESENTATIVES:
        for _, a in ARGS:
            for s in SHELLS:
                for lay in LAYOUTS:
                    out.append(P(wrap(imps, build_call(callee, a, s, "", lay), "stmt")))
    return out


def g_extra_kw():
    out = []
    for imps, callee in REPRESENTATIVES:
        for lab in ARGS_CORE:
            a = dict(ARGS)[lab]
            for s in [None, "True", "False", "zz_flag"]:
                for e in EXTRA_KW:
                    for lay in ("single", "value_line"):
                        out.append(P(wrap(imps, build_call(callee, a, s, e, lay), "stmt")))
    return out


def g_other_callees():
    out = []
    for imps, callee in OTHER_CALLEES:
        for lab in ARGS_CORE:
            a = dict(ARGS)[lab]
            for s in SHELLS_CORE:
                out.append(P(wrap(imps, build_call(callee, a, s, "", "single"), "stmt")))
    return out


def g_wraps():
    out = []
    for imps, callee in REPRESENTATIVES:
        for how in WRAPS:
            for a in ("'ls'", "['chown', '*']", "", "zz_c"):
                for s in (None, "True", "False"):
                    for lay in LAYOUTS[:3]:
                        out.append(P(wrap(imps, build_call(callee, a, s, "", lay), how)))
    # a call nested in the argument of another configured call, decorators, repeated keyword (SyntaxError)
    out.append(P("import subprocess, os\nsubprocess.Popen(os.popen('ls').read(), shell=True)\n"))
    out.append(P("import subprocess\n@subprocess.call('ls', shell=True)\ndef zz_f():\n    pass\n"))
    out.append(P("import subprocess\nsubprocess.call('ls', shell=True)  # nosec\n"))
    out.append(P("import subprocess\nsubprocess.call('ls',\n    shell=True)  # nosec B602\n"))
    out.append(P("import subprocess\nsubprocess.call('ls',  # nosec B603\n    shell=True)\n"))
    out.append(P("import subprocess\nclass ZzC:\n    zz_a = subprocess.run(['tar', 'cf', '*'], shell=True)\n"))
    out.append(P("import os\nzz_l = [os.system('chmod 777 *') for zz_i in zz_r]\n"))
    out.append(P("import os\nzz_h = lambda zz_v: os.execl(\n    'x',\n    shell=True)\n"))
    return out


def g_configs():
    out = []
    for _, cfg in CONFIGS:
        for imps, callee in CONFIG_CALLS:
            for a, s in CONFIG_TAILS:
                out.append(P(wrap(imps, build_call(callee, a, s, "", "single"), "stmt"), config=cfg))
    return out


def g_single_ids():
    """plugins selected one at a time (the test set then holds a single plugin)"""
    out = []
    src = ("import subprocess, os\nsubprocess.Popen('ls', shell=True)\nsubprocess.Popen('ls')\n"
           "os.system('chmod *')\nos.execl('x')\nzz_w(shell=True)\nsubprocess.call({[1]}, shell={[1]})\n")
    for i in IDS:
        out.append(P(src, include=[i]))
        out.append(P(src, include=[i], config=CUSTOM))
        out.append(P(src, include=[i], config=SI({})))
        out.append(P(src, include=[i], config=SI({"shell": []})))
    return out


def g_paths():
    out = []
    callers = [(["import subprocess"], "subprocess.Popen", None), (["import subprocess"], "subprocess.call", "True"),
               (["import os"], "os.system", None), (["import os"], "os.execl", None),
               (["import os"], "os.spawnv", None), ([], "zz_wrapper", None)]
    for imps, callee, s in callers:
        for p in PATHS:
            for _, form in PATH_FORMS:
                out.append(P(wrap(imps, build_call(callee, form(p), s, "", "single"), "stmt")))
    return out


def g_wild():
    out = []
    for imps, callee, s in WILD_CALLERS:
        for c in WILD_CMDS:
            for t in WILD_TAILS:
                for _, form in WILD_FORMS:
                    out.append(P(wrap(imps, build_call(callee, form(c, t), s, "", "single"), "stmt")))
        for e in WILD_ELEMS:
            for lay in ("single", "value_line"):
                out.append(P(wrap(imps, build_call(callee, e, s, "", lay), "stmt")))
    return out


def g_dup_kw():
    """a repeated shell= keyword: ast.parse accepts it (only compile() rejects it), so bandit scans it;
    has_shell lets the last one decide, the reported line is the first one's"""
    out = []
    vals = ["True", "False", "0", "1", "()", "zz_flag", "{[1]}", "None", "'True'"]
    for imps, callee in REPRESENTATIVES:
        for a in ("'ls'", "['chmod', '*']", "", "zz_c"):
            for v1 in vals:
                for v2 in vals:
                    for sep in (", ", ",\n    "):
                        kws = "shell=%s%sshell=%s" % (v1, sep, v2)
                        inner = (a + sep + kws) if a else kws
                        out.append(P(wrap(imps, "%s(%s)" % (callee, inner), "stmt")))
            out.append(P(wrap(imps, "%s(%s shell=True, **zz_k, shell=False,\n    shell=1)" % (callee, a + "," if a else ""),
                              "stmt")))
    return out


GROUPS = [
    # (function, quick sample size, thorough sample size or None = everything)
    (g_names, 300, None),
    (g_names_full, 0, 4000),
    (g_args_shells, 420, 8000),
    (g_extra_kw, 150, 3500),
    (g_other_callees, 120, 2000),
    (g_wraps, 80, None),
    (g_configs, 260, None),
    (g_single_ids, 28, None),
    (g_paths, 180, None),
    (g_wild, 260, 3700),
    (g_dup_kw, 120, 1700),
]


def programs(rng, tier):
    out = []
    for fn, nq, nt in GROUPS:
        ps = fn()
        n = nq if tier == "quick" else nt
        if n is not None and n < len(ps):
            idx = sorted(rng.sample(range(len(ps)), n))
            ps = [ps[i] for i in idx]
        out.extend(ps)
    return out


if __name__ == "__main__":
    for t in ("quick", "thorough"):
        print(t, len(programs(random.Random(0), t)))
    for fn, _, _ in GROUPS:
        print(fn.__name__, len(fn()))
