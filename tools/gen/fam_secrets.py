"""Program generator for the "Secrets" plugin family:
B103 set_bad_file_permissions, B104 hardcoded_bind_all_interfaces, B105/B106/B107 hardcoded passwords,
B108 hardcoded_tmp_directory.

programs(rng, tier) -> list of dict(src=..., include=[ids], config=dict|None); deterministic given rng.
Every program is checked with ast.parse at generation time; unparsable combinations are dropped (bandit
would skip the file, the model has nothing to say about it)."""
import ast
import keyword
import warnings

IDS = ["B103", "B104", "B105", "B106", "B107", "B108"]

# ------------------------------------------------------------------------------------------------
# identifiers around RE_CANDIDATES = (^W$|_W_|^W_|_W$), W = pas+wo?r?d|pass(phrase)?|pwd|token|secrete?

FULL_WORDS = ["password", "pwd", "token", "secrete"]
OTHER_WORDS = ["passwd", "pasword", "paswd", "passwod", "passwrd", "passsssword", "pass", "passphrase", "secret"]


def mixed(w):
    return "".join(c.upper() if i % 2 else c for i, c in enumerate(w))


def decorations_full(w):
    return [w, "_" + w, w + "_", "_" + w + "_", "my_" + w, w + "_x", "a_" + w + "_b", "__" + w + "__",
            w.upper(), w.title(), mixed(w), "MY_" + w.upper(), "x" + w, w + "x", w + "1", w + "_1",
            "a__" + w, w + "__b", "x" + w + "_", "_" + w + "x"]


def decorations_some(w):
    return [w, "my_" + w, w + "_x", w.upper(), "x" + w, w + "s", "a_" + w + "_b"]


NEAR = ["passwordx", "xtoken", "pass_word", "pwd1", "pa_ssword", "passwor", "paword", "pasord", "passphras",
        "passphrases", "pass_phrase", "secretes", "secre", "tokens", "toke", "passwords", "compass", "com_pass",
        "pass_through", "bypass", "p", "_", "__", "pw", "pswd", "passwdd", "pass_pass", "tokensecret",
        "token_secret", "secret__token", "s", "PASS", "Pwd", "tOkEn", "pAsSwOrD", "passe", "secretee",
        "passswoord", "paswoord", "pasd", "paswrod", "username", "key", "api_key", "auth", "pass_", "_pass",
        "Pass", "pwd_pwd", "x_pwd_", "tokentoken", "token9", "_9_token", "pasw", "paswod", "paswrd", "pasod"]

# non-ASCII identifiers: the parser NFKC-normalises identifiers (U+017F -> s, U+212A -> K, fullwidth -> ASCII)
UNI_IDENT = ["pa\u017f\u017fword", "to\u212aen", "\u017fecret", "\uff50\uff57\uff44", "p\u00e4ssword",
             "\u043f\u0430\u0440\u043e\u043b\u044c", "password_\u00e9", "\u00e9_token", "toke\u0144",
             "\u017f", "PA\u017fS_x", "my_to\u212aEN"]

# subscript string keys only (not valid identifiers / not normalised there)
KEY_ONLY = ["pass", "password\n", "x_token\n", "password\n\n", "\npassword", "pass word", "my-password",
            "password ", "", "pass.word", "_pwd\n", "pa\u017f\u017fword", "to\u212aen", "PA\u017fS",
            "secret\r", "a password_ b", "a _password_ b", "x_\u017fecrete_y", "pwd\x00", "token\n_x",
            "p\u00e4ssword", "_token\u2028", "\u212a", "passphrase\n", "PASSPHRASE_", "pass\n", "pass_\n",
            "\n", "_\n", "user:password", "password:", "$password", "_pass(phrase)", "token|pwd"]


def ident_ok(n):
    return n.isidentifier() and not keyword.iskeyword(n)


def all_idents():
    out = []
    for w in FULL_WORDS:
        out += decorations_full(w)
    for w in OTHER_WORDS:
        out += decorations_some(w)
    out += NEAR + UNI_IDENT
    seen, res = set(), []
    for n in out:
        if n not in seen and ident_ok(n):
            seen.add(n)
            res.append(n)
    return res


def all_keys():
    ks = []
    for w in FULL_WORDS + OTHER_WORDS:
        ks += [w, "my_" + w, w + "_x", w.upper(), "x" + w, w + "\n", "_" + w + "_"]
    ks += KEY_ONLY + NEAR[:30]
    seen, res = set(), []
    for k in ks:
        if k not in seen:
            seen.add(k)
            res.append(k)
    return res


SELECT_IDENTS = ["password", "PASSWORD", "my_pwd", "token_x", "a_secrete_b", "Passphrase", "_pass",
                 "passwordx", "xtoken", "pass_word", "pwd1", "username", "p", "pa\u017f\u017fword"]

# ------------------------------------------------------------------------------------------------
# value kinds

VALUES = [
    "'s3cret'", "''", "b'bytes'", "b''", "f'x{y}'", "f'plain'", "f''", "f'{y}'", "None", "5", "0", "-1", "1.5",
    "2j", "True", "False", "...", "name", "g()", "x.y", "'a' + 'b'", "'a' 'b'", "\"it's\"", "'say \"hi\"'",
    "'it\\'s \"q\"'", "'multi\\nline'", "'''triple\nline'''", "('paren')", "'\u00e9\u2713\U0001d11e'", "('a', 'b')",
    "['a']", "{'a'}", "{'k': 'v'}", "'%s' % x", "'{}'.format(x)", "'0.0.0.0'", "'/tmp/x'", "'/var/tmp'",
    "'password'", "str('x')", "'x' * 3", "lambda: 'x'", "'a' if c else 'b'", "'a' or 'b'", "-'a'", "'x'[0]",
    "'tab\\there'", "'\\x00'", "'\\\\'", "'\\ud800'", "'\\U0001F600'", "'a'.upper()", "(yield)", "await_me",
    "u'unicode'", "r'raw\\n'", "rb'raw'", "not 'x'", "['a', 'b'][0]", "{**d}", "[*'ab']", "'a' == 'b'",
    "'{'", "'}'", "'%'", "' '", "'\\n'", "'x' 'y' 'z'", "('a'\n 'b')",
]
SOME_VALUES = VALUES[:12] + VALUES[14:24] + ["'/tmp/x'", "'0.0.0.0'", "'\\ud800'", "('a'\n 'b')"]
LONG_LITERAL = "'eyJhbGciOiJIUzI1NiIsInR5cCI6IkpXVCJ9." + "0123456789abcdef" * 8 + ".zz_tail_A'"      # longer than any log line budget
LONG_LITERAL2 = LONG_LITERAL[:-8] + "zz_tail_B'"                                                       # same long prefix, other tail
CORE_VALUES = [LONG_LITERAL, LONG_LITERAL2, "'s3cret'", "''", "b'bytes'", "f'x{y}'", "None", "5", "name", "g()", "'a' + 'b'", "\"it's\"",
               "'/tmp/x'", "'0.0.0.0'", "'\u00e9\u2713'", "'s3cret'", "'s3cret'", "'hunter2'"]

# ------------------------------------------------------------------------------------------------
# syntactic positions: (template, core?)   {N} identifier, {K} repr of a string key, {V} value expression

IDENT_POS = [
    # assignment to a name / attribute
    ("{N} = {V}", 1), ("x.{N} = {V}", 1), ("self.a.{N} = {V}", 0), ("f().{N} = {V}", 0),
    # multiple and tuple targets
    ("a = {N} = {V}", 1), ("{N} = b = {V}", 0), ("a = x.{N} = {V}", 1), ("a, {N} = {V}", 1),
    ("({N}, b) = {V}, {V}", 0), ("[{N}] = {V}", 0), ("*{N}, = {V}", 0), ("a = b = c = {N} = {V}", 0),
    ("x.a = y.{N} = {V}", 0), ("a[0] = {N} = {V}", 0),
    # annotated / augmented / walrus / other binders
    ("{N}: str = {V}", 1), ("x.{N}: str = {V}", 0), ("{N} += {V}", 1), ("x.{N} += {V}", 0),
    ("({N} := {V})", 1), ("y = ({N} := {V})", 0), ("for {N} in {V}: pass", 0),
    ("with open(x) as {N}: y = {V}", 0), ("class C:\n    {N} = {V}", 1),
    ("class C:\n    def m(self):\n        self.{N} = {V}", 0),
    ("{N} = (\n    {V}\n)", 1), ("{N} = \\\n    {V}", 0),
    # the literal is not the direct child of the Assign
    ("{N} = [{V}]", 0), ("{N} = {{'k': {V}}}", 0), ("{N} = {V} if c else {V}", 0), ("{N} = g({V})", 1),
    ("{N} = not {V}", 0), ("{N} = {V}.strip()", 0), ("{N} = ({V},)", 0), ("{N} = {V} + tail", 0),
    # the name is not the target itself
    ("{N}[0] = {V}", 1), ("{N}.x = {V}", 0), ("{N}().x = {V}", 0), ("x[{N}] = {V}", 0),
    # comparison
    ("{N} == {V}", 1), ("{N} != {V}", 1), ("{V} == {N}", 1), ("{N} in {V}", 1), ("{N} not in {V}", 0),
    ("{N} is {V}", 0), ("{N} < {V}", 0), ("x.{N} == {V}", 1), ("x.y.{N} != {V}", 0),
    ("{N} == other == {V}", 1), ("{N} == {V} == 'second'", 1), ("{N} == 'first' == {V}", 0),
    ("if {N} == {V}:\n    pass", 1), ("while x.{N} != {V}:\n    break", 0), ("y = {N} == {V}", 0),
    ("assert {N} == {V}", 0), ("def q():\n    return {N} == {V}", 0), ("{N}.lower() == {V}", 1),
    ("{N}() == {V}", 0), ("{N}[0] == {V}", 0), ("({N}) == ({V})", 0), ("-{N} == {V}", 0),
    ("z = lambda: {N} == {V}", 0), ("[i for i in x if i.{N} == {V}]", 0),
    ("{N} == {V} and {N} != {V}", 0), ("x.{N} == {V} == {V}", 0), ("{V} == {V} == {N}", 0),
    ("if (\n    {N}\n    ==\n    {V}\n):\n    pass", 0), ("{N}.x == {V}", 0), ("x == {N} == {V}", 0),
    # keyword argument
    ("f({N}={V})", 1), ("f(a=1, {N}={V})", 1), ("f({N}={V}, b=2)", 0), ("x.m(1, {N}={V})", 1),
    ("f(a='first', {N}={V})", 1), ("f(secret='first', {N}={V})", 0), ("f({N}={V}, **kw)", 1),
    ("f(**kw, {N}={V})", 1), ("f(**'lit', {N}={V})", 1), ("f({N}={V}, **'lit')", 1),
    ("f(**{{'a': 1}}, {N}={V})", 0), ("f(*a, {N}={V})", 0), ("f(\n    1,\n    {N}={V},\n)", 1),
    ("@d({N}={V})\ndef z(): pass", 0), ("class C(B, {N}={V}): pass", 1), ("f(g({N}={V}))", 0),
    ("f({N}=g(x={V}))", 0), ("dict({N}={V})", 0), ("f({N}={V})({N}={V})", 0), ("f(**b'lit', {N}={V})", 0),
    ("f(**f'lit', {N}={V})", 0), ("f({N}={V}, **None)", 0), ("f(x={V}, **'lit')", 0),
    # callee that is neither a name nor an attribute (the call has no static name)
    ("f()({N}={V})", 1), ("d['k']({N}={V})", 1), ("(lambda **kw: kw)({N}={V})", 1), ("f(x).g(y)({N}={V})", 0), ("(a or b)({N}={V})", 0),
    # parameter default
    ("def f({N}={V}): pass", 1), ("def f(a, {N}={V}): pass", 1), ("def f(a, b=1, {N}={V}): pass", 0),
    ("def f(a=None, {N}={V}): pass", 1), ("def f({N}={V}, b='other'): pass", 1),
    ("def f(token='first', {N}={V}): pass", 0), ("def f({N}={V}, /): pass", 1),
    ("def f(x='zzz', /, {N}={V}): pass", 1), ("def f(x, y='zzz', /, {N}={V}): pass", 0),
    ("def f(x='zzz', /, {N}=None): pass", 1), ("def f(x={V}, /, {N}=None, z=3): pass", 0),
    ("def f(x={V}, /, a=1, {N}=None): pass", 0), ("def f({N}, x={V}): pass", 1), ("def f({N}, /, x={V}): pass", 0),
    ("def f(*, {N}={V}): pass", 1), ("def f(*args, {N}={V}): pass", 1), ("def f(a, *{N}, b={V}): pass", 0),
    ("def f(**{N}): pass", 0), ("def f(a={V}, *, {N}='kw'): pass", 0), ("async def f({N}={V}): pass", 1),
    ("z = lambda {N}={V}: 0", 1), ("class C:\n    def m(self, {N}={V}): pass", 0),
    ("def f({N}: str = {V}): pass", 0), ("def f(\n    a,\n    {N}={V},\n): pass", 1),
    ("def f({N}={V}):\n    def g({N}={V}): pass", 0), ("@dec({V})\ndef f({N}={V}): pass", 0),
    ("def f(a, {N}=None, b={V}): pass", 0), ("def f(p={V}, q={V}, /, {N}={V}, r={V}): pass", 0),
    ("def {N}(a={V}): pass", 0), ("def f(a={V}) -> {N}: pass", 0),
    # positional-only / mixed layouts (defaults are shared between posonlyargs and args)
    ("def f({N}={V}, /, token='b'): pass", 1), ("def f(a, b='x', /, c='y', *, {N}={V}): pass", 0),
    ("def f(a, {N}={V}, /, c='y', *, k='z'): pass", 1), ("def f(a, b, /, c, {N}={V}): pass", 0),
    ("def f({N}, b={V}, /, c='y'): pass", 0), ("def f(a=None, /, {N}={V}, *args, k={V}, **kw): pass", 0),
    ("async def f(x='zzz', /, {N}={V}): pass", 1), ("async def f({N}={V}, /): pass", 0),
    ("z = lambda x='zzz', /, {N}={V}: 0", 0), ("z = lambda {N}={V}, /: 0", 0),
    ("class C:\n    def m(self, {N}={V}, /, other={V}): pass", 0),
    ("def f(a={V}, b={V}, /, {N}=None): pass", 0), ("def f({N}=None, /, b={V}): pass", 0),
]

KEY_POS = [
    ("d[{K}] = {V}", 1), ("d['k'][{K}] = {V}", 1), ("d[{K}]['k'] = {V}", 1), ("x = d[{K}]", 1),
    ("d[{K}] += {V}", 1), ("d[{K}]: str = {V}", 1), ("d[{K}] = e['other'] = {V}", 1),
    ("e['other'] = d[{K}] = {V}", 0), ("{K}[0] = {V}", 1), ("d[{K}:{K}] = {V}", 0), ("d[{K}, 1] = {V}", 0),
    ("del d[{K}]", 0), ("d[f{K}] = {V}", 0), ("x.y[{K}] = {V}", 0), ("f()[{K}] = {V}", 0),
    ("d[{K}] = (\n    {V}\n)", 1), ("d[{K}] == {V}", 1), ("{{{K}: {V}}}", 1), ("x = {{{K}: {V}}}", 0),
    ("d.get({K}) == {V}", 0), ("d[{K}] = {K}", 1), ("f(**{{{K}: {V}}})", 0), ("d[({K})] = {V}", 0),
    ("x = d[{K}] = {V}", 0), ("d[{K}] = x = {V}", 0), ("d[{K}] = d[{K}] = {V}", 0),
    ("for d[{K}] in {V}: pass", 0), ("with o as d[{K}]: pass", 0), ("(d[{K}], y) = {V}, 1", 0),
    ("d[\n    {K}\n] = {V}", 0), ("d[{K}] = {V}  # nosec", 0), ("d[{K}] = {V}  # nosec B105", 0),
    ("{K} == {V}", 0), ("x = {K}", 1), ("{K}", 1), ("print({K})", 0), ("def f():\n    {K}\n    return 1", 0),
    ("setattr(o, {K}, {V})", 0), ("{K}[{K}] = {V}", 0), ("d[{K}][0] = {V}", 0), ("d[0][{K}] = {V}", 0),
    ("class C:\n    d[{K}] = {V}", 0), ("d[{K}] = {V}; e[{K}] = {V}", 0),
]

CURATED = [
    # docstrings and bare expression strings
    '"""password = \'hunter2\'"""', "def f():\n    'password'\n", "class C:\n    'token'\n    x = 1",
    "'password'", "'a'; 'b'", "x = 1\n'password'\n", "('password')", "'password' 'x'", "f'password'",
    "'password'.x", "'password', 'x'", "b'password'", "async def f():\n    '''doc'''\n    await x",
    # report ordering / several findings in one statement
    "password = token = 'x'", "a.b = c.password = d = 's'", "password == 'a' == 'b'",
    "f(password='a', token='b')", "def f(password='a', token='b'): pass",
    "def f(password='a', *, token='b'): pass", "d['password'] = d['token'] = 'x'",
    "def f(a='zzz', /, password=None): pass", "def f(a='real', /, password='hunter2'): pass",
    "def f(password='hunter2', /): pass", "def f(password='hunter2', /, x=1): pass",
    "def f(pw1='a', pw2='b', /, token='c', secret='d'): pass",
    "def f(password='a', /, token='b'): pass", "def f(a, b='x', /, c='y', *, password='z'): pass",
    "z = lambda password='x': 0", "z = lambda a='zzz', /, password='x': 0",
    "async def f(password='a', /, token='b'): pass", "async def f(a='zzz', /, password=None): pass",
    "def f(a, password='x', /): pass", "def f(a, b, /, password='x'): pass",
    "def f(user='u', /, password=None, token='t'): pass", "def f(password=None, /, token='t'): pass",
    "def f(password=b'x', /, token=f'y', secret='s'): pass",
    "f(**'x')", "f(**'x', **'y')", "f(a=1, **'x')", "f(**x, **'y')", "f(password=1, **'x')",
    "f(password='p', **'x')", "f(**'x', password='p')", "f(user='u', **'x', password='p')",
    "password = 'a'  # nosec", "password = 'a'  # nosec B105", "password = 'a'  # nosec B106",
    "f(password='a')  # nosec B106", "def f(password='a'):  # nosec\n    pass",
    "password = '''a\nb'''", "password = ('a'\n            'b')", "x = {'password': 'v'}",
    "password = 'a'; token = 'b'", "if password == 'a' or token != 'b': pass",
    "match x:\n    case 'password': pass", "match password:\n    case 'x': pass",
    "type password = 'x'", "x: 'password' = 1", "def f() -> 'password': pass",
    "global password", "import password", "from password import token as secret",
    "try:\n    pass\nexcept E as password:\n    x = 'a'",
    "password = 'x' if password == 'y' else 'z'",
    "d['password']['token'] = 'x'", "d['password'] = d", "d['password'] = b'x'", "d['password'] = f'x'",
    "d['token'] = 'a' 'b'", "d[b'password'] = 'x'", "'password'['token'] = 'x'",
    "x = 'password'['token']", "d['password'] = d['token']", "d['a']['password'] = d['token'] = 'v'",
]

# ------------------------------------------------------------------------------------------------
# B108

TMP_STRINGS = ["/tmp", "/tmp/", "/tmp/x", "/tmpx", "/var/tmp/x", "/var/tmp", "/var/tm", "/dev/shm", "/dev/shm/a",
               "/dev/sh", "/var", "/", "", " /tmp", "tmp", "/TMP", "/tmp\n", "C:\\tmp", "/opt/tmp", "/opt/tmp/z",
               "/t", "x/tmp", "/private/tmp", "/custom/dir/x", "/custom", "/custo", "abc", "m", "p", "/\u00e9/tmp",
               "\u00e9", "5", "None"]
TMP_POS = ["open({S})", "x = {S}", "def f(d={S}): pass", "f'{s}{{x}}'", "{S} + name", "os.path.join({S}, 'a')",
           "b{S}", "{S}", "open(\n    {S},\n    'w',\n)", "[{S}, '/tmp']", "{S} '/suffix'", "x = {{{S}: {S}}}",
           "password = {S}", "f(token={S})", "if x == {S}: pass", "x = {S}  # nosec", "x = {S}  # nosec B108",
           "x = {S}  # nosec B104"]
TMP_CONFIGS = [
    None,
    {"hardcoded_tmp_directory": {"tmp_dirs": ["/custom", "/opt/tmp"]}},
    {"hardcoded_tmp_directory": {"tmp_dirs": []}},
    {"hardcoded_tmp_directory": {}},
    {"hardcoded_tmp_directory": {"other": 1}},
    {"hardcoded_tmp_directory": {"tmp_dirs": ["/custom", 5]}},
    {"hardcoded_tmp_directory": {"tmp_dirs": [5, "/custom"]}},
    {"hardcoded_tmp_directory": {"tmp_dirs": [None]}},
    {"hardcoded_tmp_directory": {"tmp_dirs": [["/tmp"]]}},
    {"hardcoded_tmp_directory": {"tmp_dirs": [{"/tmp": 1}]}},
    {"hardcoded_tmp_directory": {"tmp_dirs": [True, "/tmp"]}},
    {"hardcoded_tmp_directory": {"tmp_dirs": "/tmp"}},
    {"hardcoded_tmp_directory": {"tmp_dirs": ""}},
    {"hardcoded_tmp_directory": {"tmp_dirs": None}},
    {"hardcoded_tmp_directory": {"tmp_dirs": 5}},
    {"hardcoded_tmp_directory": {"tmp_dirs": True}},
    {"hardcoded_tmp_directory": {"tmp_dirs": {"/custom": 1, "/opt/tmp": 2}}},
    {"hardcoded_tmp_directory": {"tmp_dirs": {}}},
    {"hardcoded_tmp_directory": {"tmp_dirs": [""]}},
    {"hardcoded_tmp_directory": {"tmp_dirs": ["/tmp", "/tmp"]}},
    {"hardcoded_tmp_directory": {"tmp_dirs": ["/custom"], "extra": [1]}},
    {"hardcoded_tmp_directory": {"TMP_DIRS": ["/custom"]}},
    {"hardcoded_tmp_directory": ["tmp_dirs"]},
    {"hardcoded_tmp_directory": ["a", "b"]},
    {"hardcoded_tmp_directory": []},
    {"hardcoded_tmp_directory": "tmp_dirs"},
    {"hardcoded_tmp_directory": "my_tmp_dirs_x"},
    {"hardcoded_tmp_directory": "abc"},
    {"hardcoded_tmp_directory": ""},
    {"hardcoded_tmp_directory": 5},
    {"hardcoded_tmp_directory": 0},
    {"hardcoded_tmp_directory": True},
    {"hardcoded_tmp_directory": False},
    {"hardcoded_tmp_directory": None},
    {"shell_injection": {"subprocess": [], "shell": [], "no_shell": []}},
    {"hardcoded_tmp_directory": {"tmp_dirs": ["/\u00e9"]}},
    {"hardcoded_tmp_directory": {"tmp_dirs": ["/tmp/x", "/t", "m"]}},
]

# ------------------------------------------------------------------------------------------------
# B104

BIND_STRINGS = ["0.0.0.0", "0.0.0.0:80", " 0.0.0.0", "0.0.0.0 ", "0.0.0.00", "00.0.0.0", "0.0.0", "::", "127.0.0.1",
                "0\u20240\u20240\u20240", "\uff10.\uff10.\uff10.\uff10", "0.0.0.0\n", "", "0.0.0.0.", "0,0,0,0",
                "http://0.0.0.0", "0.0.0.0/0"]
BIND_POS = ["s.bind(({S}, 80))", "host = {S}", "app.run(host={S})", "def f(h={S}): pass", "f{S}", "f'{s}{{p}}'",
            "b{S}", "{S}", "x == {S}", "d[{S}] = 1", "[{S}]", "{S} + ':80'", "'%s' % {S}",
            "print({S}.split('.'))", "s.bind(\n    ({S},\n     80)\n)", "password = {S}", "f(token={S})",
            "host = {S}  # nosec", "host = {S}  # nosec B104", "x = {{{S}: {S}}}", "{S} {S}", "'0.0.' '0.0'",
            "class C:\n    HOST = {S}\n    def m(self, h={S}):\n        return h == {S}"]

# ------------------------------------------------------------------------------------------------
# B103

CHMOD_CALLEES = [
    ([], "os.chmod"), (["import os"], "os.chmod"), ([], "x.chmod"), ([], "os.fchmod"), ([], "os.lchmod"),
    ([], "mychmodx"), ([], "chmod"), (["from os import chmod"], "chmod"), (["import os as o"], "o.chmod"),
    (["from os import chmod as c"], "c"), (["from os import chmod as safe"], "safe"),
    (["import shutil as chmod"], "chmod.copy"), (["from x import y as chmod"], "chmod"),
    ([], "Path(f).chmod"), ([], "p.chmod"), ([], "os.chmod.__call__"), ([], "getattr(os, 'chmod')"),
    ([], "CHMOD"), ([], "os.Chmod"), ([], "os.chmod_x"), ([], "os.chmo"), ([], "chmod.foo"),
    ([], "a.chmodder.b"), ([], "a.b.c.d.chmod"), ([], "self.fs.lchmod"), ([], "f().chmod"), ([], "d['k'].chmod"),
    ([], "(lambda *a: 0)"), ([], "x.chmod.y"), ([], "x.y.xchmod"), (["import os.chmod as z"], "z"),
    (["from a.b import chmod"], "chmod"), (["import chmod"], "chmod.run"), ([], "ch.mod"),
    ([], "chmod_recursive"), ([], "do_fchmodat"), ([], "\uff43hmod"), ([], "c\u04bbmod"),
]
# argument layouts; {F} file expression, {M} mode expression
CHMOD_SHAPES = ["({F}, {M})", "({F})", "()", "({M})", "({F}, {M}, 1)", "({F}, mode={M})", "(path={F}, mode={M})",
                "({F}, {M}, follow_symlinks=False)", "(*a, {M})", "({F}, *m)", "({F}, {M}, **k)", "(*a, **k)",
                "({M}, {F})", "(\n    {F},\n    {M},\n)", "({F},\n    {M})", "({F}, {M}, *a)", "(*a, *b)",
                "({F}, {M}, dir_fd=None)", "(mode={M}, *[{F}, 1])", "({F}, {M}, **'x')", "({F}, {M})  # nosec",
                "({F}, {M})  # nosec B103", "({F}, {M})  # nosec B108"]
CHMOD_MODES = ["0o777", "0o644", "0o600", "0o20", "0o10", "0o2", "0o1", "0o4", "0o40", "0o100", "0o200", "0o400",
               "0", "511", "0x1ff", "0b10", "0o7_7_7", "-1", "-0o777", "+0o777", "~0", "True", "False", "None",
               "'0o777'", "'511'", "b'\\x01'", "511.0", "2.0", "511j", "stat.S_IRWXU", "stat.S_IWOTH", "mode",
               "0o777 | 0o1", "int('777', 8)", "(0o777)", "[0o777]", "(0o777,)", "{0o777}", "{[1]}", "{}", "...",
               "0o1000", "0o7000", "0o10000", "0o177775", "0o177777", "2147483650", "18446744073709551618",
               "1000000000000000000000000000001", "1000000000000000000000000000004", "4294967296", "0o33", "0o744",
               "0o755", "0o664", "0o660", "0o611", "0o604", "0o602", "0o601", "0o640", "0o650", "0o670", "f'{m}'",
               "m.mode", "x.S_IWOTH", "not 1", "1 if c else 2", "(1, 2)", "{1: 2}", "{(1, [2])}"]
# file expressions the message can render
CHMOD_FILES = ["'/etc/passwd'", "''", "path", "f()", "None", "5", "0", "-5", "1.5", "2j", "1e999", "True", "False",
               "b'/x'", "b\"it's\"", "b'q\"uote\\''", "b'\\x00\\xff\\t\\n\\r\\\\\\x7f~ '", "b''", "b'\"'", "x.y",
               "x.y.z", "self.path", "f().name", "'/tmp/x'", "f'{x}'", "f'/tmp/{x}'", "'a' + b", "...", "*a",
               "'\u00e9\u2713'", "'NOT PARSED'", "'a\\nb'", "'%s'", "'0.0.0.0'", "(\n    '/x'\n)", "lambda: 0",
               "x[0]", "-x", "not x", "1_000", "0o17", "0.1", "1e3", "1e16", "1e-7", "1.0j", "-0.0", "(1+2j)",
               "x.__class__", "os.path.join('a', 'b')", "str", "'pass'", "password"]
# first arguments whose str() embeds container / AST-object reprs: only used with modes that do not fire,
# or where the crash comes first
CHMOD_CONTAINER_FILES = ["('t',)", "['l']", "{'s'}", "{'d': 1}", "[]", "()", "{**a}", "[x, 1]", "(1, 2)",
                         "{'k': {[1]}}", "[{[1]}]", "({[1]},)", "{1, {}}", "{1, [2]}", "{'a', ('b', [1])}", "{*a}"]
# set displays with unhashable elements (skipped by _get_literal_value) and empty containers: str() is
# 'set()', '[]', '()', '{}' -- rendered exactly by the model
CHMOD_CRASH_FILES = ["{[1]}", "{{1}}", "{(1, [2])}", "{{}}", "{[], {}}", "[]", "()", "{}"]


def P(src, include=None, config=None):
    return {"src": src if src.endswith("\n") else src + "\n", "include": list(include or IDS), "config": config}


def parses(src):
    try:
        with warnings.catch_warnings():
            warnings.simplefilter("ignore")
            ast.parse(src)
        return True
    except (SyntaxError, ValueError, RecursionError, MemoryError):
        return False


def fill(t, **kw):
    out = t
    for k, v in kw.items():
        out = out.replace("{" + k + "}", v)
    return out.replace("{{", "{").replace("}}", "}")


def password_programs(rng):
    """groups of (tag, program) for B105/B106/B107"""
    idents = all_idents()
    keys = all_keys()
    groups = {"curated": [], "A": [], "B": [], "C": [], "D": [], "E": []}
    for s in CURATED:
        groups["curated"].append(P(s))
    core = [t for t, c in IDENT_POS if c]
    allp = [t for t, _ in IDENT_POS]
    k = 0
    # A: every identifier x every core position, value rotating
    for i, n in enumerate(idents):
        for j, t in enumerate(core):
            if (i + j) % 3 == 2:
                continue
            v = CORE_VALUES[k % len(CORE_VALUES)]
            k += 1
            groups["A"].append(P(fill(t, N=n, V=v)))
    # B: selected identifiers x every position
    for n in SELECT_IDENTS:
        if not ident_ok(n):
            continue
        for t in allp:
            v = ["'s3cret'", "\"it's\"", "''"][k % 3]
            k += 1
            groups["B"].append(P(fill(t, N=n, V=v)))
    # C: every position x every value kind, one matching name; core positions also with a non-matching one
    for t, c in IDENT_POS:
        for v in (VALUES if c else SOME_VALUES):
            groups["C"].append(P(fill(t, N="password", V=v)))
            if c:
                groups["C"].append(P(fill(t, N="username", V=v)))
    # D: every key x every key position (value rotating)
    for i, key in enumerate(keys):
        for t, c in KEY_POS:
            if not c and i % 6 != 1 and key not in KEY_ONLY[:16]:
                continue
            v = CORE_VALUES[k % len(CORE_VALUES)]
            k += 1
            groups["D"].append(P(fill(t, K=repr(key), V=v)))
    # E: key positions x every value kind
    for t, c in KEY_POS:
        for v in (VALUES if c else SOME_VALUES):
            groups["E"].append(P(fill(t, K="'password'", V=v)))
            if c:
                groups["E"].append(P(fill(t, K="'x_token\\n'", V=v)))
    return groups


def tmp_programs(rng):
    out = {"tmp_default": [], "tmp_cfg": []}
    for s in TMP_STRINGS:
        for t in TMP_POS:
            out["tmp_default"].append(P(fill(t, S=repr(s), s=s.replace("\\", "\\\\").replace("\n", "\\n").replace("'", "\\'"))))
    for cfg in TMP_CONFIGS:
        for s in TMP_STRINGS:
            for t in ("open({S})", "x = [{S}, '/tmp/y', '/custom/z', 'm']"):
                out["tmp_cfg"].append(P(fill(t, S=repr(s)), IDS, cfg))
    # only B108 selected
    for cfg in TMP_CONFIGS[:6]:
        out["tmp_cfg"].append(P("open('/tmp/a')\nopen('/custom/b')\n", ["B108"], cfg))
    return out


def bind_programs(rng):
    out = {"bind": []}
    for s in BIND_STRINGS:
        for t in BIND_POS:
            out["bind"].append(P(fill(t, S=repr(s), s=s.replace("\n", "\\n"))))
    out["bind"].append(P("s.bind(('0.0.0.0', 1))\n", ["B104"]))
    out["bind"].append(P("s.bind(('0.0.0.0', 1))\n", ["B108"]))
    return out


def spell(m, how):
    if how == 0:
        return "0o%o" % m
    if how == 1:
        return "%d" % m
    if how == 2:
        return "0x%x" % m
    if how == 3:
        return "0b%s" % bin(m)[2:]
    return "0o%04o" % m


def chmod_programs(rng, tier):
    out = {"chmod_sweep": [], "chmod_shapes": [], "chmod_modes": [], "chmod_files": [], "chmod_crash": []}
    # every 12-bit mode once; 4 calls per program, callee / file / spelling rotating
    sweep_callees = ["os.chmod", "x.chmod", "os.fchmod", "os.lchmod", "mychmodx", "p.chmod"]
    sweep_files = ["'/etc/passwd'", "path", "f()", "None", "5", "x.y", "b'/x'", "''", "1.5"]
    lines = []
    for m in range(4096):
        call = "%s(%s, %s)" % (sweep_callees[m % len(sweep_callees)], sweep_files[(m // 7) % len(sweep_files)],
                               spell(m, (m // 3) % 5))
        lines.append(call)
        if len(lines) == 4:
            out["chmod_sweep"].append(P("import os\n" + "\n".join(lines)))
            lines = []
    # a second sweep: mode as keyword / third layouts (never fires, or fires with extra keyword)
    lines = []
    for m in range(0, 4096, 1):
        shape = ["({F}, mode={M})", "({F}, {M}, follow_symlinks=False)", "({M}, {F})", "({F}, {M}, 1)"][m % 4]
        if m % 8 >= 4 and tier != "thorough":
            continue
        lines.append("os.chmod" + fill(shape, F="'f%d'" % m, M=spell(m, m % 5)))
        if len(lines) == 8:
            out["chmod_sweep"].append(P("\n".join(lines)))
            lines = []
    if lines:
        out["chmod_sweep"].append(P("\n".join(lines)))
    k = 0
    for imps, callee in CHMOD_CALLEES:
        for sh in CHMOD_SHAPES:
            m = ["0o777", "0o644", "0o20", "0o611"][k % 4]
            f = ["'/etc/passwd'", "path", "f()", "x.y"][(k // 4) % 4]
            k += 1
            out["chmod_shapes"].append(P("\n".join(imps + [callee + fill(sh, F=f, M=m)])))
        # a non-call attribute / name reference
        out["chmod_shapes"].append(P("\n".join(imps + ["z = %s" % callee, "z('/x', 0o777)"])))
    for sh in CHMOD_SHAPES:
        for m in CHMOD_MODES:
            out["chmod_modes"].append(P("os.chmod" + fill(sh, F="'/x'", M=m)))
    for f in CHMOD_FILES:
        for m in ("0o777", "0o710", "0o600", "0o1"):
            for sh in ("({F}, {M})", "({F}, {M}, follow_symlinks=False)"):
                out["chmod_files"].append(P("os.chmod" + fill(sh, F=f, M=m)))
    for f in CHMOD_CONTAINER_FILES:
        for m in ("0o600", "0o4", "'0o777'", "-1", "mode"):
            out["chmod_crash"].append(P("os.chmod(%s, %s)" % (f, m)))
    for f in CHMOD_CRASH_FILES:
        for m in ("0o777", "0o600", "0o1", "{[1]}", "None"):
            out["chmod_crash"].append(P("os.chmod(%s, %s)" % (f, m)))
            out["chmod_crash"].append(P("os.chmod('/x', %s)\nos.chmod(%s, 0o2)\nx.chmod(1, 2)" % (f, f)))
    # chmod used in non-call positions, nested calls, decorators
    for s in ["os.chmod", "x = os.chmod", "os.chmod('/x', 0o777).y", "f(os.chmod('/x', 0o777))",
              "@os.chmod('/x', 0o777)\ndef f(): pass", "os.chmod(os.chmod('/a', 0o2), 0o20)",
              "with os.chmod('/x', 0o777): pass", "lambda: os.chmod('/x', 0o777)",
              "class C(os.chmod('/x', 0o777)): pass", "os.chmod('/x', 0o777); os.chmod('/y', 0o770)",
              "def chmod(a, b=0o777): pass", "chmod = 0o777", "os.chmod(password='x', mode=0o777)",
              "os.chmod('/tmp/x', 0o777)", "os.chmod('0.0.0.0', 0o777)", "os.chmod(token, 0o777, secret='s')",
              "x.chmod('/tmp/a', 0o2, password='p', **'q')"]:
        out["chmod_crash"].append(P(s))
    # (kept with the crash group, which is never sampled away) the call reached through an alias while a method / an inner
    # function / a nested class of the alias's name exists: those do not rebind the module-level name
    for imp, callee in (("from os import chmod", "chmod"), ("from os import chmod as zz_set_mode", "zz_set_mode"), ("import os as zz_o", "zz_o.chmod")):
        nm = callee.split(".")[0]
        for shadow in ("class ZzK:\n    def %s(self, *zz_a):\n        return zz_a" % nm, "def zz_outer():\n    def %s():\n        pass\n    return 1" % nm,
                       "class ZzK:\n    class %s:\n        pass" % nm):
            out["chmod_crash"].append(P("\n".join([imp, shadow, "%s('/x', 0o777)" % callee, "%s('/y', 0o640)" % callee, "%s('/z', 0o620)" % callee])))
    # temp-directory literals as the value of every kind of keyword, whatever the callee
    for callee in ("zz_save", "zz_o.cache", "dict", "tempfile.mkstemp", "open"):
        out["chmod_crash"].append(P("\n".join(["import tempfile", "%s(zz_b, dir='/tmp/zz_up')" % callee, "%s(dir='/var/tmp/zz_c', prefix='/dev/shm/zz_p')" % callee,
                                               "%s(zz_b, suffix='/tmp/zz_s', zz_other='/tmp/zz_o')" % callee])))
    return out


QUOTA = {"curated": None, "A": 330, "B": 160, "C": 330, "D": 200, "E": 160, "tmp_default": 90, "tmp_cfg": 170,
         "bind": 70, "chmod_sweep": 60, "chmod_shapes": 110, "chmod_modes": 120, "chmod_files": 80,
         "chmod_crash": None}


def programs(rng, tier):
    groups = {}
    groups.update(password_programs(rng))
    groups.update(tmp_programs(rng))
    groups.update(bind_programs(rng))
    groups.update(chmod_programs(rng, tier))
    out = []
    seen = set()
    for name in sorted(groups):
        g = []
        for p in groups[name]:
            key = (p["src"], tuple(p["include"]), repr(p["config"]))
            if key in seen:
                continue
            seen.add(key)
            g.append(p)
        if tier != "thorough" and QUOTA.get(name) is not None and len(g) > QUOTA[name]:
            idx = sorted(rng.sample(range(len(g)), QUOTA[name]))
            g = [g[i] for i in idx]
        g = [p for p in g if parses(p["src"])]
        out.extend(g)
    return out
