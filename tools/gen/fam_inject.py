"""Generator for the "inject" plugin family: B608 hardcoded_sql_expressions, B610 django_extra_used,
B611 django_rawsql_used, B701 jinja2_autoescape_false, B702 use_of_mako_templates,
B703 django_mark_safe, B704 markupsafe_markup_xss.

programs(rng, tier) -> list of dict(src=..., include=[ids], config=dict|None); deterministic given rng."""

ALL = ["B608", "B610", "B611", "B701", "B702", "B703", "B704"]

# every literal kind the guide asks for, as call arguments
LITERALS = ["'s'", "''", "b'b'", "0", "1", "-1", "1.5", "2j", "True", "False", "None", "...",
            "[]", "['a']", "()", "('a',)", "set()", "{'a'}", "{[1]}", "{}", "{'a': 'b'}",
            "nm", "nm.attr", "fn()", "f'{nm}'", "f'plain'", "'a%s' % nm", "'a' + nm", "'a{}'.format(nm)",
            "'a' 'b'", "lambda: 0", "[nm for nm in y]", "nm if y else 's'", "not nm", "-nm", "nm[0]"]
ARG_SHAPES = ["", "*a", "**k", "**{'x': 1}", "**'x'", "*a, **k", "1, 2, 3", "nm, *a"]


def prog(src, ids, config=None):
    if not src.endswith("\n"):
        src += "\n"
    return {"src": src, "include": list(ids), "config": config}


def chunks(l, n):
    return [l[i:i + n] for i in range(0, len(l), n)]


def pick(rng, full, k):
    """k items of full, deterministic, keeping order; everything when k >= len(full)."""
    if k >= len(full):
        return list(full)
    idx = sorted(rng.sample(range(len(full)), k))
    return [full[i] for i in idx]


# ---------------------------------------------------------------------------------------------------
# B608

# (head, tail): head+tail together is the candidate SQL text; split so that constructions can put a
# non-literal in the middle.  Some match SIMPLE_SQL_RE, some are near misses.
SQL_TEXTS = [
    ("select * ", "from t where id = "),
    ("SELECT a\\n", "FROM\\tb "),
    ("select ", "from "),
    ("selectx ", "from t "),
    ("select * ", "fromx t "),
    ("select * ", "from"),
    ("reselect a ", "from b "),
    ("\\u017felect x ", "from y "),
    ("delete ", "from t where "),
    ("DELETE  \\n", "From\\nt"),
    ("delete", "from t "),
    ("delete * ", "from t "),
    ("insert into t ", "values ("),
    ("INSERT  INTO t (a, b)\\n", "VALUES\\n"),
    ("insert into t (a) ", "values"),
    ("insert t ", "values ("),
    ("insert intox ", "values ("),
    ("update t ", "set x = "),
    ("UPDATE\\tt\\n", "SET\\nx"),
    ("update t", "set x "),
    ("updates t ", "set x "),
    ("xupdate t ", "set x "),
    ("update t ", "reset "),
    ("hello ", "world "),
    ("", ""),
    ("select * from t where a = ", " and b = "),
]


def q(s):
    return '"' + s + '"'


def sql_constructions(h, t):
    """(name, expression) pairs building a string out of the two pieces and non-literals."""
    w = h + t
    H, T, W = q(h), q(t), q(w)
    out = [
        ("plain", W),
        ("implicit_concat", "%s %s" % (H, T)),
        ("add_right", "%s + x" % W),
        ("add_left", "x + %s" % W),
        ("add_mid", "%s + x + %s" % (H, T)),
        ("add_mid_paren", "%s + (x + %s)" % (H, T)),
        ("add_two_groups", "(%s + x) + ('b' + %s)" % (H, T)),
        ("add_chain4", "'a' + %s + x + %s + y" % (H, T)),
        ("add_lits", "%s + %s" % (H, T)),
        ("mod_name", "%s %% x" % q(w + "%s")),
        ("mod_tuple", "%s %% (x, y)" % q(h + "%s " + t + "%s")),
        ("mod_dict", "%s %% {'a': x}" % q(w + "%(a)s")),
        ("mod_then_add", "(%s %% x) + %s" % (q(h + "%s"), T)),
        ("mod_right_lit", "x %% %s" % W),
        ("mul", "%s * 2" % W),
        ("format", "%s.format(x)" % q(w + "{}")),
        ("format_kw", "%s.format(a=x)" % q(w + "{a}")),
        ("format_noargs_attr", "%s.format" % W),
        ("format_then_add", "%s.format(x) + %s" % (q(h + "{}"), T)),
        ("format_of_add", "(%s + %s).format(x)" % (H, T)),
        ("format_strip", "%s.format(x).strip()" % W),
        ("replace", "%s.replace('a', x)" % W),
        ("replace_attr", "%s.replace" % W),
        ("upper", "%s.upper()" % W),
        ("join", "''.join([%s, x])" % W),
        ("fstr_first", 'f"%s{x}"' % w),
        ("fstr_second", 'f"{x}%s"' % w),
        ("fstr_split", 'f"%s{x}%s"' % (h, t)),
        ("fstr_split3", 'f"{y}%s{x}%s{z}"' % (h, t)),
        ("fstr_only", 'f"%s"' % w),
        ("fstr_spec", 'f"{x:%s}"' % w.replace("\\n", " ").replace("\\t", " ")),
        ("fstr_nested", "f\"{f'%s{x}'}\"" % w.replace("'", "")),
        ("fstr_add", 'f"%s{x}" + %s' % (h, T)),
        ("add_fstr", '%s + f"{x}"' % W),
        ("fstr_concat", '%s f"{x}" %s' % (H, T)),
        ("ifexp", "%s if x else 'b'" % W),
        ("boolop", "x or %s" % W),
        ("compare", "%s == x" % W),
        ("subscript", "%s[0]" % W),
        ("bytes", "b%s + x" % W.replace("\\u017f", "s")),
        ("multiline_add", "(%s\n    + x\n    + %s)" % (H, T)),
        ("multiline_mod", "(%s\n    %s %%\n    x)" % (H, q(t + "%s"))),
        ("multiline_format", "%s.format(\n    x,\n)" % q(w + "{}")),
    ]
    return out


# {E} is replaced by the expression; multi-line expressions keep their own line breaks
SQL_PLACEMENTS = [
    "{E}",
    "qq = {E}",
    "cursor.execute({E})",
    "cursor.executemany({E}, rows)",
    "cursor.execute(\n    {E},\n    params)",
    "execute({E})",
    "executemany({E})",
    "conn.cursor().execute({E})",
    "self.db.cursor.execute({E}).fetchall()",
    "foo({E})",
    "cursor.executes({E})",
    "cursor.Execute({E})",
    "cursor.execute.foo({E})",
    "execute.bar({E})",
    "cursor.execute(sql={E})",
    "cursor.execute(x, {E})",
    "cursor.execute(*[{E}])",
    "cursor.execute(({E}))",
    "cursor.execute([{E}])",
    "cursor.execute[{E}]",
    "cursor.execute(foo({E}))",
    "fns[0]({E})",
    "def ff():\n    return {E}",
    "async def co():\n    await cursor.execute({E})",
    "ll = [{E}, 1]",
    "dd = {{'k': {E}}}",
    "gg = lambda: {E}",
    "if {E}:\n    pass",
    "cursor.execute({E})  # nosec",
    "cursor.execute({E})  # nosec B608",
    "cursor.execute({E})  # nosec B101",
    "class K:\n    attr = {E}\n    def m(self):\n        self.c.execute({E})",
]


def place(tpl, e):
    # indent continuation lines of a multi-line expression to stay syntactically valid everywhere
    return tpl.replace("{E}", e).replace("{{", "{").replace("}}", "}")


def sql_programs(rng, tier):
    full = []
    for (h, t) in SQL_TEXTS:
        for (cname, e) in sql_constructions(h, t):
            for grp in chunks(SQL_PLACEMENTS, 8):
                body = []
                for tpl in grp:
                    if "\n" in e and ("\n" in tpl and not tpl.startswith("cursor.execute(\n")):
                        continue          # multi-line expression inside an indented block: skip
                    body.append(place(tpl, e))
                full.append(prog("\n".join(body), ["B608"]))
    # long statements: the keyword that makes the text look like SQL lies thousands of characters into the literal
    cols = ", ".join("zz_col_%03d" % i for i in range(260))
    longs = [prog("zz_q = 'SELECT %s FROM zz_t WHERE zz_a = %%s' %% zz_x\ncursor.execute('SELECT %s FROM zz_t WHERE zz_a = ' + zz_x)\n" % (cols, cols), ["B608"]),
             prog("zz_q = 'INSERT INTO zz_t (%s) VALUES (%%s)' %% zz_x\n" % cols, ["B608"]),
             prog("zz_q = '-- %s\\nDELETE FROM zz_t WHERE zz_a = {}'.format(zz_x)\n" % ("x" * 2100), ["B608"])]
    for lp in longs:
        lp["keep"] = True
        lp["no_model"] = True         # the regex model needs minutes per kilobyte: these are for the statement-level oracle
    if tier == "quick":
        # every construction with the first text in every placement, then a sample of the rest
        n_c = len(sql_constructions("a", "b"))
        per_text = n_c * len(chunks(SQL_PLACEMENTS, 8))
        return longs + full[:per_text] + pick(rng, full[per_text:], 260)
    return longs + full


# ---------------------------------------------------------------------------------------------------
# B610

LISTISH = ["['a']", "[]", "['a', 'b']", "('a',)", "['a', x]", "[x]", "['a %s' % x]", "['a{}'.format(x)]",
           "[f'a{x}']", "[f'a']", "x", "'a'", "[b'a']", "[1]", "[None]", "[*x]", "['a' 'b']", "None",
           "[a for a in x]", "list(x)", "['a'] + x", "[['a']]", "['select * from t where %s ' % x]",
           "[\n    'a',\n    'b',\n]", "[\n    'a',\n    x,\n]"]
DICTISH = ["{'a': 'b'}", "{}", "{'a': x}", "{x: 'a'}", "{**x}", "{'a': 'b', **x}", "{'a': 1}", "{1: 'a'}",
           "x", "dict(a='b')", "['a']", "{'a'}", "{'a': 'b', 'c': 'd'}", "{'a': f'{x}'}", "{'a': 'b' % x}",
           "None", "{\n    'a': 'b',\n    'c': x,\n}"]
EXTRA_FUNCS = [([], "q.extra"), ([], "Model.objects.filter(a=1).extra"), ([], "extra"),
               (["from m import extra"], "extra"), (["from m import other as extra"], "extra"),
               (["from m import extra as ex"], "ex"), (["import m as q"], "q.extra"),
               ([], "q.extras"), ([], "q.Extra"), ([], "q.extra.now"), ([], "q.extra_"), ([], "q.extra()")]


def extra_calls():
    out = []
    for v in LISTISH:
        out += ["F(where=%s)" % v, "F(tables=%s)" % v, "F({'a': 'b'}, %s)" % v,
                "F({'a': 'b'}, ['w'], None, %s)" % v, "F(params=%s)" % v, "F(order_by=%s)" % v,
                "F(where=['w'], tables=%s)" % v, "F(where=%s, tables=x)" % v]
    for v in DICTISH:
        out += ["F(select=%s)" % v, "F(%s)" % v, "F(%s, ['w'])" % v, "F(where=['w'], select=%s)" % v,
                "F(where=[x], select=%s)" % v, "F(select_params=%s)" % v]
    out += ["F()", "F(*a)", "F(**k)", "F(*a, **k)", "F(**{'where': [x]})", "F(**'x')",
            "F({'a': 'b'}, ['w'], ['p'], ['t'], ['o'], ['sp'])", "F({'a': 'b'}, ['w'], [x], ['t'], [x], [x])",
            "F({'a': 'b'}, ['w'], ['p'], ['t'], ['o'], ['sp'], x)", "F(x, ['w'], ['p'], ['t'])",
            "F({'a': 'b'}, ['w'], ['p'], x)", "F({'a': 'b'}, x, ['p'], ['t'])",
            "F({'a': 'b'}, where=[x])", "F({'a': x}, select={'a': 'b'})", "F({'a': 'b'}, select={'a': x})",
            "F({'a': 'b'}, ['w'], where=[x])", "F({'a': 'b'}, [x], where=['w'])",
            "F(\n    select={'a': 'b'},\n    where=[\n        x\n    ],\n)",
            "F(\n    where=['a'],\n    tables=['b'],\n)",
            "F(where=['w'], **k)", "F(*a, where=[x])", "F(['w'], *a)",
            "F(where=['w'])  # nosec", "F(where=[x])  # nosec", "F(where=[x])  # nosec B610",
            "F(where=[x]).F(where=['w'])", "F(F(where=[x]))", "g(F(tables=x))"]
    for lit in LITERALS:
        out += ["F(where=%s)" % lit, "F(%s)" % lit]
    return out


def extra_programs(rng, tier):
    calls = extra_calls()
    full = []
    for (imps, f) in EXTRA_FUNCS:
        cs = calls if f in ("q.extra", "extra", "ex") and not imps[:1] == ["from m import other as extra"] \
            else calls[::7]
        for grp in chunks(cs, 10):
            body = list(imps) + [c.replace("F(", f + "(") for c in grp]
            full.append(prog("\n".join(body), ["B610"] if len(full) % 3 else ["B608", "B610", "B611"]))
    if tier == "quick":
        return full[:len(chunks(calls, 10))] + pick(rng, full[len(chunks(calls, 10)):], 25)
    return full


# ---------------------------------------------------------------------------------------------------
# B611

RAW_IMPORTS = [
    (["from django.db.models.expressions import RawSQL"], "RawSQL"),
    (["from django.db.models import RawSQL"], "RawSQL"),
    (["from django.db.models.expressions import RawSQL as R"], "R"),
    (["import django.db.models as m"], "m.RawSQL"),
    (["import django.db.models"], "django.db.models.RawSQL"),
    (["import django.db.models.expressions"], "django.db.models.expressions.RawSQL"),
    (["from django.db import models"], "models.RawSQL"),
    (["from django.db import models as mm"], "mm.expressions.RawSQL"),
    (["from django.db.models import expressions"], "expressions.RawSQL"),
    (["from django.db.models import Q"], "RawSQL"),
    (["from mydjango.db.models.x import y"], "RawSQL"),
    (["import django"], "django.db.models.RawSQL"),
    (["from django.db.model import RawSQL"], "RawSQL"),
    (["from django.db import connection"], "RawSQL"),
    ([], "RawSQL"),
    (["from django.db.models.expressions import RawSQL"], "RawSQL_"),
    (["from django.db.models.expressions import RawSQL"], "rawsql"),
    (["from django.db.models.expressions import RawSQL"], "x.RawSQL"),
    (["from django.db.models.expressions import RawSQL"], "RawSQL.as_sql"),
    (["from django.db.models.expressions import Func as RawSQL"], "RawSQL"),
]


def rawsql_calls():
    out = ["F('select 1', [])", "F(x, [])", "F()", "F(sql='a')", "F(sql=x)", "F(params=[])", "F(*a)", "F(**k)",
           "F(**{'sql': 'x'})", "F(**'x')", "F('a %s' % x, [])", "F('a' 'b', [])", "F('a' + x, [])",
           "F('a{}'.format(x), [])", "F(f'a{x}', [])", "F(f'a', [])", "F(params=[], sql='a')",
           "F(params=[], sql=x)", "F([], sql='a')", "F(x, sql='a')", "F('a', sql=x)", "F(*a, sql='a')",
           "F(sql='a', **k)", "F(**k, sql=x)", "F(\n    'select',\n    [],\n)", "F(\n    sql=x,\n    params=[],\n)",
           "F(\n    x\n)  # nosec", "F(x)  # nosec B611", "F(x)  # nosec B610", "q.annotate(v=F(x, []))",
           "q.annotate(v=F('lit', []))", "F(F(x))", "F(F('a'))", "F(F())"]
    for lit in LITERALS:
        out += ["F(%s)" % lit, "F(sql=%s)" % lit]
    return out


def rawsql_programs(rng, tier):
    calls = rawsql_calls()
    full = []
    for (imps, f) in RAW_IMPORTS:
        for grp in chunks(calls, 6):
            body = list(imps) + [c.replace("F(", f + "(") for c in grp]
            full.append(prog("\n".join(body), ["B611"] if len(full) % 4 else ["B608", "B610", "B611"]))
    # the import arriving after / between the calls
    full.append(prog("RawSQL(x)\nfrom django.db.models.expressions import RawSQL\nRawSQL(x)\nRawSQL()", ["B611"]))
    full.append(prog("def f():\n    from django.db import models\n    return models.RawSQL(x)\nRawSQL(y, [])", ["B611"]))
    if tier == "quick":
        n = len(chunks(calls, 6))
        return full[:n] + pick(rng, full[n:], 60)
    return full


# ---------------------------------------------------------------------------------------------------
# B701

JINJA_NAMES = [
    (["import jinja2"], "jinja2.Environment"),
    (["import jinja2 as j"], "j.Environment"),
    (["from jinja2 import Environment"], "Environment"),
    (["from jinja2 import Environment as E"], "E"),
    (["from jinja2 import sandbox"], "sandbox.SandboxedEnvironment"),
    (["from jinja2 import sandbox"], "sandbox.Environment"),
    (["import jinja2.environment"], "jinja2.environment.Environment"),
    (["from jinja2.environment import Environment"], "Environment"),
    ([], "Environment"),
    ([], "jinja2.Environment"),
    ([], "x.jinja2.Environment"),
    (["import myjinja2"], "myjinja2.Environment"),
    (["import jinja2"], "jinja2.Template"),
    (["import jinja2"], "jinja2.Environment.from_string"),
    (["import jinja2"], "jinja2.environment"),
    (["import jinja2"], "jinja2.Environments"),
    (["from jinja import Environment"], "Environment"),
    (["from jinja2 import Template as Environment"], "Environment"),
    (["import jinja2"], "jinja2.Environment()"),
    (["import jinja2"], "jinja2.nativetypes.NativeEnvironment"),
]
AUTOESCAPE = ["False", "True", "0", "1", "None", "'false'", "''", "x", "x.y", "select_autoescape()",
              "select_autoescape(['html', 'xml'])", "jinja2.select_autoescape(['html'])",
              "jinja2.utils.select_autoescape()", "foo()", "foo.bar()", "foo.select_autoescape",
              "select_autoescape", "select_autoescape()()", "lambda n: True", "not True", "not False",
              "True if x else False", "bool(0)", "[False]", "f(autoescape=False)", "f(autoescape=True)",
              "...", "b''", "-1", "1.5", "{}", "[]", "x[0]", "x == 1"]


def jinja_calls():
    out = ["F()", "F(loader=x)", "F(x, y)", "F(*a)", "F(**k)", "F(**{'autoescape': False})", "F(**{'autoescape': True})",
           "F(**'x')", "F(autoescape)", "F(False)", "F('autoescape')",
           "F(loader=L(autoescape=False), autoescape=True)", "F(autoescape=True, loader=L(autoescape=False))",
           "F(loader=L(autoescape=False))", "F(loader=L(autoescape=True))",
           "F(L(autoescape=True), autoescape=False)", "F(L(autoescape=x))",
           "F(f(g(autoescape=True)), h(autoescape=False))", "F(h(autoescape=False), f(g(autoescape=True)))",
           "F(f(g(autoescape=False)), h(autoescape=True))", "F(f(g(h(autoescape=x))), k=[i(autoescape=True)])",
           "F(x=[i(autoescape=True)], y=f(g(autoescape=False)))",
           "F(autoescape=lambda n: L(autoescape=False))", "F(loader=[L(autoescape=y) for y in z])",
           "F(**{'a': L(autoescape=False)})", "F(*[L(autoescape=False)], autoescape=True)",
           "F(auto_escape=False)", "F(Autoescape=False)", "F(autoescape_=False)", "F(extensions=[], autoescape=False)",
           "F(autoescape=False, extensions=[])", "F(autoescape=False, **k)", "F(*a, autoescape=True)",
           "F(\n    loader=x,\n    autoescape=False,\n)", "F(\n    loader=x,\n    autoescape=\n        True,\n)",
           "F(\n    loader=x,\n    autoescape=y\n)", "F(\n    loader=x\n)", "F(\n)  # nosec", "F()  # nosec B701",
           "F(autoescape=False)  # nosec", "F(autoescape=x)  # nosec B702", "F(F(autoescape=True))",
           "F(F(autoescape=False), autoescape=True)", "F(autoescape=F())", "F().from_string(x)",
           "F(autoescape=False).get_template(t)", "g(F(autoescape=x))", "[F(), F(autoescape=True)]"]
    out += ["F(autoescape=%s)" % v for v in AUTOESCAPE]
    out += ["F(loader=x, autoescape=%s)" % v for v in AUTOESCAPE[:12]]
    for sh in ARG_SHAPES:
        out.append("F(%s)" % sh)
    for lit in LITERALS:
        out.append("F(%s)" % lit)
    return out


def named_call_programs(names, calls, ids, rng, tier, group, extra_imports=(), quick_sample=40, other_ids=None):
    full = []
    for (imps, f) in names:
        for grp in chunks(calls, group):
            body = list(extra_imports) + list(imps) + [c.replace("F(", f + "(") for c in grp]
            use = ids if (other_ids is None or len(full) % 5) else other_ids
            full.append(prog("\n".join(body), use))
    if tier == "quick":
        n = len(chunks(calls, group))
        return full[:n] + pick(rng, full[n:], quick_sample)
    return full


def jinja_programs(rng, tier):
    return named_call_programs(JINJA_NAMES, jinja_calls(), ["B701"], rng, tier, 8,
                               extra_imports=["from jinja2 import select_autoescape"], quick_sample=60,
                               other_ids=["B701", "B702", "B704"])


# ---------------------------------------------------------------------------------------------------
# B702

MAKO_NAMES = [
    (["from mako.template import Template"], "Template"),
    (["from mako.template import Template as T"], "T"),
    (["import mako.template"], "mako.template.Template"),
    (["import mako.template as mt"], "mt.Template"),
    (["from mako import template"], "template.Template"),
    (["from mako import template as tt"], "tt.Template"),
    (["import mako"], "mako.template.Template"),
    (["import mako as mk"], "mk.template.Template"),
    (["import mako.lookup"], "mako.lookup.TemplateLookup"),
    (["from mako.lookup import TemplateLookup"], "TemplateLookup"),
    (["from mako import lookup"], "lookup.TemplateLookup"),
    (["from mako.lookup import TemplateLookup as Template"], "Template"),
    (["import mako"], "mako.Template"),
    ([], "Template"),
    ([], "mako.template.Template"),
    ([], "x.mako.y.Template"),
    (["import makos"], "makos.template.Template"),
    (["from mako.template import Template"], "Template.render"),
    (["from mako.template import Template"], "Templates"),
    (["from mako.template import Template"], "template"),
    (["from mako.template import Template"], "Template()"),
    (["from mako.template import Template"], "Template(x).render"),
    (["from jinja2 import Template"], "Template"),
    (["from string import Template"], "Template"),
    (["from mako.runtime import Context"], "Context"),
    (["from mako.template import DefTemplate"], "DefTemplate"),
]


def mako_calls():
    out = ["F('hello ${x}')", "F(x)", "F(filename=f)", "F(text=x, default_filters=['h'])",
           "F(x, lookup=l)", "F(\n    x,\n    strict_undefined=True,\n)", "F(x).render(data=d)",
           "F(x)  # nosec", "F(x)  # nosec B702", "F(x)  # nosec B701", "F(F(x))", "g(F(x))", "[F(x), F(y)]",
           "F(directories=['/t'])", "F(\n)", "F(x, default_filters=['h'])", "F('${ data |h }')"]
    for sh in ARG_SHAPES:
        out.append("F(%s)" % sh)
    for lit in LITERALS:
        out.append("F(%s)" % lit)
    return out


def mako_programs(rng, tier):
    return named_call_programs(MAKO_NAMES, mako_calls(), ["B702"], rng, tier, 10, quick_sample=40,
                               other_ids=["B701", "B702", "B704"])


# ---------------------------------------------------------------------------------------------------
# B704

MARKUP_NAMES = [
    (["from markupsafe import Markup"], "Markup"),
    (["from markupsafe import Markup as M"], "M"),
    (["import markupsafe"], "markupsafe.Markup"),
    (["import markupsafe as ms"], "ms.Markup"),
    (["from flask import Markup"], "Markup"),
    (["import flask"], "flask.Markup"),
    (["import flask as fl"], "fl.Markup"),
    (["from flask import Markup as FM"], "FM"),
    (["from markupsafe import Markup"], "Markup.escape"),
    (["import markupsafe"], "markupsafe.escape"),
    (["from markupsafe import escape"], "escape"),
    (["from markupsafe import Markup"], "Markup().join"),
    ([], "Markup"),
    ([], "markupsafe.Markup"),
    ([], "flask.Markup"),
    (["import markupsafe"], "markupsafe.Markups"),
    (["import markupsafe"], "markupsafe.markup"),
    (["import xmarkupsafe"], "xmarkupsafe.Markup"),
    (["from jinja2 import Markup"], "Markup"),
    (["from jinja2.utils import Markup"], "Markup"),
    (["from webhelpers.html import literal"], "literal"),
    (["import webhelpers.html"], "webhelpers.html.literal"),
    (["import webhelpers.html as wh"], "wh.literal"),
    (["from webhelpers.html import literal as lt"], "lt"),
    (["import webhelpers"], "webhelpers.html.literals"),
    (["from django.utils.safestring import mark_safe"], "mark_safe"),
]


def markup_calls():
    out = ["F(x)", "F('lit')", "F()", "F(f())", "F(x, y)", "F('lit', x)", "F(x, 'lit')", "F(*a)", "F(**k)",
           "F(content=x)", "F(base=x)", "F(clean(x))", "F(bleach.clean(x))", "F(bl.clean(x))", "F(cl(x))",
           "F(bleach.clean)", "F(bleach.cleaner(x))", "F(bleach.clean(x).strip())", "F(bleach.clean(x) + y)",
           "F(x.clean())", "F(clean()(x))", "F(fns[0](x))", "F((lambda: x)())", "F(escape(x))", "F(F(x))",
           "F(F('lit'))", "F(f'{x}')", "F(f'lit')", "F('a%s' % x)", "F('a' + x)", "F('a{}'.format(x))",
           "F('a' 'b')", "F(x if y else 'lit')", "F(\n    x\n)", "F(\n    clean(\n        x\n    )\n)",
           "F(\n    'lit'\n)", "F(x)  # nosec", "F(x)  # nosec B704", "F(x)  # nosec B703", "g(F(x))",
           "F(x).unescape()", "F('<b>%s</b>') % x", "F('<b>{}</b>').format(x)", "[F(x), F('s')]",
           "F(x, encoding='utf8')", "F(object=x)", "F(*['lit'])", "F(**{'s': x})", "F(**'x')"]
    for lit in LITERALS:
        out.append("F(%s)" % lit)
    return out


MARKUP_CONFIGS = [
    None,
    {"markupsafe_xss": {"extend_markup_names": ["webhelpers.html.literal"], "allowed_calls": ["bleach.clean"]}},
    {"markupsafe_xss": {"extend_markup_names": ["webhelpers.html.literal", "Markup.escape", "markupsafe.Markup.escape",
                                                "jinja2.Markup", "django.utils.safestring.mark_safe"],
                        "allowed_calls": ["bleach.clean", "clean", "cl", "markupsafe.escape", "x.clean", "f"]}},
    {"markupsafe_xss": {"extend_markup_names": [], "allowed_calls": []}},
    {"markupsafe_xss": {}},
    {"markupsafe_xss": None},
    {"markupsafe_xss": {"allowed_calls": ["bleach.clean"]}},
    {"markupsafe_xss": {"extend_markup_names": ["webhelpers.html.literal"]}},
    {"markupsafe_xss": {"extend_markup_names": "webhelpers.html.literal.x", "allowed_calls": "bleach.cleaner"}},
    {"markupsafe_xss": {"extend_markup_names": {"webhelpers.html.literal": 1}, "allowed_calls": {"bleach.clean": 0}}},
    {"markupsafe_xss": {"extend_markup_names": None, "allowed_calls": None}},
    {"markupsafe_xss": {"extend_markup_names": 5, "allowed_calls": 3}},
    {"markupsafe_xss": {"extend_markup_names": ["literal", 1, None, ["webhelpers.html.literal"]], "allowed_calls": [1, "clean"]}},
    {"markupsafe_xss": {"extend_markup_names": True, "allowed_calls": True}},
    {"markupsafe_xss": {"allowed_calls": 0}},
    {"markupsafe_xss": {"allowed_calls": ""}},
    {"markupsafe_xss": {"allowed_calls": {}}},
    {"markupsafe_xss": 0},
    {"markupsafe_xss": []},
    {"markupsafe_xss": "extend_markup_names"},
    {"markupsafe_xss": ["extend_markup_names"]},
    {"markupsafe_xss": True},
    {"other_plugin": {"extend_markup_names": ["webhelpers.html.literal"]}},
]


def markup_programs(rng, tier):
    calls = markup_calls()
    pre = ["from bleach import clean", "import bleach", "import bleach as bl", "from bleach import clean as cl"]
    full = []
    for ci, cfg in enumerate(MARKUP_CONFIGS):
        for (imps, f) in MARKUP_NAMES:
            for grp in chunks(calls, 12):
                body = pre + list(imps) + [c.replace("F(", f + "(") for c in grp]
                use = ["B704"] if len(full) % 5 else ["B701", "B702", "B703", "B704"]
                full.append(prog("\n".join(body), use, cfg))
    if tier == "quick":
        n = len(chunks(calls, 12))
        per_cfg = n * len(MARKUP_NAMES)
        out = full[:n] + full[per_cfg:per_cfg + n]
        # one program per configuration with the interesting names, then a sample
        for ci in range(len(MARKUP_CONFIGS)):
            out.append(full[ci * per_cfg])
            out.append(full[ci * per_cfg + 21 * n])
        return out + pick(rng, full, 120)
    return full


# ---------------------------------------------------------------------------------------------------
# B703

SAFE_NAMES = [
    (["from django.utils.safestring import mark_safe"], "mark_safe"),
    (["from django.utils.safestring import mark_safe as ms"], "ms"),
    (["from django.utils import safestring"], "safestring.mark_safe"),
    (["import django.utils.safestring"], "django.utils.safestring.mark_safe"),
    (["import django.utils.safestring as ss"], "ss.mark_safe"),
    (["from django.utils.safestring import SafeString"], "SafeString"),
    (["from django.utils.safestring import SafeText"], "SafeText"),
    (["from django.utils.safestring import SafeUnicode"], "SafeUnicode"),
    (["from django.utils.safestring import SafeBytes"], "SafeBytes"),
    (["from django.utils import safestring"], "safestring.SafeString"),
    (["from django.utils.safestring import SafeData"], "mark_safe"),
    (["from mydjango.utils.safestring2 import zz"], "mark_safe"),
    (["from django.utils.html import mark_safe"], "mark_safe"),
    (["import django"], "django.utils.safestring.mark_safe"),
    ([], "mark_safe"),
    (["from django.utils.safestring import mark_safe"], "mark_safe_"),
    (["from django.utils.safestring import mark_safe"], "mark_safes"),
    (["from django.utils.safestring import mark_safe"], "Mark_safe"),
    (["from django.utils.safestring import mark_safe"], "x.mark_safe"),
    (["from django.utils.safestring import mark_safe"], "mark_safe.now"),
    (["from django.utils.safestring import SafeData"], "SafeData"),
    (["from django.utils.safestring import mark_safe"], "mark_safe()"),
]

# ways of giving the variable v a value before the call: list of statements (own indentation relative)
BUILDUPS = [
    ("none", []),
    ("lit", ["v = 'lit'"]),
    ("lit_twice", ["v = foo()", "v = 'lit'"]),
    ("lit_then_call", ["v = 'lit'", "v = foo()"]),
    ("lit_then_attr", ["v = 'lit'", "v = a.b"]),
    ("lit_then_attr_then_lit", ["v = 'lit'", "v = a.b", "v = 'lit2'"]),
    ("from_lit_var", ["w = 'lit'", "v = w"]),
    ("from_unknown_var", ["v = w"]),
    ("from_var_defined_later", ["v = w", "w = 'lit'"]),
    ("chain3", ["u = 'lit'", "w = u", "v = w"]),
    ("self_ref", ["v = v"]),
    ("cycle", ["w = v", "v = w"]),
    ("call", ["v = foo()"]),
    ("format_lit", ["v = '{}'.format('a')"]),
    ("format_var_lit", ["w = 'lit'", "v = '{}{}'.format(w, 'b')"]),
    ("format_var_unknown", ["v = '{}'.format(w)"]),
    ("format_kw", ["v = '{a}'.format(a='b')"]),
    ("format_starred", ["w = 'lit'", "v = '{}{}{}'.format(*['a', w], *('b',))"]),
    ("format_starred_nested", ["v = '{}{}'.format(*[*['a'], 'b'])"]),
    ("format_starred_name", ["v = '{}'.format(*w)"]),
    ("format_starred_bad", ["v = '{}{}'.format(*['a', foo()])"]),
    ("format_starred_order", ["w, k = 'a',", "v = '{}{}'.format(*[k], *[foo()])"]),
    ("format_starred_order_rev", ["w, k = 'a',", "v = '{}{}'.format(*[foo()], *[k])"]),
    ("format_starred_bfs", ["w, k = 'a',", "v = '{}{}'.format(*[k], foo())"]),
    ("format_starred_bfs_nested", ["w, k = 'a',", "v = '{}{}'.format(*[*[k]], *[foo()])"]),
    ("format_arg_crash_first", ["w, k = 'a',", "v = '{}{}'.format(k, foo())"]),
    ("format_arg_crash_later", ["w, k = 'a',", "v = '{}{}'.format(foo(), k)"]),
    ("format_nested_call", ["v = '{}'.format('{}'.format('a'))"]),
    ("format_nested_bad", ["v = '{}'.format('{}'.format(foo()))"]),
    ("format_of_name", ["fmt = '{}'", "v = fmt.format('a')"]),
    ("format_int", ["v = '{}'.format(1)"]),
    ("format_none", ["v = ''.format()"]),
    ("mod_lit", ["v = 'a%s' % 'b'"]),
    ("add_lit", ["v = 'a' + 'b'"]),
    ("fstring", ["v = f'a{w}'"]),
    ("bytes", ["v = b'lit'"]),
    ("int", ["v = 1"]),
    ("none_const", ["v = None"]),
    ("implicit_concat", ["v = 'a' 'b'"]),
    ("ifexp", ["v = 'a' if c else 'b'"]),
    ("if_else_lit", ["if c:", "    v = 'a'", "else:", "    v = 'b'"]),
    ("if_else_call", ["if c:", "    v = 'a'", "else:", "    v = foo()"]),
    ("if_else_var", ["w = 'lit'", "if c:", "    v = w", "else:", "    v = 'b'"]),
    ("if_else_unknown_var", ["if c:", "    v = w", "else:", "    v = 'b'"]),
    ("if_no_else", ["if c:", "    v = 'a'"]),
    ("if_other_var", ["if c:", "    w = 'a'"]),
    ("if_elif", ["if c:", "    v = 'a'", "elif d:", "    v = 'b'", "else:", "    v = 'c'"]),
    ("if_then_lit", ["if c:", "    v = foo()", "v = 'lit'"]),
    ("lit_then_if_call", ["v = 'lit'", "if c:", "    v = foo()"]),
    ("lit_then_if_call_then_lit", ["v = 'lit'", "if c:", "    v = foo()", "v = 'lit'"]),
    ("for_lit", ["for i in y:", "    v = 'a'"]),
    ("for_item", ["for i in y:", "    v = i"]),
    ("for_target", ["for v in y:", "    pass"]),
    ("for_else", ["for i in y:", "    pass", "else:", "    v = 'a'"]),
    ("for_else_call", ["v = 'lit'", "for i in y:", "    pass", "else:", "    v = foo()"]),
    ("for_else_format", ["v = 'lit'", "for i in y:", "    w = 'x'", "else:", "    v = '{}'.format(req.GET['q'])"]),
    ("async_for_else_call", ["v = 'lit'", "async for i in y:", "    pass", "else:", "    v = foo()"]),
    ("while_else_call", ["v = 'lit'", "while c:", "    pass", "else:", "    v = foo()"]),
    ("for_tuple_target", ["v = foo()", "for k, g in y:", "    pass"]),
    ("for_tuple_target_lit", ["v = 'lit'", "for k, v in y:", "    pass"]),
    ("for_attr_target", ["v = foo()", "for o.a in y:", "    pass"]),
    ("for_subscript_target", ["v = 'lit'", "for o[0] in y:", "    pass"]),
    ("for_starred_target", ["v = foo()", "for k, *g in y:", "    pass"]),
    ("while_lit", ["while c:", "    v = 'a'", "else:", "    v = 'b'"]),
    ("while_aug", ["v = 'a'", "while c:", "    v += 'b'"]),
    ("try_all_lit", ["try:", "    v = 'a'", "except E:", "    v = 'b'", "else:", "    v = 'c'", "finally:", "    v = 'd'"]),
    ("try_handler_call", ["try:", "    v = 'a'", "except E:", "    v = foo()"]),
    ("try_handler_name", ["try:", "    v = 'a'", "except E as v:", "    pass"]),
    ("try_finally", ["try:", "    pass", "finally:", "    v = 'd'"]),
    ("try_nested_if", ["try:", "    if c:", "        v = 'a'", "    else:", "        v = w", "except E:", "    pass"]),
    ("try_star", ["try:", "    v = 'a'", "except* E:", "    v = foo()"]),
    ("with_as_v", ["with open(f) as v:", "    pass"]),
    ("with_as_v_then_lit", ["with open(f) as v:", "    pass", "v = 'lit'"]),
    ("with_body_lit", ["with open(f) as g:", "    v = 'lit'"]),
    ("with_no_as", ["with lock:", "    v = 'lit'"]),
    ("with_two_items_first", ["with a as v, b as g:", "    v = 'lit'"]),
    ("with_two_items_last", ["with a as g, b as v:", "    v = 'lit'"]),
    ("with_two_items_first_crash", ["with a as v, b as g:", "    v.x, k = 1, 2"]),
    ("with_tuple_as", ["with a as (v, g):", "    pass"]),
    ("with_body_call", ["with a as g:", "    v = foo()"]),
    ("async_with", ["async with a as g:", "    v = 'lit'"]),
    ("aug_lit", ["v = 'a'", "v += 'b'"]),
    ("aug_var", ["v = 'a'", "v += w"]),
    ("aug_only", ["v += 'b'"]),
    ("aug_attr", ["v = 'a'", "v.x += w"]),
    ("aug_then_lit", ["v = 'a'", "v += w", "v = 'c'"]),
    ("tuple_lits", ["v, w = 'a', 'b'"]),
    ("tuple_second", ["w, v = 'a', 'b'"]),
    ("tuple_second_call", ["w, v = 'a', foo()"]),
    ("tuple_first_call", ["w, v = foo(), 'b'"]),
    ("tuple_from_call", ["v, w = foo()"]),
    ("tuple_paren", ["(v, w) = ('a', 'b')"]),
    ("tuple_short", ["w, v = 'a',"]),
    ("tuple_short_first", ["v, w = 'a',"]),
    ("tuple_attr_before", ["a.b, v = 'a', 'b'"]),
    ("tuple_attr_after", ["v, a.b = 'a', 'b'"]),
    ("tuple_starred", ["*w, v = 'a', 'b'"]),
    ("tuple_nested", ["(w, k), v = ('a', 'b'), 'c'"]),
    ("tuple_sub", ["w[0], v = 'a', 'b'"]),
    ("tuple_other", ["w, k = 'a', 'b'"]),
    ("tuple_list_value", ["w, v = ['a', 'b']"]),
    ("list_target", ["[w, v] = 'a', 'b'"]),
    ("multi_target_first", ["v = w = 'lit'"]),
    ("multi_target_second", ["w = v = 'lit'"]),
    ("attr_target", ["v.x = foo()"]),
    ("sub_target", ["v[0] = foo()"]),
    ("annassign", ["v: str = 'lit'"]),
    ("walrus", ["(v := 'lit')"]),
    ("expr_stmt", ["v"]),
    ("del", ["v = 'lit'", "del v"]),
    ("global", ["global v", "v = 'lit'"]),
    ("import_as", ["import os as v"]),
    ("funcdef_assigns", ["def g():", "    v = 'lit'"]),
    ("funcdef_assigns_call", ["v = 'lit'", "def g():", "    v = foo()"]),
    ("funcdef_param", ["def g(v):", "    v = foo()"]),
    ("async_funcdef", ["async def g():", "    v = 'lit'"]),
    ("classdef", ["class K:", "    v = 'lit'"]),
    ("lambda_assign", ["v = lambda: 'lit'"]),
    ("match", ["match c:", "    case 1:", "        v = 'lit'"]),
    ("multiline_lit", ["v = (", "    'lit'", ")"]),
    ("multiline_var", ["w = 'lit'", "v = (", "    w", ")"]),
    ("semicolon", ["w = 'lit'; v = w"]),
    ("deep_nest", ["for i in y:", "    if c:", "        try:", "            with a as g:", "                v = 'lit'",
                   "        except E:", "            v = 'x'", "    else:", "        while c:", "            v = 'y'"]),
    ("deep_nest_bad", ["for i in y:", "    if c:", "        try:", "            with a as g:", "                v = 'lit'",
                       "        except E:", "            v = foo()"]),
    ("list_then_lit", ["if c:", "    v = foo()", "else:", "    v = 'b'", "v = 'lit'"]),
    ("param_p", ["v = p"]),
    ("param_p_format", ["v = '{}'.format(p)"]),
    ("param_p_tuple", ["if c:", "    v = p"]),
    ("p_reassigned", ["p = 'lit'", "v = p"]),
]

# how v is handed to the function
SAFE_ARGS = ["v", "'a%s' % v", "'a%s%s' % (v, 'b')", "'a%s%s' % (v, foo())", "'{}'.format(v)",
             "'{}{}{}'.format(v, 'a', *['b', v], *(v,))", "'{}'.format(*v)", "'{k}'.format(k=v)",
             "'{}'.format('{}'.format(v))", "fmt.format(v)", "f'{v}'", "v + 'a'", "'a' + v", "v % 'a'",
             "'a%s' % [v]", "'a%(k)s' % {'k': v}", "'a' 'b%s' % v", "b'%s' % v", "str(v)", "v.strip()", "v.attr",
             "v[0]", "*v", "v, v", "v, 'lit'", "'lit', v", "s=v", "", "**v", "(v)", "v if c else 'lit'",
             "[v]", "(v, 'a')", "foo(v)", "'{}'.format", "''.join(v)", "'%s'.format(v) % v",
             "(\n        v\n    )", "'a%s' % (\n        v,\n    )"]

# {P} is the prelude (build-up statements + the call), indented by the given amount
SCOPES = [
    ("module", "{P0}"),
    ("func", "def fn(p, pp=1):\n{P4}"),
    ("func_param_v", "def fn(v, p=1):\n{P4}"),
    ("func_param_w", "def fn(w, p=1):\n{P4}"),
    ("func_kwonly_v", "def fn(p, *, v):\n{P4}"),
    ("func_posonly_v", "def fn(v, /, p):\n{P4}"),
    ("func_vararg_v", "def fn(p, *v, **w):\n{P4}"),
    ("method", "class K:\n    def m(self, p):\n{P8}"),
    ("nested_func", "def outer(v, p):\n    v = 'outer'\n    def fn(p):\n{P8}\n    return fn"),
    ("nested_in_param_scope", "def outer(p):\n    def fn(v):\n        pass\n{P4}"),
    ("async_func", "async def co(p):\n{P4}"),
    ("async_in_func", "def outer(p):\n    v = 'lit'\n    async def co():\n{P8}"),
    ("class_body", "class K:\n{P4}"),
    ("class_in_func", "def fn(p):\n    v = 'lit'\n    class K:\n{P8}"),
    ("in_if", "def fn(p):\n    if p:\n{P8}\n    else:\n        v = foo()"),
    ("in_if_module", "if c:\n{P4}\nelse:\n    v = foo()"),
    ("in_for", "def fn(p):\n    for i in p:\n{P8}\n        v = 'later'"),
    ("in_try", "def fn(p):\n    try:\n{P8}\n    except E:\n        v = 'h'\n    finally:\n        v = 'f'"),
    ("in_with", "def fn(p):\n    with a as g:\n{P8}"),
    ("in_with_as_v", "def fn(p):\n    with a as v:\n{P8}"),
    ("after_assign_later", "def fn(p):\n{P4}\n    v = foo()"),
    ("module_after_func", "def other():\n    v = foo()\n{P0}"),
    ("module_func_assigns_lit", "def other():\n    v = 'lit'\n{P0}"),
    ("func_outer_lit", "v = 'lit'\ndef fn(p):\n{P4}"),
]
LAMBDA_SCOPES = [
    ("lambda_module", "v = 'lit'\ngg = lambda v: {C}"),
    ("lambda_module_noparam", "v = 'lit'\ngg = lambda: {C}"),
    ("lambda_func", "def fn(p):\n    v = 'lit'\n    gg = lambda v: {C}"),
    ("lambda_func_param", "def fn(v):\n    gg = lambda: {C}"),
    ("default_arg", "v = 'lit'\ndef fn(p={C}):\n    pass"),
    ("decorator", "v = 'lit'\n@{C}\ndef fn(p):\n    pass"),
    ("comprehension", "v = 'lit'\nll = [{C} for v in y]"),
    ("return", "def fn(p):\n    v = 'lit'\n    return {C}"),
    ("same_line", "v = foo(); {C}"),
    ("same_line_lit", "v = 'lit'; {C}"),
    ("recursion_name", "v = (\n    v); {C}"),
    ("recursion_format", "v = (\n    '{}'.format(v)); {C}"),
    ("recursion_cycle", "w = (\n    v); v = (\n    w); {C}"),
    ("recursion_tuple", "if c:\n    w = v\nv = (\n    w\n); {C}"),
]


def indent(lines, n):
    return "\n".join((" " * n) + ln if ln else ln for ln in "\n".join(lines).split("\n"))


def in_scope(tpl, stmts):
    out = tpl
    for n in (0, 4, 8):
        out = out.replace("{P%d}" % n, indent(stmts, n))
    return out


def safe_programs(rng, tier):
    full = []
    must = []      # the quick tier keeps every build-up once at module and once at function level
    std = (["from django.utils.safestring import mark_safe"], "mark_safe")
    # 1. build-ups x scopes with the plain variable, and build-ups x argument forms at function level
    for (sname, stpl) in SCOPES:
        for (bname, stmts) in BUILDUPS:
            for arg in (["v"] if sname not in ("module", "func") else SAFE_ARGS[:18]):
                body = list(stmts) + ["mark_safe(%s)" % arg.replace("\n    ", "\n")]
                src = "\n".join(std[0]) + "\n" + in_scope(stpl, body)
                full.append(prog(src, ["B703"]))
                if arg == "v" and sname in ("module", "func"):
                    must.append(full[-1])
    n_core = len(full)
    # 2. every argument form x a few build-ups x a few scopes
    for arg in SAFE_ARGS:
        for (bname, stmts) in [b for b in BUILDUPS if b[0] in (
                "none", "lit", "call", "from_lit_var", "if_else_lit", "if_else_call", "tuple_second", "aug_var",
                "with_as_v", "format_var_lit", "param_p", "self_ref")]:
            for (sname, stpl) in [s for s in SCOPES if s[0] in ("module", "func", "func_param_v", "method", "in_if")]:
                body = ["fmt = '{}'"] + list(stmts) + ["mark_safe(%s)" % arg.replace("\n    ", "\n")]
                full.append(prog("\n".join(std[0]) + "\n" + in_scope(stpl, body), ["B703"]))
    n_args = len(full)
    # 3. names and import spellings
    calls = ["F(v)", "F('lit')", "F()", "F(s=v)", "F(w)", "F(foo())", "F('a%s' % v)", "F('{}'.format(w))", "F(*a)", "F(**k)"]
    for (imps, f) in SAFE_NAMES:
        for (sname, stpl) in [s for s in SCOPES if s[0] in ("module", "func", "func_param_v")]:
            body = ["v = 'lit'", "w = foo()"] + [c.replace("F(", f + "(") for c in calls]
            full.append(prog("\n".join(imps) + "\n" + in_scope(stpl, body),
                             ["B703"] if len(full) % 3 else ["B703", "B704", "B608"]))
    # 4. literal kinds and argument shapes
    for grp in chunks(LITERALS + ARG_SHAPES, 8):
        body = ["mark_safe(%s)" % a for a in grp]
        full.append(prog("\n".join(std[0]) + "\n" + "\n".join(body), ["B703"]))
        full.append(prog("\n".join(std[0]) + "\ndef fn(nm, a, k):\n" + indent(body, 4), ["B703"]))
    # 5. expression-level placements and the non-terminating shapes
    for (sname, stpl) in LAMBDA_SCOPES:
        for arg in ["v", "'a%s' % v", "'{}'.format(v)", "'lit'", "foo(v)"]:
            full.append(prog("from django.utils.safestring import mark_safe\n" + stpl.replace("{C}", "mark_safe(%s)" % arg), ["B703"]))
    # 6. nosec interplay and the import arriving late
    full.append(prog("from django.utils.safestring import mark_safe\nmark_safe(v)  # nosec\nmark_safe(v)  # nosec B703\nmark_safe(v)  # nosec B704\nmark_safe(\n    v\n)  # nosec", ["B703"]))
    full.append(prog("mark_safe(v)\nfrom django.utils.safestring import mark_safe\nmark_safe(v)", ["B703"]))
    full.append(prog("def f():\n    from django.utils import safestring\nmark_safe(v)", ["B703"]))
    if tier == "quick":
        return must + pick(rng, full[:n_core], 250) + pick(rng, full[n_core:n_args], 150) + full[n_args:]
    return full


# ---------------------------------------------------------------------------------------------------

def mixed_programs():
    """A few realistic files exercising all seven tests together."""
    a = '''import jinja2
from jinja2 import Environment, select_autoescape
from mako.template import Template
from markupsafe import Markup
from django.utils.safestring import mark_safe
from django.db.models.expressions import RawSQL


def view(request, name):
    env = Environment(loader=jinja2.FileSystemLoader("t"))
    env2 = Environment(autoescape=select_autoescape(["html"]))
    tpl = Template("hello ${name}")
    cursor.execute("select * from users where name = '%s'" % name)
    cursor.execute("select * from users where name = %s", [name])
    qs = User.objects.extra(where=["name = '%s'" % name])
    qs = qs.annotate(v=RawSQL("select %s" % name, []))
    banner = "<b>hi</b>"
    out = mark_safe(banner)
    out += mark_safe(name)
    return Markup(out) + Markup("<hr>")
'''
    b = '''from django.utils import safestring
import flask


class V:
    q = "delete from t where id = " + str(i)

    def get(self, x):
        msg = "<p>{}</p>".format("ok")
        if x:
            msg = "<p>%s</p>" % x
        return safestring.mark_safe(msg)

    def post(self):
        self.cur.executemany(f"insert into t values ({self.a})", rows)
        return flask.Markup(self.render())
'''
    return [prog(a, ALL), prog(b, ALL), prog(a + b.replace("class V", "class W"), ALL),
            prog(a, ALL, {"markupsafe_xss": {"extend_markup_names": ["django.utils.safestring.mark_safe"],
                                             "allowed_calls": ["str"]}}),
            prog("", ALL), prog("\n", ALL), prog("x = 1\n", ALL)]


def programs(rng, tier):
    out = []
    out += mixed_programs()
    out += sql_programs(rng, tier)
    out += extra_programs(rng, tier)
    out += rawsql_programs(rng, tier)
    out += jinja_programs(rng, tier)
    out += mako_programs(rng, tier)
    out += markup_programs(rng, tier)
    out += safe_programs(rng, tier)
    return out
