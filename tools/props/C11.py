"""C11 - file discovery honours includes and excludes and loses nothing."""
import fnmatch
import os
import random
import shutil

import core
import coqlit as L
import impl

PROP_FILES = ["theories/Props/C11.v", "theories/Inst/C11_inst.v"]
DEPS = ["theories/Proofs/C11_proofs.vo", "theories/Gen/Constants.vo", "theories/Gen/Ladders.vo", "theories/Gen/CliTable.vo"]

DIRNAMES = ["pkg", "src", "test", "tests", "contest", ".git", ".github", ".hg", "__pycache__", "build", "x.egg", "a.egg-info",
            "sub", ".tox", "docs", "examples_test", "CVS", "héllo", "sp ace", "node.git", "src2", "pkgx", "testsuite"]
FILENAMES = ["a.py", "b.py", "setup.py", "mod.pyw", "notes.txt", "test_a.py", "conftest.py", ".hidden.py", "data.json", "x.pyc",
             "Makefile", "c.PY", "ünï.py", "a.py.bak", "git.py"]
DEFAULT_X = ".svn,CVS,.bzr,.hg,.git,__pycache__,.tox,.eggs,*.egg"


def build_tree(root, rng):
    dirs = [""]
    for _ in range(rng.randint(1, 7)):
        parent = rng.choice(dirs)
        if parent.count("/") >= 3:
            continue
        d = (parent + "/" if parent else "") + rng.choice(DIRNAMES)
        if d not in dirs:
            dirs.append(d)
    files = []
    for d in dirs:
        os.makedirs(os.path.join(root, d), exist_ok=True)
        for f in rng.sample(FILENAMES, rng.randint(0, 4)):
            p = os.path.join(d, f) if d else f
            open(os.path.join(root, p), "w").write("x = 1\n")
            files.append(p)
    # the same file reachable under two names: a symbolic link inside the tree to another file of the tree (and now
    # and then a link to a directory, which the walk lists but does not follow)
    if files and rng.random() < 0.45:
        for k in range(rng.randint(1, 2)):
            tgt = rng.choice(files)
            d = rng.choice(dirs)
            name = rng.choice(["alias_%d.py" % k, "legacy_%d.py" % k, "zz_link_%d.py" % k, "link_%d.txt" % k])
            p = os.path.join(d, name) if d else name
            if p in files:
                continue
            try:
                os.symlink(os.path.relpath(os.path.join(root, tgt), os.path.join(root, d)), os.path.join(root, p))
                files.append(p)
            except OSError:
                pass
    if len(dirs) > 1 and rng.random() < 0.2:
        try:
            os.symlink(rng.choice(dirs[1:]).split("/")[0], os.path.join(root, "zz_dirlink"))
        except OSError:
            pass
    return dirs, files


def is_excluded_by_statement(path_parts, basename, rel, patterns):
    """path is under an excluded directory or matches an exclude pattern (the statement's reading):
    a bare name or glob applies to every directory component and to the file name; a pattern containing a
    path separator is a path relative to the working directory (the tree root here)."""
    for pat in patterns:
        pat = pat.rstrip("/")
        if pat.startswith("./"):
            pat = pat[2:]
            anchored = True
        else:
            anchored = "/" in pat
        if not pat:
            continue
        if anchored:
            # a pattern that starts with a wildcard component ("*/sub/*") also covers the top level: ./sub/... is such a path
            if fnmatch.fnmatchcase(rel, pat) or fnmatch.fnmatchcase(rel, pat + "/*") or rel.startswith(pat + "/") or \
                    (pat.startswith("*") and fnmatch.fnmatchcase("./" + rel, pat)):
                return True
        else:
            if any(fnmatch.fnmatchcase(part, pat) for part in path_parts[:-1]) or fnmatch.fnmatchcase(basename, pat):
                return True
    return False


def cli_discovery(R):
    """Through the command line: a file named explicitly is scanned whatever its name, also when it lies inside a directory
    that is a target as well; '-' (standard input) stays a target next to directories."""
    import climain
    import json
    d = os.path.join(impl.scratch(), "c11cli")
    shutil.rmtree(d, ignore_errors=True)
    os.makedirs(os.path.join(d, "proj", "scripts"))
    open(os.path.join(d, "proj", "a.py"), "w").write("assert a\n")
    open(os.path.join(d, "proj", "scripts", "deploy"), "w").write("exec(x)\n")
    open(os.path.join(d, "proj", "scripts", "tool.txt"), "w").write("import pickle\n")
    for argv, want in ((["-r", "proj", "proj/scripts/deploy"], {"a.py", "deploy"}), (["-r", "proj/scripts/deploy", "proj"], {"a.py", "deploy"}),
                       (["-r", "./proj", "proj/scripts/tool.txt", "proj/scripts/deploy"], {"a.py", "deploy", "tool.txt"}),
                       (["proj/scripts/deploy"], {"deploy"}), (["-r", "proj"], {"a.py"})):
        r = climain.run_main(["-q", "-f", "json", "--exit-zero"] + argv, cwd=d)
        R.case(("cli-discovery", tuple(argv)), nontrivial=True, sample={"argv": argv, "exit": r["exit"]})
        R.count("cli-discovery")
        if r["exception"]:
            R.violations.append({"what": "no report for %s (%s)" % (argv, r["exception"]), "input": {"argv": argv}, "observed": (r["traceback"] or "")[-300:], "signature": None})
            continue
        j = json.loads(r["stdout"])
        got = {os.path.basename(k) for k in j["metrics"] if k != "_totals"}
        if got != want:
            R.violations.append({"what": "targets %s: scanned files %s, expected %s (explicit files are scanned whatever their name)" % (argv, sorted(got), sorted(want)),
                                 "input": {"argv": argv}, "observed": sorted(j["metrics"]), "signature": None})
    # -x plumbing: what -x says on the command line is what applies, also when it says "nothing" (the only way to switch
    # the default excludes off) and also next to an exclude setting in a .bandit file
    shutil.rmtree(d, ignore_errors=True)
    DEC = "cafe\u0301"          # a decomposed name (e + combining acute), as some file systems return it
    for sub in ("pkg", ".tox/env", "tests", "build", "~", DEC):
        os.makedirs(os.path.join(d, "src", sub))
        open(os.path.join(d, "src", sub, "m.py"), "w").write("assert a\n")
    open(os.path.join(d, "src", "top.py"), "w").write("assert a\n")
    # the target is spelled "src" and directory excludes are spelled from the working directory ("src/pkg"), the one spelling
    # under which directory excludes work (the known finding exclude-depends-on-spelling is about the others)
    every = {"src/top.py", "src/pkg/m.py", "src/.tox/env/m.py", "src/tests/m.py", "src/build/m.py", "src/~/m.py", "src/%s/m.py" % DEC}
    cases = [([], None, every - {"src/.tox/env/m.py"}), (["-x", ""], None, every), (["--exclude="], None, every), (["-x", "src/pkg"], None, every - {"src/pkg/m.py"}),
             ([], "exclude = src/tests", every - {"src/tests/m.py"}), (["-x", ""], "exclude = src/tests", every), (["--exclude="], "exclude = src/tests,src/build", every),
             (["-x", "src/build"], "exclude = src/tests", every - {"src/build/m.py"}),
             (["-x", ".tox,src/tests"], "exclude = src/pkg", every - {"src/.tox/env/m.py", "src/tests/m.py"}),
             # entries that are not paths of this machine's home directory, and names exactly as the file system spells them
             ([], "exclude = ~/", every - {"src/~/m.py"}), (["-x", "~/"], None, every - {"src/~/m.py"}), (["-x", "src/~"], "exclude = src/pkg", every - {"src/~/m.py"}),
             (["-x", "src/" + DEC], None, every - {"src/%s/m.py" % DEC}), ([], "exclude = src/%s" % DEC, every - {"src/%s/m.py" % DEC}),
             (["-x", DEC], None, every - {"src/%s/m.py" % DEC})]
    for argv, ini, want in cases:
        inif = os.path.join(d, ".bandit")
        if os.path.exists(inif):
            os.remove(inif)
        if ini:
            open(inif, "w", encoding="utf-8").write("[bandit]\n" + ini + "\n")
        r = climain.run_main(["-q", "-f", "json", "--exit-zero", "-r", "src"] + (["--ini", ".bandit"] if ini else []) + argv, cwd=d)
        R.case(("cli-exclude", tuple(argv), ini), nontrivial=True, sample={"argv": argv, "ini": ini, "exit": r["exit"]})
        R.count("cli-exclude")
        inp = {"argv": ["-r", "src"] + argv, "ini_file": ini, "tree": sorted(every)}
        if r["exception"] or r["exit"] != 0:
            R.violations.append({"what": "no report for %s with .bandit %r (%s)" % (argv, ini, r["exception"] or r["exit"]), "input": inp,
                                 "observed": (r["traceback"] or r["stderr"] or "")[-300:], "signature": None})
            continue
        j = json.loads(r["stdout"][r["stdout"].index("{"):])
        got = {os.path.normpath(k) for k in j["metrics"] if k != "_totals"}
        if got != want:
            R.violations.append({"what": "options %s with .bandit %r: scanned %s, the command line%s says %s" % (
                argv, ini, sorted(got), "" if argv else " (nothing given: the file's / default excludes)", sorted(want)), "input": inp, "observed": sorted(got), "signature": None})
    shutil.rmtree(d, ignore_errors=True)


def run(R, replay=None):
    rng = random.Random(R.seed)
    for f in core.gen():
        R.broken.append({"what": "translator failed: " + f["translator"], "log": f["stderr"]})
    R.proof = core.prove(PROP_FILES, DEPS)
    for f in R.proof["failed"]:
        R.broken.append({"what": "proof obligation no longer checks: %s (%s) %s" % (f["file"], f["why"], f.get("theorem") or ""),
                         "log": f.get("log", "")})
    R.rule = ("real directory trees (names incl. VCS/cache directories, look-alikes such as .github/contest, hidden, unicode and spaced "
              "names; depth <= 4; extension mix) x target spellings ('.', relative, absolute, trailing slash) x -x pattern sets (default, "
              "directory names, relative paths, globs) x -r on/off x explicit files: discover_files of the real manager vs the Discover "
              "model (os.walk listing and isdir as oracles) and vs the statement; the predicate _is_file_included on (path, pattern) "
              "pools; non-trivial = every case"
              "; config include patterns with a separator; -x plumbing through main() incl. an empty -x next to a .bandit exclude")
    from bandit.core import manager as bman
    base = os.path.join(impl.scratch(), "c11")
    n = 60 if R.tier == "quick" else 1500
    cases, descr = [], []
    pcases, pdescr = [], []
    for it in range(n):
        root = os.path.join(base, "t%d" % it)
        os.makedirs(root)
        dirs, files = build_tree(root, rng)
        xsets = [DEFAULT_X, "test", ".git", "tests,build", "*/sub/*", "sub", "pkg/sub", "*.txt", "", "docs/", "./pkg", "con*",
                 "./[ab].py", "*/[st]e[st]*.py", "./pkg/[!a]*.py,*.pyw", "./setup.p[xy]", "*/mod.py[w]"]
        xp = rng.choice(xsets)
        spelling = rng.choice([".", "pkg", "./", root, "src/", "."])
        recursive = rng.random() < 0.85
        explicit = rng.sample(files, min(len(files), rng.randint(0, 2)))
        targets = [spelling] + explicit
        rng.shuffle(targets)
        # now and then several directory targets, in an order where one name is a string prefix of the next
        tops = sorted({d_.split("/")[0] for d_ in dirs if d_})
        multi = rng.random() < 0.3 and len(tops) >= 2
        if multi:
            targets = sorted(rng.sample(tops, min(len(tops), rng.randint(2, 3)))) + explicit
        if rng.random() < 0.25:
            # two sibling directories, the name of the first a string prefix of the second, both given as targets
            a_, b_ = rng.choice([("src", "src2"), ("lib", "libexec"), ("pkg", "pkg_extra"), ("t", "tests")])
            for dd in (a_, b_):
                os.makedirs(os.path.join(root, dd), exist_ok=True)
                for fn in ("m.py", "notes.txt"):
                    pth = os.path.join(dd, fn)
                    if pth not in files:
                        open(os.path.join(root, pth), "w").write("x = 1\n")
                        files.append(pth)
                if dd not in dirs:
                    dirs.append(dd)
            multi = True
            targets = [a_, b_] + explicit
        # exclusions that come from the configuration file (exclude_dirs), spelled with and without a trailing slash
        cfg_x = rng.choice([None, None, ["tests/"], ["test/", "docs/"], ["build"], ["sub/", "*.txt"], ["pkg/sub/"]])
        directed = it < 3
        if directed:
            # the witnesses of the three known findings, in every run whatever the seed
            shutil.rmtree(root)
            files = ["a.py", "notes.txt", "pkg/test_a.py", "pkg/contest.py", "pkg/sub/m.py", "pkg/mod.py"]
            dirs = ["", "pkg", "pkg/sub"]
            for f_ in files:
                os.makedirs(os.path.dirname(os.path.join(root, f_)), exist_ok=True)
                open(os.path.join(root, f_), "w").write("x = 1\n")
            multi, cfg_x, recursive = False, None, True
            xp, spelling, explicit = [("", ".", ["notes.txt"]), ("test", ".", []), ("pkg/sub", "./", [])][it]
            targets = [spelling] + explicit
        old = os.getcwd()
        os.chdir(root)
        try:
            cfgf = None
            # include patterns from the configuration file: extensions, and patterns with a separator (such a pattern can
            # only ever match a path, never a bare name, so "name matches" is read as "walked path matches" for it)
            cfg_i = rng.choice([None, None, None, ["*.py", "*.pyw"], ["*.py", "*/sub/*"], ["*.txt", "*/pkg/*"], ["*/s*/*", "*.py"], ["*"]])
            if directed:
                cfg_i = None
            if cfg_x is not None or cfg_i is not None:
                import yaml
                cfgf = os.path.join(base, "cfg%d.yaml" % it)
                doc = {}
                if cfg_x is not None:
                    doc["exclude_dirs"] = cfg_x
                if cfg_i is not None:
                    doc["include"] = cfg_i
                yaml.safe_dump(doc, open(cfgf, "w"))
            mgr = impl.make_manager(config_file=cfgf)
            inc = list(mgr.b_conf.get_option("include") or ["*.py"])
            mgr.discover_files(list(targets), recursive, xp)
            got_f, got_x = list(mgr.files_list), list(mgr.excluded_files)
            isdir = {t: os.path.isdir(t) for t in set(targets) | set(xp.split(",")) | set(cfg_x or [])}
            walks = {t: [(r, sorted(fs)) for r, _, fs in os.walk(t)] for t in targets if isdir.get(t)}
        finally:
            os.chdir(old)
        inp = {"tree_files": files, "targets": targets, "recursive": recursive, "exclude": xp, "config_exclude_dirs": cfg_x, "config_include": cfg_i}
        R.count("include:" + ("default" if cfg_i is None else ",".join(cfg_i)))
        R.case(("tree", tuple(files), tuple(targets), recursive, xp), sample=dict(inp, scanned=got_f[:8], excluded=got_x[:6]))
        R.count("x:" + (xp or "<empty>"))
        R.count("spelling:" + ("abs" if spelling == root else spelling))
        # ---- statement-level oracle
        both = set(got_f) & set(got_x)
        norm = lambda p: os.path.normpath(p)
        both_n = {norm(a) for a in got_f} & {norm(b) for b in got_x}
        if both_n:
            R.violations.append({"what": "a file is listed both as in scope and as excluded", "input": inp, "observed": sorted(both_n)[:5],
                                 "signature": "explicit-file-in-both-lists"})
        if recursive and (multi or os.path.isdir(os.path.join(root, spelling)) or spelling == root):
            walked = []
            for tdir in ([t for t in targets if t not in explicit] if multi else [spelling]):
                for r, _, fs in os.walk(os.path.join(root, tdir) if tdir != root else root):
                    for f in fs:
                        w_ = os.path.relpath(os.path.join(r, f), root)
                        if w_ not in walked:
                            walked.append(w_)
            listed = {norm(p if not os.path.isabs(p) else os.path.relpath(p, root)) for p in got_f + got_x}
            for w in walked:
                if norm(w) not in listed:
                    R.violations.append({"what": "a walked file is in neither list", "input": inp, "observed": w, "signature": None})
            pats = [x for x in xp.split(",") if x] + list(cfg_x or [])
            for w in walked:
                parts = w.split(os.sep)
                as_listed = [p for p in got_f + got_x if norm(p if not os.path.isabs(p) else os.path.relpath(p, root)) == norm(w)]
                matches_inc = any(fnmatch.fnmatchcase(parts[-1], g) if "/" not in g else any(fnmatch.fnmatchcase(p, g) for p in as_listed) for g in inc)
                excl = is_excluded_by_statement(parts, parts[-1], w, pats)
                want = matches_inc and not excl
                got = norm(w) in {norm(p if not os.path.isabs(p) else os.path.relpath(p, root)) for p in got_f}
                if want != got and w not in explicit:
                    sig = None
                    # the mechanism of the known finding: an exclude string, as the configuration / -x gave it (a -x entry that
                    # is a directory gets "/*" appended), occurs in the path as a plain substring
                    eff = list(cfg_x or []) + [os.path.join(x, "*") if isdir.get(x) else x for x in xp.split(",") if x]
                    if want and not got and any(e in pl for e in eff for pl in as_listed):
                        sig = "exclude-by-substring"
                    elif (not want) and got and excl:
                        sig = "exclude-depends-on-spelling"
                    R.violations.append({"what": "file %s: %s, but the statement says it %s" % (
                        w, "scanned" if got else "not scanned", "is in scope" if want else "is excluded / out of scope"),
                        "input": inp, "observed": {"scanned": got_f[:8]}, "signature": sig})
        if not recursive:
            expl = {os.path.normpath(e) for e in explicit}
            if any(os.path.isdir(os.path.join(root, t)) and [p for p in got_f + got_x if p.startswith(t.rstrip("/") + "/") and os.path.normpath(p) not in expl]
                   for t in targets if t not in (".", "./")):
                R.violations.append({"what": "a directory given without -r was descended", "input": inp, "observed": got_f[:5], "signature": None})
        # ---- model
        def fs_coq():
            isd = L.lst([L.pair(L.pstr(k), L.B(v)) for k, v in isdir.items()], "pstr * bool")
            wk = L.lst([L.pair(L.pstr(t), L.lst([L.pair(L.pstr(r), L.lst([L.pstr(f) for f in fs], "pstr")) for r, fs in w], "pstr * list pstr"))
                        for t, w in walks.items()], "pstr * walk_listing")
            return isd, wk
        isd, wk = fs_coq()
        cases.append(("(%s, %s, %s, %s, %s, %s, %s)" % (isd, wk, L.lst([L.pstr(x) for x in inc], "pstr"),
                                                         L.lst([L.pstr(t) for t in targets], "pstr"), L.B(recursive), L.pstr(xp),
                                                         L.lst([L.pstr(x) for x in (cfg_x or [])], "pstr")),
                      "(%s, %s)" % (L.lst([L.pstr(x) for x in got_f], "pstr"), L.lst([L.pstr(x) for x in got_x], "pstr"))))
        descr.append(inp)
        # predicate pool
        for _ in range(6):
            path = rng.choice(files) if files else "a.py"
            path = rng.choice(["", "./", root + "/"]) + path
            exc = rng.sample(["test", ".git", "*.egg", "*/sub/*", "pkg/*", "*.txt", "con", ".", "a", "sub/", "[ab].py", "./[ab].py", "*/[!a].py", "s[e]tup.py"], rng.randint(0, 3))
            enf = rng.random() < 0.7
            r = bman._is_file_included(path, inc, exc, enforce_glob=enf)
            pcases.append(("(%s, %s, %s, %s)" % (L.pstr(path), L.lst([L.pstr(x) for x in inc], "pstr"), L.lst([L.pstr(x) for x in exc], "pstr"), L.B(enf)), L.B(r)))
            pdescr.append({"path": path, "exclude": exc, "enforce": enf})
            R.count("predicate")
        shutil.rmtree(root, ignore_errors=True)
    imports = "From Bandit Require Import Plugins.Misc Manager.Discover Proofs.C08_proofs.\n"
    extra = ("Definition mkfs (isd : list (pstr * bool)) (wk : list (pstr * walk_listing)) : fs_oracle :=\n"
             "  FS (fun p => match assoc p isd with Some b => b | None => false end) (fun p => match assoc p wk with Some w => w | None => [] end).\n"
             "Fixpoint dedup (l : list pstr) : list pstr := match l with [] => [] | x :: t => if mem_pstr x t then dedup t else x :: dedup t end.\n"
             "Definition canon (l : list pstr) := isort (dedup l).\n"
             "Definition run (x : list (pstr * bool) * list (pstr * walk_listing) * list pstr * list pstr * bool * pstr * list pstr) :=\n"
             "  match x with (isd, wk, inc, targets, rec, xp, cfgx) => let r := discover (mkfs isd wk) inc cfgx targets rec xp in (canon (fst r), canon (snd r)) end.\n"
             "Definition peq (a b : list pstr * list pstr) := list_eqb pstr_eqb (fst a) (canon (fst b)) && list_eqb pstr_eqb (snd a) (canon (snd b)).\n")
    mm, br = core.unit_corr(imports, "run", "list (pstr * bool) * list (pstr * walk_listing) * list pstr * list pstr * bool * pstr * list pstr",
                            "list pstr * list pstr", "peq", cases, extra_defs=extra, label="c11d", shard=100)
    R.broken.extend(br)
    for i, tail in mm[:10]:
        R.broken.append({"what": "correspondence: discover_files differs from the Discover model", "input": descr[i],
                         "implementation": cases[i][1][:400], "model_output_excerpt": tail[:600]})
    mm, br = core.unit_corr("From Bandit Require Import Plugins.Misc Manager.Discover.\n",
                            "fun x => match x with (p, inc, exc, enf) => is_file_included p inc exc enf end",
                            "pstr * list pstr * list pstr * bool", "bool", "Bool.eqb", pcases, label="c11p", shard=500)
    R.broken.extend(br)
    for i, tail in mm[:10]:
        R.broken.append({"what": "correspondence: _is_file_included differs from the model", "input": pdescr[i],
                         "implementation": pcases[i][1], "model_output_excerpt": tail[:300]})
    cli_discovery(R)
    R.disagreements_checked = len(cases) + len(pcases)
