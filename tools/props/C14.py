"""C14 - process-spawning checks follow the documented decision table."""
import family
import scancorr
from oracles import c14

PROP_FILES = ["theories/Props/C14.v", "theories/Inst/C14_inst.v"]
DEPS = ["theories/Proofs/Shell_proofs.vo", "theories/Plugins/All.vo", "theories/Gen/Registry.vo", "theories/Gen/Regexes.vo",
        "theories/Gen/Blacklists.vo", "theories/Gen/Constants.vo"]


def run(R, replay=None):
    R.rule = ("programs from tools/gen/fam_shell.py: every configured function name x import spellings x first-argument "
              "shapes x shell= values x layouts x user-supplied configurations, partial-path and wildcard grids; scanned "
              "by the real bandit (-t B602..B609) and by the Gallina plugin models; the property's decision table is "
              "evaluated independently on the program's AST; non-trivial = at least one finding or internal error")
    family.run_family(R, PROP_FILES, DEPS, ["gen.fam_shell"], c14.oracle, "shell family", max_quick=2500, eq=scancorr.FINDINGS_AND_ERRORS)
