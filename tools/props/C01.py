"""C01 - blacklisted calls/imports are found under every import spelling."""
import random

ALLQ = set()

import core
import impl
import scancorr
from gen import programs as G

PROP_FILES = ["theories/Props/C01.v", "theories/Inst/C01_inst.v"]
DEPS = ["theories/Proofs/C01_proofs.vo", "theories/Gen/Locations.vo", "theories/Gen/Blacklists.vo", "theories/Gen/Registry.vo",
        "theories/Gen/Constants.vo", "theories/Plugins/All.vo"]


def tables():
    from bandit.core import extension_loader as el
    return el.MANAGER.blacklist


def build_programs(R, rng, tier):
    bl = tables()
    progs = []
    call_rules = [(r, q) for r in bl["Call"] for q in r["qualnames"]]
    imp_ids = {r["id"] for r in bl["Import"]}
    global ALLQ
    ALLQ = {q for r in bl["Call"] for q in r["qualnames"]}
    # ---- calls: rule x spelling x context x layout
    for r, q in call_rules:
        if r["id"] in imp_ids and "." not in q:
            sp = [("bare", [], q)]
        else:
            sp = G.spellings(q)
        if "." not in q:
            sp = [("bare", [], q)]
        if tier == "quick":
            sp = rng.sample(sp, min(2, len(sp)))
            ctxs = rng.sample(G.CONTEXTS, 2)
            layouts = [rng.choice(G.ARG_LAYOUTS)]
        else:
            ctxs = G.CONTEXTS
            layouts = G.ARG_LAYOUTS[:2] + [rng.choice(G.ARG_LAYOUTS[2:])]
        for sname, lines, callee in sp:
            for ctx in ctxs:
                for lay in layouts:
                    if ctx == "decorator" and "\n" in lay:
                        pass
                    src, line = G.in_context(ctx, callee + lay, lines)
                    progs.append({"src": src, "include": ["B001"], "kind": "call", "rule": r["id"],
                                  "level": r.get("level", "MEDIUM"), "q": q, "spelling": sname, "ctx": ctx,
                                  "line": line, "expect": True})
    # ---- imports: rule x module x spelling
    for r in bl["Import"]:
        for m in r["qualnames"]:
            sps = G.import_spellings(m)
            if tier == "quick":
                sps = rng.sample(sps, 4)
            for sname, lines in sps:
                wrap = rng.choice(["top", "func", "try"])
                if wrap == "func":
                    src = "def zz_f():\n" + "".join("    %s\n" % l for l in lines); line = len(lines) + 1
                elif wrap == "try":
                    src = "try:\n" + "".join("    %s\n" % l for l in lines) + "except ImportError:\n    pass\n"
                    line = len(lines) + 1
                else:
                    src = "".join("%s\n" % l for l in lines); line = len(lines)
                progs.append({"src": src, "include": ["B001"], "kind": "import", "rule": r["id"],
                              "level": r.get("level", "MEDIUM"), "q": m, "spelling": sname, "ctx": wrap,
                              "line": line, "expect": True})
    # ---- import statements laid out over several lines: reported on the line where the statement starts
    for r in bl["Import"]:
        mods = r["qualnames"] if tier != "quick" else rng.sample(r["qualnames"], min(2, len(r["qualnames"])))
        for m in mods:
            variants = [("from_m_import_paren", ["from %s import (" % m, "    zz_x,", "    zz_y,", ")"]),
                        ("import_backslash", ["import zz_first, \\", "    %s" % m]),
                        ("import_as_backslash", ["import \\", "    %s \\", "    as zz_a" % ()]) if False else
                        ("import_paren_like", ["import zz_first, zz_second, \\", "    zz_third, \\", "    %s" % m])]
            if "." in m:
                pkg, last = m.rsplit(".", 1)
                variants.append(("from_p_import_m_paren_last", ["from %s import (zz_other," % pkg, "    zz_more,", "    %s)" % last]))
                variants.append(("from_p_import_m_as_paren", ["from %s import (", "    %s as zz_a,", ")"]))
                variants[-1] = ("from_p_import_m_as_paren", ["from %s import (" % pkg, "    %s as zz_a," % last, ")"])
            for sname, lines in variants:
                pre = rng.choice([[], ["zz_before = 1"], ["# comment", ""]])
                src = "\n".join(pre + lines) + "\n"
                progs.append({"src": src, "include": ["B001"], "kind": "import", "rule": r["id"],
                              "level": r.get("level", "MEDIUM"), "q": m, "spelling": sname, "ctx": "multiline",
                              "line": len(pre) + 1, "expect": True})
    # ---- near misses
    pool = call_rules if tier != "quick" else rng.sample(call_rules, 60)
    for r, q in pool:
        for kind, nm in G.near_misses(q, rng):
            if nm in ALLQ:
                continue
            sname, lines, callee = rng.choice(G.spellings(nm))
            src, line = G.in_context(rng.choice(G.CONTEXTS), callee + "(1)", lines)
            progs.append({"src": src, "include": ["B001"], "kind": "nearmiss", "rule": r["id"], "q": nm,
                          "spelling": sname, "ctx": kind, "line": line, "expect": False})
    for r in bl["Import"]:
        for m in r["qualnames"]:
            for nm in (m + "ball", "zz" + m, m.split(".")[0] + "x.y" if "." in m else m + "_" ):
                for lines in (["import %s" % nm], ["from %s import y" % nm], ["import zz_w.%s" % nm]):
                    progs.append({"src": "\n".join(lines) + "\n", "include": ["B001"], "kind": "nearmiss_import",
                                  "rule": r["id"], "q": nm, "spelling": lines[0].split()[0], "ctx": "top",
                                  "line": 1, "expect": False})
    # ---- structural extras: computed callees, non-imported roots, relative and multi-name imports
    extras = [
        "import pickle\n(pickle.loads)(x)\n", "import pickle\ngetattr(pickle, 'loads')(x)\n",
        "import pickle\nf = pickle\nf.loads(x)\n", "zz.pickle.loads(x)\n", "self.pickle.loads(x)\n",
        "from . import pickle\npickle.loads(x)\n", "from .. import telnetlib\n", "from . import subprocess as sp\n",
        "import telnetlib, ftplib\n", "import os, pickle as p, sys\np.loads(x)\n",
        "from xml.etree import cElementTree as ET, ElementTree\nET.parse(f)\n",
        "import importlib\nimportlib.import_module(name)\n", "import importlib\nimportlib.import_module(name='telnetlib')\n",
        "import importlib\nimportlib.import_module(subprocess)\n", "__import__()\n", "__import__(x)\n",
        "__import__('os').system('x')\n", "import importlib as il\nil.import_module('ftplib')\n",
        "from importlib import import_module\nimport_module('pickle')\n",
        "pickle()\n", "import pickle\npickle.loads\n", "x = pickle.loads\n",
        "import a.b.c\na.b.c.d()\n", "from os import *\n", "eval('1')\n", "x.eval('1')\n", "input()\n",
        "import random\nrandom.random()\nrandom.SystemRandom().random()\n",
        "def f():\n    import pickle\n\ndef g():\n    pickle.loads(x)\n",
        "pickle.loads(x)\nimport pickle\n", "import pickle as p\nimport json as p\np.loads(x)\n",
        "from pickle import loads\nloads = 3\nloads(x)\n",
        "import hashlib\nhashlib.md5()\n", "from Crypto.Cipher import ARC2\nARC2.new(k)\n",
        "import ssl\nssl._create_unverified_context()\n", "from ssl import _create_unverified_context as c\nc()\n",
    ]
    for s in extras:
        progs.append({"src": s, "include": ["B001"], "kind": "extra", "expect": None})
    # the built-in check selected next to ordinary plugins (B001 stands for every blacklist rule whatever else is listed)
    for inc in (["B001", "B602"], ["B001", "B101", "B324"], ["B602", "B001"]):
        for src, rule, line in (("import pickle\npickle.loads(x)\n", "B301", 2), ("import telnetlib\n", "B401", 1),
                                ("from xml.etree.ElementTree import fromstring\nfromstring(x)\n", "B314", 2)):
            lvl = [r_ for t_ in ("Call", "Import") for r_ in bl[t_] if r_["id"] == rule][0].get("level", "MEDIUM")
            progs.append({"src": src, "include": inc, "kind": "call" if rule.startswith("B3") else "import", "rule": rule, "level": lvl,
                          "q": rule, "spelling": "selection " + ",".join(inc), "ctx": "top", "line": line, "expect": True})
    # one statement importing two blacklisted modules: each is a rule x spelling of the statement
    for src, ids in (("import telnetlib, ftplib\n", ["B401", "B402"]), ("import pickle, subprocess as sp\n", ["B403", "B404"]),
                     ("from xml import sax, dom\n", ["B406", "B408"])):
        progs.append({"src": src, "include": ["B001"], "kind": "multi_import", "rules": ids, "expect": "all"})
    return progs


def oracle(p, o):
    """The property statement on one run of the real code; returns a violation dict or None."""
    bl_find = [r for r in o["results"] if r["test"] == "blacklist"]
    if p["expect"] is True:
        ok = [r for r in bl_find if r["test_id"] == p["rule"] and r["lineno"] == p["line"]
              and r["sev"] == p["level"] and r["conf"] == "HIGH"]
        if not ok:
            return {"what": "blacklisted %s %s (rule %s) bound by spelling %s in context %s is not reported "
                            "with that rule's ID/severity/HIGH confidence on line %d"
                            % (p["kind"], p["q"], p["rule"], p["spelling"], p["ctx"], p["line"]),
                    "input": p["src"], "observed": bl_find, "signature": sig_missing(p)}
    elif p["expect"] == "all":
        got = {r["test_id"] for r in bl_find if r["lineno"] == 1}
        miss = [i for i in p["rules"] if i not in got]
        if miss:
            return {"what": "one import statement binding two blacklisted modules: rule(s) %s not reported (reported: %s)" % (miss, sorted(got)),
                    "input": p["src"], "observed": bl_find, "signature": "blacklist-one-finding-per-node"}
    elif p["expect"] is False:
        if p["kind"] == "nearmiss":
            bl_find = [r for r in bl_find if r["lineno"] == p["line"]]
        if bl_find:
            return {"what": "name %s is not in the tables but a blacklist finding is reported" % p["q"],
                    "input": p["src"], "observed": bl_find, "signature": sig_extra(p, bl_find)}
    if o["errors"]:
        return None   # crashes are C06's subject
    return None


def sig_missing(p):
    if p["kind"] == "import" and p["spelling"] == "import_submodule":
        return None
    return None


def sig_extra(p, found):
    if p["kind"] == "nearmiss_import":
        return "import-string-prefix"
    return None


def run(R, replay=None):
    rng = random.Random(R.seed)
    failed = core.gen()
    for f in failed:
        R.broken.append({"what": "translator failed: " + f["translator"], "log": f["stderr"]})
    R.proof = core.prove(PROP_FILES, DEPS)
    for f in R.proof["failed"]:
        R.broken.append({"what": "proof obligation no longer checks: %s (%s) %s" % (
            f["file"], f["why"], f.get("theorem") or ""), "log": f.get("log", "")})
    progs = build_programs(R, rng, R.tier)
    outs, mism, broken = scancorr.run_cases(progs, R, "c01")
    R.broken.extend(broken)
    R.rule = ("programs = blacklist rule x import spelling x syntactic context x argument layout, import rules x "
              "import spellings, near-miss names, structural extras; scanned by the real bandit (-t B001) and by "
              "the model; non-trivial = distinct program whose scan produced at least one finding or alias lookup")
    for p, o in zip(progs, outs):
        R.count("kind:" + p["kind"])
        R.count("spelling:" + str(p.get("spelling")))
        R.count("findings:%d" % len(o["results"]))
        R.case(p["src"], nontrivial=bool(o["results"]) or p["kind"].startswith("nearmiss"),
               sample={"src": p["src"], "findings": [(r["test_id"], r["lineno"]) for r in o["results"]]})
        v = oracle(p, o)
        if v:
            R.violations.append(v)
    R.disagreements_checked = len(progs)
    for i, tail in mism:
        p, o = progs[i], outs[i]
        v = oracle(p, o)
        R.broken.append({"what": "correspondence: model scan and bandit differ on a C01 program",
                         "input": p["src"], "implementation": {k: o[k] for k in ("results", "errors", "nosec")},
                         "model_output_excerpt": tail[:1500]})
