"""C15 - weak-crypto and transport checks follow their decision tables."""
import family
import scancorr
from oracles import c15

PROP_FILES = ["theories/Props/C15.v", "theories/Inst/C15_inst.v"]
DEPS = ["theories/Proofs/Crypto_proofs.vo", "theories/Plugins/All.vo", "theories/Gen/Registry.vo", "theories/Gen/Regexes.vo",
        "theories/Gen/Blacklists.vo", "theories/Gen/Constants.vo"]


def run(R, replay=None):
    R.rule = ("programs from tools/gen/fam_crypto.py: every keyed function name x import spellings x positional/keyword "
              "placement x literal values below/at/above each threshold (default and configured) x non-literal values, hash "
              "names, curves, protocol constants, verify/timeout values, host-key policies, SNMP argument counts; scanned by the "
              "real bandit and by the Gallina plugin models; canonical shapes judged independently against the statement; "
              "non-trivial = at least one finding or internal error")
    family.run_family(R, PROP_FILES, DEPS, ["gen.fam_crypto"], c15.oracle, "crypto family", max_quick=2500, eq=scancorr.FINDINGS_AND_ERRORS)
