"""C12 - run metrics are exact."""
import os
import random
import re

import core
import coqlit as L
import impl

PROP_FILES = ["theories/Props/C12.v", "theories/Inst/C12_inst.v"]
DEPS = ["theories/Proofs/C12_proofs.vo", "theories/Proofs/SplitlinesFacts.vo", "theories/Gen/Constants.vo"]
RANKS = ["UNDEFINED", "LOW", "MEDIUM", "HIGH"]

SNIPPETS = [
    "import pickle\n", "pickle.loads(x)\n", "import subprocess\n", "subprocess.Popen(c, shell=True)\n",
    "assert x\n", "password = 'x'\n", "f('/tmp/x')\n", "foo(shell=True)\n", "exec('x')\n", "x = 1\n", "\n",
    "# a comment\n", "   # indented comment\n", "\t\n", "   \n", "\x0c\n", "y = 2  # trailing\n",
    "q = 'select * from t where a=%s' % y\n", "try:\n    pass\nexcept Exception:\n    pass\n",
    "assert x  # nosec\n", "assert x  # nosec B101\n", "assert x  # nosec B999\n", "exec('x')  # nosec B101\n",
    "s = '''\n# not a comment\n\n'''\n", "import telnetlib  # nosec\n", "def f(password='p'):\n    pass\n",
    # a specific nosec by rule name, including the two names with capitals
    "import xml.etree.ElementTree as ET\nET.fromstring(x)  # nosec xml_bad_ElementTree\n", "import xml.etree.cElementTree as CET\nCET.parse(f)  # nosec xml_bad_cElementTree\n",
    "assert x  # nosec assert_used\n", "import telnetlib  # nosec import_telnetlib\n",
    # several findings withheld by one comment on one line
    "import subprocess\nsubprocess.Popen('ls *', shell=True)  # nosec\n", "assert pickle.loads(x)  # nosec\n",
    "import subprocess\nsubprocess.Popen('ls *', shell=True)  # nosec B602, B607\n", "assert pickle.loads(x), exec(y)  # nosec B101,B301\n",
    "import subprocess\nsubprocess.call('ls',\n    shell=True)  # nosec\n",
]


def spec_loc(data):
    """The statement: lines that are neither blank nor comment-only (text level, BOM is not content)."""
    if data.startswith(b"\xef\xbb\xbf"):
        data = data[3:]
    n = 0
    for line in data.replace(b"\r\n", b"\n").replace(b"\r", b"\n").split(b"\n"):
        t = line.strip(b" \t\x0b\x0c")
        if t and not t.startswith(b"#"):
            n += 1
    return n


def make_file(rng):
    parts = [rng.choice(SNIPPETS) for _ in range(rng.randint(0, 10))]
    src = "".join(parts)
    nl = rng.choice(["\n", "\n", "\r\n", "\r"])
    data = src.replace("\n", nl).encode()
    if rng.random() < 0.15:
        data = b"\xef\xbb\xbf" + data
    if rng.random() < 0.15 and data.endswith(nl.encode()):
        data = data[:-len(nl)]
    if rng.random() < 0.1:
        data = b"# -*- coding: utf-8 -*-" + nl.encode() + data
    return data


def finding_coq(r):
    return impl.finding_coq(r)


def known_tests():
    """IDs and names of every registered test, read from the registry data (not through the lookup functions)."""
    from bandit.core import extension_loader
    ext = extension_loader.MANAGER
    out = set()
    for p_ in ext.plugins:
        out |= {p_.plugin._test_id, p_.name}
    for rules in ext.blacklist.values():
        for b in rules:
            out |= {b["id"], b["name"]}
    return out


KNOWN_TESTS = set()


def cli_targets(R, rng, tier):
    """The totals are the sums over the files whatever the targets are called: relative, dotted, underscored, explicit."""
    import climain
    import json
    import shutil
    d = os.path.join(impl.scratch(), "c12t")
    shutil.rmtree(d, ignore_errors=True)
    for sub in ("_vendor", "pkg", "__pycache__x", "pkg/_private"):
        os.makedirs(os.path.join(d, sub))
    srcs = {"_vendor/a.py": "assert a  # nosec\nimport pickle\n", "_vendor/_b.py": "exec(x)\n\n# c\n", "pkg/c.py": "assert c\nassert d  # nosec B101\n",
            "pkg/_private/d.py": "import subprocess\nsubprocess.call(x, shell=True)  # nosec\n", "__pycache__x/e.py": "assert e\n", "_top.py": "assert t  # nosec\nx = 1\n",
            "__init__.py": "import telnetlib\n", "pkg/zz_py2.py": "print 'python 2'\nx = 1\ny = 2\n",
            # findings first, then an expression nested deeper than the visitor can follow: the visit aborts half way
            "pkg/zz_deep.py": "import pickle\nassert zz_q\nzz_v = " + " + ".join(["1"] * 1500) + "\nexec(zz_e)\n",
            # withheld findings, then the visit aborts; the next file scanned has no nosec comment at all
            "pkg/zz_deep_nosec.py": "assert zz_a  # nosec\nexec(zz_b)  # nosec B102\nzz_v = " + " + ".join(["1"] * 1500) + "\n",
            "pkg/zz_plain_after.py": "assert zz_c\n",
            # findings attached to an async definition itself
            "pkg/zz_async.py": "import ssl\nasync def zz_co(zz_u, password='hunter2', zz_v=ssl.PROTOCOL_SSLv3):\n    assert zz_u\n"}
    for f, src in srcs.items():
        open(os.path.join(d, f), "w").write(src)
    target_sets = [["-r", "_vendor"], ["-r", "_vendor", "pkg"], ["-r", "./_vendor"], ["-r", "."], ["_top.py", "__init__.py"], ["-r", "pkg", "_top.py"],
                   ["-r", "__pycache__x", "_vendor"], ["-r", os.path.join(d, "_vendor")], ["-r", "pkg/_private"]]
    for ts in target_sets:
        r = climain.run_main(["-q", "-f", "json", "--exit-zero"] + ts, cwd=d)
        R.case(("targets", tuple(ts)), nontrivial=True, sample={"targets": ts, "exit": r["exit"]})
        R.count("cli-targets")
        if r["exception"]:
            R.violations.append({"what": "no report for targets %s (%s)" % (ts, r["exception"]), "input": {"targets": ts}, "observed": (r["traceback"] or "")[-300:], "signature": None})
            continue
        j = json.loads(r["stdout"])
        files = {k: v for k, v in j["metrics"].items() if k != "_totals"}
        tot = j["metrics"]["_totals"]
        for k in tot:
            want = sum(v.get(k, 0) for v in files.values())
            if tot[k] != want:
                R.violations.append({"what": "_totals[%s]=%s is not the sum %s over the %d files of the report (targets %s)" % (k, tot[k], want, len(files), ts),
                                     "input": {"targets": ts, "files": sorted(files)}, "observed": tot, "signature": None})
                break
        # every finding is counted, every counted file is listed
        for crit, key in (("SEVERITY", "issue_severity"), ("CONFIDENCE", "issue_confidence")):
            for rk in RANKS:
                n = sum(1 for x in j["results"] if x[key] == rk)
                if tot.get("%s.%s" % (crit, rk)) != n:
                    R.violations.append({"what": "_totals[%s.%s]=%s but the report lists %d such findings (targets %s)" % (crit, rk, tot.get("%s.%s" % (crit, rk)), n, ts),
                                         "input": {"targets": ts}, "observed": tot, "signature": None})
        # per file as well: what a file's block counts is what the report lists for that file
        for fn, blk in files.items():
            for crit, key in (("SEVERITY", "issue_severity"), ("CONFIDENCE", "issue_confidence")):
                for rk in RANKS:
                    n = sum(1 for x in j["results"] if x["filename"] == fn and x[key] == rk)
                    if blk.get("%s.%s" % (crit, rk), 0) != n:
                        R.violations.append({"what": "metrics of %s: %s.%s=%s but the report lists %d such findings in that file (targets %s)" % (
                            fn, crit, rk, blk.get("%s.%s" % (crit, rk)), n, ts), "input": {"targets": ts}, "observed": blk, "signature": None})
        for fn, blk in files.items():
            try:
                text = open(os.path.join(d, fn) if not os.path.isabs(fn) else fn).read()
            except OSError:
                continue
            if "nosec" not in text and (blk.get("nosec", 0) or blk.get("skipped_tests", 0)):
                R.violations.append({"what": "metrics of %s, a file without any nosec comment: nosec=%s skipped_tests=%s (targets %s)" % (
                    fn, blk.get("nosec"), blk.get("skipped_tests"), ts), "input": {"targets": ts}, "observed": blk, "signature": None})
        for x in j["results"]:
            if x["filename"] not in files:
                R.violations.append({"what": "a finding is reported in %s, which has no metrics block (targets %s)" % (x["filename"], ts),
                                     "input": {"targets": ts}, "observed": sorted(files), "signature": None})
                break
    shutil.rmtree(d, ignore_errors=True)


def run(R, replay=None):
    rng = random.Random(R.seed)
    for f in core.gen():
        R.broken.append({"what": "translator failed: " + f["translator"], "log": f["stderr"]})
    R.proof = core.prove(PROP_FILES, DEPS)
    for f in R.proof["failed"]:
        R.broken.append({"what": "proof obligation no longer checks: %s (%s) %s" % (f["file"], f["why"], f.get("theorem") or ""),
                         "log": f.get("log", "")})
    R.rule = ("files assembled from snippets (findings of mixed ranks, nosec comments, blank/comment/whitespace lines, multi-line "
              "strings) x line endings LF/CRLF/CR x BOM x cookie x missing final newline; scanned singly and in groups of 1-4; "
              "per-file block and _totals compared with the Metrics model and with the statement; non-trivial = file with at "
              "least one finding or one non-code line"
              "; a file with findings followed by an expression too deep to visit; per-file counts against the findings listed for that file")
    KNOWN_TESTS.update(known_tests())
    n_groups = 120 if R.tier == "quick" else 1500
    fixed = [b"\xef\xbb\xbf# c\nx=1\n", b"", b"\n", b"#\n", b"x=1", b"\r\r\n\n", b"  #x\r\n\t\x0c\n y=1\r"]
    block_cases, total_cases = [], []
    for g in range(n_groups):
        datas = [make_file(rng) for _ in range(rng.randint(1, 4))]
        if g < len(fixed):
            datas = [fixed[g]]
        d = os.path.join(impl.scratch(), "g%d" % g)
        os.makedirs(d, exist_ok=True)
        paths = []
        for k, data in enumerate(datas):
            p = os.path.join(d, "f%d.py" % k)
            open(p, "wb").write(data)
            paths.append(p)
        import linecache
        linecache.clearcache()
        mgr = impl.make_manager()
        mgr.files_list = list(paths)
        mgr.run_tests()
        mgr2 = impl.make_manager(ignore_nosec=True)
        mgr2.files_list = list(paths)
        mgr2.run_tests()
        blocks_coq = []
        sums = {}
        for p, data in zip(paths, datas):
            blk = mgr.metrics.data.get(p)
            res = [impl.issue_dict(i) for i in mgr.results if i.fname == p]
            res2 = [i for i in mgr2.results if i.fname == p]
            skipped = p not in mgr.files_list
            R.case(data, nontrivial=bool(res) or spec_loc(data) != len(data.splitlines()),
                   sample={"bytes": repr(data[:120]), "block": blk})
            R.count("skipped" if skipped else "scanned")
            R.count("nl:" + ("crlf" if b"\r\n" in data else "cr" if b"\r" in data else "lf"))
            if blk is None:
                continue
            for k, v in blk.items():
                sums[k] = sums.get(k, 0) + v
            # ---- the statement
            if blk["loc"] != spec_loc(data):
                sig = "bom-first-line-comment" if data.startswith(b"\xef\xbb\xbf") and data[3:].lstrip(b" \t\x0c").startswith(b"#") else None
                R.violations.append({"what": "loc=%d but %d lines are neither blank nor comment-only" % (blk["loc"], spec_loc(data)),
                                     "input": repr(data), "observed": blk, "signature": sig})
            if not skipped:
                for crit, key in (("SEVERITY", "sev"), ("CONFIDENCE", "conf")):
                    for r in RANKS:
                        want = sum(1 for x in res if x[key] == r)
                        if blk.get("%s.%s" % (crit, r)) != want:
                            R.violations.append({"what": "metric %s.%s=%s but %d findings of that rank were found" % (crit, r, blk.get("%s.%s" % (crit, r)), want),
                                                 "input": repr(data), "observed": blk, "signature": None})
                withheld = len(res2) - len(res)
                # which counter a withheld finding belongs to: 'nosec' if a comment of its lines names no known test, else 'skipped_tests'
                exp_bare, exp_spec, classifiable = 0, 0, True
                rep_keys = [(x["test_id"], x["lineno"], x["col"]) for x in res]
                src_lines = data.replace(b"\r\n", b"\n").replace(b"\r", b"\n").decode("utf-8", "replace").split("\n")
                for i2 in res2:
                    k2 = (i2.test_id, i2.lineno, i2.col_offset)
                    if k2 in rep_keys:
                        rep_keys.remove(k2)
                        continue
                    lines_of = sorted(set(i2.linerange) | {i2.lineno})
                    kinds = []
                    for ln in lines_of:
                        if 1 <= ln <= len(src_lines):
                            m_ = re.search(r"#\s*nosec\b:?(.*)$", src_lines[ln - 1])
                            if m_:
                                toks = [t for t in re.split(r"[\s,]+", m_.group(1).split("#")[0]) if t]
                                known = [t for t in toks if t in KNOWN_TESTS]
                                kinds.append("specific" if known else "bare")
                    if not kinds or len(set(kinds)) > 1:
                        classifiable = False
                    elif kinds[0] == "bare":
                        exp_bare += 1
                    else:
                        exp_spec += 1
                if classifiable and (blk["nosec"], blk["skipped_tests"]) != (exp_bare, exp_spec):
                    R.violations.append({"what": "nosec=%d skipped_tests=%d but %d findings are withheld by bare comments and %d by comments naming tests" % (
                        blk["nosec"], blk["skipped_tests"], exp_bare, exp_spec), "input": repr(data), "observed": blk, "signature": None})
                if blk["nosec"] + blk["skipped_tests"] != withheld:
                    R.violations.append({"what": "nosec+skipped_tests=%d but %d findings were withheld" % (blk["nosec"] + blk["skipped_tests"], withheld),
                                         "input": repr(data), "observed": blk, "signature": None})
            # ---- model: block from (bytes, reported findings)
            if not skipped:
                exp = "(%s, %s, %s)" % (L.Z(blk["loc"]),
                                        L.lst([L.pair(L.pstr(r), L.Z(blk.get("SEVERITY." + r, -1))) for r in RANKS], "pstr * Z"),
                                        L.lst([L.pair(L.pstr(r), L.Z(blk.get("CONFIDENCE." + r, -1))) for r in RANKS], "pstr * Z"))
                block_cases.append(("(%s, %s)" % (L.pbytes(data), L.lst([finding_coq(x) for x in res], "finding")), exp))
            def rk(pref):
                if not any(k.startswith(pref) for k in blk):
                    return "None"
                return "(Some %s)" % L.lst([L.pair(L.pstr(r), L.Z(blk.get(pref + r, 0))) for r in RANKS], "pstr * Z")
            blocks_coq.append("(FileBlock %s %s %s %s %s %s)" % (L.pstr(os.path.basename(p)), L.Z(blk["loc"]), L.Z(blk["nosec"]),
                                                               L.Z(blk["skipped_tests"]), rk("SEVERITY."), rk("CONFIDENCE.")))
        tot = mgr.metrics.data["_totals"]
        for k, v in sums.items():
            if tot.get(k) != v:
                R.violations.append({"what": "_totals[%s]=%s is not the sum %s over files" % (k, tot.get(k), v),
                                     "input": [repr(x) for x in datas], "observed": tot, "signature": None})
        total_cases.append((L.lst(blocks_coq, "file_block"),
                            "(Totals %s %s %s %s %s)" % (L.Z(tot["loc"]), L.Z(tot["nosec"]), L.Z(tot["skipped_tests"]),
                                                         L.lst([L.pair(L.pstr(r), L.Z(tot.get("SEVERITY." + r, 0))) for r in RANKS], "pstr * Z"),
                                                         L.lst([L.pair(L.pstr(r), L.Z(tot.get("CONFIDENCE." + r, 0))) for r in RANKS], "pstr * Z"))))
    imports = "From Bandit Require Import Engine.Metrics Gen.Constants.\n"
    extra = ("Definition pz_eqb (a b : list (pstr * Z)) := list_eqb (fun x y => pstr_eqb (fst x) (fst y) && Z.eqb (snd x) (snd y)) a b.\n"
             "Definition blk_eqb (a b : Z * list (pstr * Z) * list (pstr * Z)) := match a, b with (l1, s1, c1), (l2, s2, c2) => Z.eqb l1 l2 && pz_eqb s1 s2 && pz_eqb c1 c2 end.\n"
             "Definition tot_eqb (a b : totals) := Z.eqb (tt_loc a) (tt_loc b) && Z.eqb (tt_nosec a) (tt_nosec b) && Z.eqb (tt_skipped a) (tt_skipped b) && pz_eqb (tt_sev a) (tt_sev b) && pz_eqb (tt_conf a) (tt_conf b).\n"
             "Definition block_of (x : list N * list finding) := match scores_of consts_gen (snd x) with Some sc => (count_locs (splitlines (fst x)), counts_of consts_gen (fst sc), counts_of consts_gen (snd sc)) | None => (-1, [], [])%Z end.\n")
    mm, br = core.unit_corr(imports, "block_of", "list N * list finding", "Z * list (pstr * Z) * list (pstr * Z)", "blk_eqb",
                            block_cases, label="c12b", extra_defs=extra, shard=200)
    R.broken.extend(br)
    for i, tail in mm:
        R.broken.append({"what": "correspondence: per-file metrics block differs from the Metrics model",
                         "input": block_cases[i][0][:400], "implementation": block_cases[i][1][:400], "model_output_excerpt": tail[:800]})
    mm, br = core.unit_corr(imports, "aggregate consts_gen", "list file_block", "totals", "tot_eqb", total_cases,
                            label="c12t", extra_defs=extra, shard=300)
    R.broken.extend(br)
    for i, tail in mm:
        R.broken.append({"what": "correspondence: _totals differs from the aggregate model",
                         "input": total_cases[i][0][:400], "implementation": total_cases[i][1][:400], "model_output_excerpt": tail[:800]})
    cli_targets(R, rng, R.tier)
    R.disagreements_checked = len(block_cases) + len(total_cases)
