"""C18 - the rule registry is coherent and the published rules stay enforced."""
import glob
import json
import os
import random
import re

import climain
import core
import coqlit as L
import impl
from gen import programs as G

PROP_FILES = ["theories/Props/C18.v", "theories/Inst/C18_inst.v"]
DEPS = ["theories/Proofs/C18_proofs.vo", "theories/Manager/DocUrl.vo", "theories/Gen/Registry.vo", "theories/Gen/Blacklists.vo",
        "theories/Gen/Published.vo", "theories/Gen/Docs.vo", "theories/Cli/Thresholds.vo"]
RANKS = ["UNDEFINED", "LOW", "MEDIUM", "HIGH"]


def run(R, replay=None):
    rng = random.Random(R.seed)
    for f in core.gen():
        R.broken.append({"what": "translator failed: " + f["translator"], "log": f["stderr"]})
    R.proof = core.prove(PROP_FILES, DEPS)
    for f in R.proof["failed"]:
        R.broken.append({"what": "proof obligation no longer checks: %s (%s) %s" % (f["file"], f["why"], f.get("theorem") or ""),
                         "log": f.get("log", "")})
    from bandit.core import extension_loader as el
    from bandit.core import manager as bman
    man = el.MANAGER
    R.rule = ("finite registry enumerated completely: every plugin and blacklist rule (id, name) looked up through the real "
              "manager vs the model; every published (id, qualified name, severity) triggered by a generated program; one "
              "triggering example program per ID re-scanned with the check named by ID and by name in nosec comments, legacy "
              "profiles and -t/-s; non-trivial = every case (each names a distinct registered rule)"
              "; links in html/csv/txt reports; every registered name resolved in a fresh process after a report was written")
    R.exhaustive = True
    # ---- unit correspondence: token -> id resolution on ids, names, and junk
    rows = [(p.plugin._test_id, p.name) for p in man.plugins]
    for rules in man.blacklist.values():
        for b in rules:
            if (b["id"], b["name"]) not in rows:
                rows.append((b["id"], b["name"]))
    toks = [i for i, _ in rows] + [n for _, n in rows] + ["B001", "B000", "b101", "B1010", "nosuch", "", "Blacklist", "blacklist",
                                                             "assert_use", "ASSERT_USED", "import-pickle"]
    cases = []
    for t in toks:
        got = bman._find_test_id_from_nosec_string(man, t)
        got = got if got else None
        cases.append((L.pstr(t), L.opt(got, L.pstr, "pstr")))
        R.case(("tok", t), sample={"token": t, "resolved": got})
        R.count("token")
    mm, br = core.unit_corr("From Bandit Require Import Manager.Registry Gen.Registry Gen.Blacklists.\n",
                            "find_test_id registry blacklist builtin_ids", "pstr", "option pstr",
                            "fun a b => match a, b with Some x, Some y => pstr_eqb x y | None, None => true | _, _ => false end",
                            cases, label="c18")
    R.broken.extend(br)
    for i, tail in mm:
        R.broken.append({"what": "correspondence: token->id resolution differs from the registry model", "input": toks[i],
                         "implementation": cases[i][1], "model_output_excerpt": tail[:500]})
    # ---- statement: ids/names one-to-one
    for i, n in rows:
        a = bman._find_test_id_from_nosec_string(man, i)
        b = bman._find_test_id_from_nosec_string(man, n)
        if a != i or b != i:
            R.violations.append({"what": "id %s / name %s do not look each other up (%r, %r)" % (i, n, a, b),
                                 "input": {"id": i, "name": n}, "observed": [a, b], "signature": None})
    # ---- statement: every registered check has a documentation URL, and it names a page of the documentation tree
    from bandit.core import docs_utils
    import re as _re
    pages = set(os.listdir(os.path.join(core.REPO, "doc", "source", "plugins")))
    bl_anchor_src = {k: open(os.path.join(core.REPO, "doc", "source", "blacklists", "blacklist_%s.rst" % k)).read() for k in ("calls", "imports")
                     if os.path.exists(os.path.join(core.REPO, "doc", "source", "blacklists", "blacklist_%s.rst" % k))}
    base = docs_utils.get_url("no-such-id")
    for p_ in man.plugins:
        tid = p_.plugin._test_id
        url = docs_utils.get_url(tid)
        R.case(("doc", tid), sample={"id": tid, "url": url})
        R.count("doc-url")
        m_ = _re.match(_re.escape(base) + r"plugins/([a-z0-9_]+)\.html$", url)
        if not m_:
            R.violations.append({"what": "check %s has no documentation URL of the documented form" % tid, "input": {"id": tid}, "observed": url, "signature": None})
        elif m_.group(1) + ".rst" not in pages:
            R.violations.append({"what": "the documentation URL of %s names a page that does not exist (%s.rst)" % (tid, m_.group(1)),
                                 "input": {"id": tid}, "observed": url,
                                 "signature": "dead-doc-link:" + tid if tid in ("B508", "B509") else None})
    for rules in man.blacklist.values():
        for b in rules:
            url = docs_utils.get_url(b["id"])
            if not url.startswith(base + "blacklists/blacklist_") or "#" not in url:
                R.violations.append({"what": "blacklist rule %s has no documentation URL of the documented form" % b["id"], "input": {"id": b["id"]},
                                     "observed": url, "signature": None})
    # ---- the link each report record carries is the link of that record's own rule (several blacklist rules in one report)
    d_ = os.path.join(impl.scratch(), "c18u")
    os.makedirs(d_, exist_ok=True)
    src_ = ("import telnetlib\nimport pickle\nimport subprocess\nimport xml.sax\npickle.loads(x)\neval(y)\nimport hashlib\nhashlib.md5(z)\n"
            "from pysnmp.hlapi import CommunityData\nCommunityData('public', mpModel=0)\nassert x\n")
    f_ = os.path.join(d_, "links.py")
    open(f_, "w").write(src_)
    import reports as _reports
    import xml.etree.ElementTree as _ET
    for fmt in ("json", "yaml", "xml", "sarif", "html", "csv", "txt"):
        out_ = os.path.join(d_, "r.out")
        r_ = climain.run_main(["-q", "-f", fmt, "-o", out_, f_])
        R.case(("links", fmt), sample={"format": fmt, "exit": r_["exit"]})
        R.count("report-links")
        if r_["exception"]:
            R.violations.append({"what": "format %s: no report (%s)" % (fmt, r_["exception"]), "input": {"src": src_}, "observed": "", "signature": None})
            continue
        text_ = open(out_, encoding="utf-8").read()
        pairs = []
        if fmt == "json":
            pairs = [(x["test_id"], x.get("more_info")) for x in json.loads(text_)["results"]]
        elif fmt == "yaml":
            import yaml as _yaml
            pairs = [(x["test_id"], x.get("more_info")) for x in _yaml.safe_load(text_)["results"]]
        elif fmt == "xml":
            for tc in _ET.fromstring(text_).iter("testcase"):
                err = tc.find("error")
                if err is not None:
                    m_id = re.search(r"Test ID: (\S+)", err.text or "")
                    pairs.append((m_id.group(1) if m_id else None, err.get("more_info")))
        elif fmt == "html":
            pairs = re.findall(r"<b>Test ID:</b>\s*(B\d+)<br>.*?<b>More info: </b><a href=\"([^\"]*)\"", text_, re.S)
        elif fmt == "csv":
            import csv as _csv
            import io as _io
            pairs = [(row["test_id"], row["more_info"]) for row in _csv.DictReader(_io.StringIO(text_, newline=""))]
        elif fmt == "txt":
            pairs = re.findall(r">> Issue: \[(B\d+):[^\]]*\].*?More Info: (\S+)", text_, re.S)
        elif fmt == "sarif":
            j_ = json.loads(text_)
            rules_ = {ru["id"]: ru.get("helpUri") for ru in j_["runs"][0]["tool"]["driver"].get("rules", [])}
            pairs = [(res["ruleId"], rules_.get(res["ruleId"])) for res in j_["runs"][0]["results"]]
        for tid, url in pairs:
            if tid and tid.startswith("B") and url != docs_utils.get_url(tid):
                R.violations.append({"what": "format %s: the record of %s carries the link %s, its rule's documentation is %s" % (fmt, tid, url, docs_utils.get_url(tid)),
                                     "input": {"src": src_, "format": fmt}, "observed": pairs[:8], "signature": None})
                break
        if len([1 for t_, _ in pairs if t_ and t_.startswith("B")]) < 8:
            R.violations.append({"what": "format %s: expected at least 8 records with links, found %d" % (fmt, len(pairs)), "input": {"src": src_}, "observed": pairs, "signature": None})
    # ---- ... nor on a report having been written before the first name was ever looked up (a fresh process: scan, write a
    # report that links every blacklist rule it found, only then resolve every registered name)
    import subprocess as _sp
    import sys as _sys
    script_ = (
        "import json, sys, tempfile, os\n"
        "from bandit.core import config, manager, extension_loader\n"
        "from bandit.core import manager as bman\n"
        "d = tempfile.mkdtemp()\n"
        "f = os.path.join(d, 'first.py')\n"
        "open(f, 'w').write('import pickle, subprocess, telnetlib\\nimport xml.sax\\npickle.loads(x)\\nimport random\\nrandom.random()\\n'\n"
        "                   'import tempfile\\ntempfile.mktemp()\\nimport urllib.request\\nurllib.request.urlopen(u)\\n')\n"
        "m = manager.BanditManager(config.BanditConfig(), 'file')\n"
        "m.discover_files([f]); m.run_tests()\n"
        "for fmt in ('json', 'html'):\n"
        "    m.output_results(3, 'LOW', 'LOW', open(os.path.join(d, 'r.' + fmt), 'w'), fmt, None)\n"
        "man = extension_loader.MANAGER\n"
        "bad = []\n"
        "rows = [(p.plugin._test_id, p.name) for p in man.plugins] + [(b['id'], n) for n, b in sorted(man.blacklist_by_name.items())]\n"
        "for i, n in rows:\n"
        "    if man.get_test_id(n) != i: bad.append(['get_test_id', n, man.get_test_id(n), i])\n"
        "    got = bman._parse_nosec_comment('# nosec ' + n + ', B999x')\n"
        "    if got is None or set(got) != {i}: bad.append(['nosec', n, None if got is None else sorted(got), i])\n"
        "import shutil; shutil.rmtree(d, ignore_errors=True)\n"
        "print(json.dumps({'rows': len(rows), 'bad': bad[:10]}))\n")
    # the same in an interpreter that strips assert statements (python -O): the registry is built by ordinary statements
    for flags_ in ([], ["-O"], ["-OO"]):
        pr_ = _sp.run([_sys.executable] + flags_ + ["-c", script_], capture_output=True, text=True, timeout=300,
                      env=dict(os.environ, PYTHONPATH=core.REPO, PYTHONHASHSEED="0"))
        R.case(("report-then-lookup", tuple(flags_)), nontrivial=True, sample={"interpreter_flags": flags_, "exit": pr_.returncode})
        R.count("report-then-lookup")
        try:
            res_ = json.loads(pr_.stdout.strip().splitlines()[-1])
        except Exception:  # noqa: BLE001
            res_ = None
        how_ = "fresh process (python %s): scan, write json+html reports, then resolve every registered name" % " ".join(flags_)
        if res_ is None or res_["rows"] < 60:
            R.violations.append({"what": "a process (python %s) that writes a report and then resolves every registered name does not complete or has a registry of %s names" % (
                " ".join(flags_), None if res_ is None else res_["rows"]), "input": how_, "observed": (pr_.stderr or pr_.stdout)[-400:], "signature": None})
        elif res_["bad"]:
            R.violations.append({"what": "after a report was written (python %s), the name %s resolves to %s instead of %s (%s)" % (
                " ".join(flags_), res_["bad"][0][1], res_["bad"][0][2], res_["bad"][0][3], res_["bad"][0][0]), "input": how_, "observed": res_["bad"], "signature": None})
    # ---- name lookups do not depend on what the parser has seen before (free text after a nosec, other capitalisations)
    for noise in ("# nosec B311 Random numbers only for jitter", "# nosec b311 Pickle Eval MD5 Assert_Used", "# nosec IMPORT_TELNETLIB EXEC_USED"):
        bman._parse_nosec_comment(noise)
    for i, n in rows:
        for tok in (i, n):
            got_ = bman._parse_nosec_comment("# nosec " + tok)
            if got_ is None or set(got_) != {i}:
                R.violations.append({"what": "after comments with free text / other capitalisations were parsed, '# nosec %s' resolves to %s instead of {%s}" % (
                    tok, None if got_ is None else sorted(got_), i), "input": {"token": tok}, "observed": None if got_ is None else sorted(got_), "signature": None})
    ids = [i for i, _ in rows]
    names = [n for _, n in rows]
    for what, seq in (("ID", ids), ("name", names)):
        dup = sorted({x for x in seq if seq.count(x) > 1})
        if dup:
            R.violations.append({"what": "duplicate %s in the registry: %s" % (what, dup), "input": dup, "observed": dup, "signature": None})
    for i in ids:
        if not re.fullmatch(r"B\d{3}", i):
            R.violations.append({"what": "malformed test ID %r" % i, "input": i, "observed": i, "signature": None})
    # ---- published rules still enforced (one generated program per published qualified name)
    spec = json.load(open(os.path.join(core.VERIF, "spec", "published_rules.json")))["rules"]
    imp_ids = {b["id"] for b in man.blacklist.get("Import", [])}
    for r in spec:
        q = r["qualname"]
        if r["id"] in imp_ids:
            src = "import %s\n" % q
            line = 1
        elif "." in q:
            sname, lines, callee = rng.choice(G.spellings(q))
            src = "\n".join(lines) + "\n" + callee + "(zz)\n"
            line = len(lines) + 1
        else:
            src, line = q + "(zz)\n", 1
        o = impl.scan_bytes(src.encode(), include=["B001"])
        hit = [x for x in o["results"] if x["test_id"] == r["id"] and x["lineno"] == line
               and RANKS.index(x["sev"]) >= RANKS.index(r["severity"])]
        R.case(("pub", r["id"], q), sample={"published": r, "program": src})
        R.count("published")
        if not hit:
            R.violations.append({"what": "published rule %s (%s, %s) is no longer enforced with at least its published severity"
                                         % (r["id"], q, r["severity"]), "input": src,
                                 "observed": [(x["test_id"], x["sev"], x["lineno"]) for x in o["results"]], "signature": None})
    # ---- one triggering example per ID, named by ID vs by name
    ex = sorted(glob.glob(os.path.join(core.REPO, "examples", "*.py")))
    trig = {}
    for f in ex:
        try:
            data = open(f, "rb").read()
        except OSError:
            continue
        o = impl.scan_bytes(data)
        for x in o["results"]:
            trig.setdefault(x["test_id"], (f, data, x))
    for i, n in rows:
        if i not in trig:
            R.count("no-example-for-id")
            continue
        f, data, x = trig[i]
        R.case(("trigger", i), sample={"id": i, "name": n, "example": os.path.basename(f), "line": x["lineno"]})
        R.count("trigger")
        # nosec by ID and by name on the reported line
        lines = data.decode("utf-8", "replace").split("\n")
        ln = x["lineno"] - 1
        if 0 <= ln < len(lines) and "#" not in lines[ln] and not lines[ln].rstrip().endswith(("\\", "(", ",", "[")):
            outs = []
            for tag in (i, n):
                mod = list(lines)
                mod[ln] = mod[ln] + "  # nosec " + tag
                o = impl.scan_bytes("\n".join(mod).encode("utf-8"))
                outs.append(sorted((y["test_id"], y["lineno"]) for y in o["results"]))
            if outs[0] != outs[1]:
                R.violations.append({"what": "'# nosec %s' and '# nosec %s' do not suppress the same findings" % (i, n),
                                     "input": {"example": f, "line": x["lineno"]}, "observed": [outs[0][:5], outs[1][:5]],
                                     "signature": None})
        # legacy profile: include by ID vs by name
        d = impl.scratch()
        res = []
        for tag in (i, n):
            cfg = os.path.join(d, "prof.yaml")
            open(cfg, "w").write("profiles:\n  p:\n    include:\n      - %s\n" % tag)
            r = climain.run_main(["-q", "-c", cfg, "-p", "p", "-f", "json", "--exit-zero", f])
            try:
                res.append(sorted((y["test_id"], y["line_number"]) for y in json.loads(r["stdout"])["results"]))
            except Exception:
                res.append(("error", r["exit"], r["exception"]))
        if res[0] != res[1]:
            R.violations.append({"what": "profile include by ID %s and by name %s select different findings" % (i, n),
                                 "input": {"example": f}, "observed": [str(res[0])[:200], str(res[1])[:200]], "signature": None})
        # -t by ID vs by name
        res = []
        for tag in (i, n):
            r = climain.run_main(["-q", "-t", tag, "-f", "json", "--exit-zero", f])
            try:
                res.append(sorted((y["test_id"], y["line_number"]) for y in json.loads(r["stdout"])["results"]))
            except Exception:
                res.append(("error", r["exit"], r["exception"]))
        if res[0] != res[1]:
            R.violations.append({"what": "-t %s and -t %s do not select the same findings" % (i, n),
                                 "input": {"argv": ["-t", n, os.path.basename(f)]}, "observed": [str(res[0])[:200], str(res[1])[:200]],
                                 "signature": "cli-test-names-not-resolved"})
    R.disagreements_checked = len(cases)
