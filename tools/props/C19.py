"""C19 - findings do not depend on how the source text reaches bandit."""
import json
import os
import random

import climain
import core
import coqlit as L
import impl
import scancorr

PROP_FILES = ["theories/Props/C19.v", "theories/Inst/C19_inst.v"]
DEPS = ["theories/Proofs/C19_proofs.vo", "theories/Proofs/NewlineFacts.vo", "theories/Plugins/All.vo", "theories/Gen/Registry.vo", "theories/Gen/Constants.vo",
        "theories/Gen/Ladders.vo"]

BIDI = ["‪", "‫", "‬", "‭", "‮", "⁦", "⁧", "⁨", "⁩", "‏"]

BASE = [
    "from .subprocess import Popen\nfrom . import pickle\nfrom .. import telnetlib\nPopen('ls ' + cmd, shell=True)\npickle.loads(x)\n",
    "from .helpers import run as system\nimport os\nos.system('ls')\nsystem('ls')\n",
    "import pickle\nimport subprocess\n\ndef f(password='x'):\n    assert password\n    return pickle.loads(password)\n\nsubprocess.Popen(\n    cmd,\n    shell=True)\n",
    "x = 1\n",
    "import os\nos.system('ls')  # nosec B605\ns = '/tmp/x'\ntry:\n    pass\nexcept Exception:\n    pass\n",
    "q = 'select * from t where a = %s' % v\nexec(q)\nimport hashlib\nhashlib.md5(\n    data\n)\n",
    "s = 'café ü'\npassword = 'grüß'\nassert s\n",
]


KINDS = ["comment", "string", "first", "last", "identifier-adjacent", "two", "comments-only", "docstring-only", "fstring", "fstring-triple",
         "bytes-free-continuation"]


def with_bidi(rng, kind=None):
    ch = rng.choice(BIDI)
    kind = kind or rng.choice(KINDS)
    if kind == "comment":
        src = "x = 1\n# note %s here\ny = 2\n" % ch
    elif kind == "string":
        src = "x = 1\ns = 'a%sb'\nassert s\n" % ch
    elif kind == "first":
        src = "# %s\nx = 1\n" % ch
    elif kind == "last":
        src = "x = 1\ny = 2  # %s" % ch
    elif kind == "comments-only":
        src = "# licence header\n# note %s here\n\n" % ch
    elif kind == "docstring-only":
        src = '"""module %s docstring"""\n' % ch
    elif kind == "fstring":
        src = "zz_l = 1\nzz_m = f'none%s{zz_l} tail'\nassert zz_m\n" % ch
    elif kind == "fstring-triple":
        src = "zz_l = 1\nzz_m = f\'\'\'first {zz_l}\nsecond%s line {zz_l!r:>4}\n\'\'\'\n" % ch
    elif kind == "bytes-free-continuation":
        src = "zz_a = 1 + \\\n    2  # %s\nzz_b = (zz_a,\n        'x%sy')\n" % (ch, ch)
    elif kind == "identifier-adjacent":
        src = "def f(a):\n    return a  #%s\nf(1)\n" % ch
    else:
        ch2 = rng.choice(BIDI)
        src = "s = '%s' # %s\nt = '%s'\n" % (ch2, ch, ch)
    return src, kind


def variants(src, has_non_latin):
    """(name, bytes) for every channel encoding of the same program text."""
    out = [("lf", src.encode("utf-8")), ("crlf", src.replace("\n", "\r\n").encode("utf-8")),
           ("bom", b"\xef\xbb\xbf" + src.encode("utf-8")),
           ("bom+crlf", b"\xef\xbb\xbf" + src.replace("\n", "\r\n").encode("utf-8"))]
    return out


def variants_cookie(src):
    """variants that add a coding line (shifts every line by one)"""
    out = [("utf8-cookie", ("# -*- coding: utf-8 -*-\n" + src).encode("utf-8"))]
    # every declared legacy encoding that can spell the program (directional marks exist in the Hebrew and Arabic code pages,
    # all of them in gb18030)
    for codec in ("latin-1", "cp1252", "cp1255", "cp1256", "iso-8859-8", "gb18030", "utf-7"):
        try:
            out.append((codec, ("# -*- coding: %s -*-\n" % codec + src).encode(codec)))
        except (UnicodeEncodeError, LookupError):
            pass
    return out


def run_channel(data, channel, d, k):
    if channel == "package-file":
        pd = os.path.join(d, "pkg%d" % k)
        os.makedirs(pd, exist_ok=True)
        open(os.path.join(pd, "__init__.py"), "w").write("")
        p = os.path.join(pd, "runner.py")
        open(p, "wb").write(data)
        r = climain.run_main(["-q", "-f", "json", p])
    elif channel == "file":
        p = os.path.join(d, "prog%d.py" % k)
        open(p, "wb").write(data)
        r = climain.run_main(["-q", "-f", "json", p])
    else:
        r = climain.run_main(["-q", "-f", "json", "-"], stdin_bytes=data)
    res = None
    try:
        j = json.loads(r["stdout"])
        res = {"results": [(x["test_id"], x["line_number"], x["col_offset"], x["end_col_offset"], tuple(x["line_range"]),
                            x["issue_severity"], x["issue_confidence"], x["issue_text"]) for x in j["results"]],
               "errors": [(e["reason"]) for e in j["errors"]]}
    except Exception:
        pass
    return r, res


def run(R, replay=None):
    rng = random.Random(R.seed)
    for f in core.gen():
        R.broken.append({"what": "translator failed: " + f["translator"], "log": f["stderr"]})
    R.proof = core.prove(PROP_FILES, DEPS)
    for f in R.proof["failed"]:
        R.broken.append({"what": "proof obligation no longer checks: %s (%s) %s" % (f["file"], f["why"], f.get("theorem") or ""),
                         "log": f.get("log", "")})
    R.rule = ("programs (with findings of several kinds; with each bidi control character in comment / string / first line / last "
              "line without newline / next to an identifier) x {file, stdin} x {LF, CRLF} x {no BOM, BOM} x {utf-8, utf-8+cookie, "
              "latin-1, cp1252}: findings and locations compared pairwise against the LF/utf-8/file run; undecodable files must be "
              "skipped with a reason; whole-scan correspondence of the B613 model; non-trivial = every run")
    d = impl.scratch()
    n_bidi = 12 if R.tier == "quick" else 200
    progs = [(s, "plain") for s in BASE] + [with_bidi(rng, kd) for kd in KINDS] + [with_bidi(rng) for _ in range(n_bidi)]
    k = 0
    for src, kind in progs:
        base_r, base = run_channel(src.encode("utf-8"), "file", d, k)
        k += 1
        if base is None:
            R.violations.append({"what": "baseline run produced no JSON report", "input": src, "observed": base_r["exception"] or base_r["exit"], "signature": None})
            continue
        has_bidi = any(c in src for c in BIDI)
        if has_bidi and not any(x[0] == "B613" for x in base["results"]):
            R.violations.append({"what": "bidirectional control character (%s) not reported as B613 from a file" % kind, "input": src,
                                 "observed": base["results"], "signature": None})
        for shift, vs in ((0, variants(src, False)), (1, variants_cookie(src))):
            for vname, data in vs:
                for channel in ("file", "stdin", "package-file"):
                    if vname == "lf" and channel == "file":
                        continue
                    if channel == "package-file" and vname not in ("lf", "crlf"):
                        continue
                    r, res = run_channel(data, channel, d, k)
                    k += 1
                    R.case((src, vname, channel), sample={"program": src[:120], "variant": vname, "channel": channel,
                                                          "findings": None if res is None else [(x[0], x[1]) for x in res["results"]]})
                    R.count("%s/%s" % (channel, vname))
                    if r["exception"] or res is None:
                        R.violations.append({"what": "%s/%s: no report (%s)" % (channel, vname, r["exception"] or r["exit"]),
                                             "input": repr(data), "observed": r["traceback"] or r["stderr"][-300:], "signature": None})
                        continue
                    want = [(a, b + shift, c, e, tuple(x + shift for x in f), g, h, i) for (a, b, c, e, f, g, h, i) in base["results"]]
                    if res["results"] != want or (r["exit"] != base_r["exit"]):
                        sig = "b613-on-stdin" if channel == "stdin" and [x for x in want if x[0] != "B613"] == res["results"] else None
                        R.violations.append({"what": "%s/%s yields other findings or locations than the same program as an LF utf-8 file" % (channel, vname),
                                             "input": repr(data), "observed": {"got": res["results"][:6], "expected": want[:6],
                                                                                "exit": (r["exit"], base_r["exit"])}, "signature": sig})
    # undecodable
    bad = [b"x = '\xff\xfe'\n", b"# -*- coding: utf-8 -*-\ns = '\xe9'\n", b"# -*- coding: ascii -*-\ns = '\xc3\xa9'\n", b"\xff\xfeimport os\n",
           b"# -*- coding: nosuchcodec -*-\nx = 1\n"]
    for data in bad:
        for channel in ("file", "stdin"):
            r, res = run_channel(data, channel, d, k)
            k += 1
            R.case(("undecodable", data, channel), sample={"bytes": repr(data), "channel": channel, "errors": None if res is None else res["errors"]})
            R.count("undecodable")
            if r["exception"] or res is None:
                R.violations.append({"what": "undecodable input via %s ends without a report (%s)" % (channel, r["exception"] or r["exit"]),
                                     "input": repr(data), "observed": r["traceback"], "signature": None})
            elif len(res["errors"]) != 1 or not res["errors"][0]:
                R.violations.append({"what": "undecodable input via %s is not listed as skipped with a reason" % channel,
                                     "input": repr(data), "observed": res, "signature": None})
    # model correspondence for B613 (decoded lines are the oracle input of the model)
    cprogs = [{"src": s, "include": ["B613"]} for s, _ in progs]
    outs, mism, broken = scancorr.run_cases(cprogs, R, "c19")
    R.broken.extend(broken)
    for i, tail in mism[:10]:
        R.broken.append({"what": "correspondence: B613 model and bandit differ", "input": cprogs[i]["src"],
                         "implementation": outs[i]["results"], "model_output_excerpt": tail[:800]})
    # the line splitter the trojan-source check relies on (universal newlines) vs the Newlines model
    import io
    import coqlit as L
    alpha = ["a", "#", " ", "\n", "\r", "\r\n", "\x0c", "\x0b", "\u2028", "\x85", "\u202e", "\x1c", "é"]
    cases, texts = [], []
    for _ in range(400 if R.tier == "quick" else 6000):
        t = "".join(rng.choice(alpha) for _ in range(rng.randint(0, 9)))
        texts.append(t)
        cases.append((L.pstr(t), L.lst([L.pstr(x) for x in io.StringIO(t, newline=None).readlines()], "pstr")))
        R.count("universal-newlines")
    mm, br = core.unit_corr("From Bandit Require Import Formats.Newlines.\n", "ulines", "pstr", "list pstr", "list_eqb pstr_eqb", cases, label="c19n")
    R.broken.extend(br)
    for i, tail in mm[:5]:
        R.broken.append({"what": "correspondence: io.StringIO(text, newline=None).readlines() differs from the Newlines model", "input": repr(texts[i]),
                         "implementation": cases[i][1][:200], "model_output_excerpt": tail[:300]})
    R.evaluations += len(cases)
    R.disagreements_checked = R.evaluations
