"""C17 - injection, templating, deserialization and misc checks follow their rules."""
import family
import scancorr
from oracles import c17

PROP_FILES = ["theories/Props/C17.v", "theories/Inst/C17_inst.v"]
DEPS = ["theories/Proofs/Inject_proofs.vo", "theories/Proofs/Misc_proofs.vo", "theories/Plugins/All.vo", "theories/Gen/Registry.vo",
        "theories/Gen/Regexes.vo", "theories/Gen/Blacklists.vo", "theories/Gen/Constants.vo"]


def run(R, replay=None):
    R.rule = ("programs from tools/gen/fam_inject.py and fam_misc.py: SQL verb patterns x string construction operators x placements, "
              "Django extra/RawSQL argument forms, jinja2/mako/Markup/mark_safe shapes incl. assignments traced through functions, "
              "yaml/torch/tarfile/flask/logging/paramiko/exec calls with and without their imports, try/except handler forms x body "
              "forms, asserts x skips configurations; scanned by the real bandit and by the Gallina plugin models; canonical shapes "
              "judged independently against the statement; non-trivial = at least one finding or internal error")
    family.run_family(R, PROP_FILES, DEPS, ["gen.fam_inject", "gen.fam_misc"], c17.oracle, "inject+misc families", max_quick=3000, eq=scancorr.FINDINGS_AND_ERRORS)
    assert_paths(R)


def assert_paths(R):
    """B101 'honouring skips globs': the globs are matched against the name under which the file is scanned and reported,
    so the same file reached by different spellings (relative, ./, through -r, in a sub-directory, absolute) is skipped
    exactly when a glob matches the reported name.  Through the real command line, with a YAML config."""
    import fnmatch
    import json
    import os
    import shutil

    import climain
    import impl
    import yaml
    d = os.path.join(impl.scratch(), "c17paths")
    shutil.rmtree(d, ignore_errors=True)
    os.makedirs(os.path.join(d, "tests", "unit"))
    os.makedirs(os.path.join(d, "pkg"))
    files = ["test_top.py", "conftest.py", "tests/test_a.py", "tests/unit/test_b.py", "pkg/mod.py", "pkg/test_c.py", "pkg/mod_test.py"]
    for f in files:
        open(os.path.join(d, f), "w").write("assert zz_x\nexec(zz_y)\n")
    globsets = [["*/test_*.py"], ["test_*.py"], ["./test_*.py"], ["*test_*.py"], ["*_test.py", "*/test_*.py"], ["tests/*"], ["*/tests/*"],
                ["./tests/*"], ["*.py"], ["pkg/*"], ["*/pkg/mod.py"], ["/*"], ["nomatch*"], ["t*"], ["[!.]*"], ["?/*"]]
    spellings = [("rel", lambda f: [f]), ("dot", lambda f: ["./" + f]), ("rec", lambda f: ["-r", "."]), ("abs", lambda f: [os.path.join(d, f)]),
                 ("rec-abs", lambda f: ["-r", d])]
    if R.tier == "quick":
        import random
        rng = random.Random(R.seed)
        globsets = globsets[:6] + rng.sample(globsets[6:], 4)
    for gs in globsets:
        cf = os.path.join(d, "cfg.yaml")
        yaml.safe_dump({"assert_used": {"skips": gs}}, open(cf, "w"))
        for how, argv in spellings:
            targets = files[:1] if how.startswith("rec") else files
            for f in targets:
                r = climain.run_main(["-q", "-f", "json", "-c", cf] + argv(f), cwd=d)
                R.case(("assert-path", tuple(gs), how, f), nontrivial=True, sample={"skips": gs, "spelling": how, "target": argv(f), "exit": r["exit"]})
                R.count("assert-path:" + how)
                inp = {"skips": gs, "argv": ["-q", "-f", "json", "-c", "cfg.yaml"] + argv(f), "cwd": "<dir>", "files": files}
                try:
                    j = json.loads(r["stdout"][r["stdout"].index("{"):])
                except Exception:
                    R.violations.append({"what": "no report for a scan with assert_used skips %s (%s)" % (gs, r["exception"] or "exit %s" % r["exit"]),
                                         "input": inp, "observed": (r["traceback"] or r["stderr"] or "")[-300:], "signature": None})
                    continue
                scanned = [k for k in j["metrics"] if k != "_totals"]
                b101 = {x["filename"] for x in j["results"] if x["test_id"] == "B101"}
                b102 = {x["filename"] for x in j["results"] if x["test_id"] == "B102"}
                for name in scanned:
                    want = not any(fnmatch.fnmatch(name, g) for g in gs)
                    if (name in b101) != want or name not in b102:
                        R.violations.append({"what": "file scanned as %r with assert_used skips %s: B101 %s, the globs %s that name (B102 %s)"
                                                     % (name, gs, "reported" if name in b101 else "not reported", "do not match" if want else "match",
                                                        "reported" if name in b102 else "missing"),
                                             "input": inp, "observed": sorted(b101), "signature": None})
    shutil.rmtree(d, ignore_errors=True)
