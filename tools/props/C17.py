"""C17 - injection, templating, deserialization and misc checks follow their rules."""
import family
from oracles import c17

PROP_FILES = ["theories/Props/C17.v", "theories/Inst/C17_inst.v"]
DEPS = ["theories/Proofs/Inject_proofs.vo", "theories/Proofs/Misc_proofs.vo", "theories/Plugins/All.vo", "theories/Gen/Registry.vo",
        "theories/Gen/Regexes.vo", "theories/Gen/Blacklists.vo", "theories/Gen/Constants.vo"]


def run(R, replay=None):
    R.rule = ("programs from tools/gen/fam_inject.py and fam_misc.py: SQL verb patterns x string construction operators x placements, "
              "Django extra/RawSQL argument forms, jinja2/mako/Markup/mark_safe shapes incl. assignments traced through functions, "
              "yaml/torch/tarfile/flask/logging/paramiko/exec calls with and without their imports, try/except handler forms x body "
              "forms, asserts x skips configurations; scanned by the real bandit and by the Gallina plugin models; canonical shapes "
              "judged independently against the statement; non-trivial = at least one finding or internal error")
    family.run_family(R, PROP_FILES, DEPS, ["gen.fam_inject", "gen.fam_misc"], c17.oracle, "inject+misc families", max_quick=3000)
