"""C10 - reported locations and excerpts point at the flagged code."""
import ast
import glob
import io
import os
import random
import tokenize

import core
import coqlit as L
import impl
import scancorr

PROP_FILES = ["theories/Props/C10.v", "theories/Inst/C10_inst.v"]
DEPS = ["theories/Proofs/C10_proofs.vo", "theories/Proofs/All_shift.vo", "theories/Proofs/C10_refuted.vo", "theories/Proofs/SplitlinesFacts.vo", "theories/Engine/LocTrace.vo", "theories/Plugins/All.vo", "theories/Gen/Locations.vo",
        "theories/Gen/Registry.vo", "theories/Gen/Regexes.vo", "theories/Gen/Blacklists.vo", "theories/Gen/Constants.vo"]

# ---------------------------------------------------------------- programs
CALLS = [
    ("import subprocess", "subprocess.Popen({a}, shell=True)", ["{a}", "shell=True"]),
    ("import subprocess", "subprocess.call({a}, stdin=None, shell=True, cwd='/')", ["{a}", "stdin=None", "shell=True", "cwd='/'"]),
    ("import requests", "requests.get({a}, verify=False, timeout=3)", ["{a}", "verify=False", "timeout=3"]),
    ("import flask\napp = flask.Flask(__name__)", "app.run(host={a}, debug=True)", ["host={a}", "debug=True"]),
    ("import ssl", "ssl.wrap_socket({a}, ssl_version=ssl.PROTOCOL_SSLv3)", ["{a}", "ssl_version=ssl.PROTOCOL_SSLv3"]),
    ("import hashlib", "hashlib.new('md5', {a})", ["'md5'", "{a}"]),
    ("import yaml", "yaml.load({a})", ["{a}"]),
    ("import os", "os.system('ls ' + {a})", ["'ls ' + {a}"]),
    ("import pickle", "pickle.loads({a})", ["{a}"]),
    ("import paramiko\nc = paramiko.SSHClient()", "c.set_missing_host_key_policy(paramiko.AutoAddPolicy)", ["paramiko.AutoAddPolicy"]),
    ("import tempfile", "tempfile.mktemp({a})", ["{a}"]),
    ("", "zz_f({a}, '/tmp/zz_file', password='hunter2')", ["{a}", "'/tmp/zz_file'", "password='hunter2'"]),
    ("", "zz_g('0.0.0.0', {a})", ["'0.0.0.0'", "{a}"]),
    ("", "exec({a})", ["{a}"]),
]
ARGS = ["zz_x", "'lit'", "zz_h(1,\n        2)", "[1,\n    2]", "'''multi\nline'''", "(\n  zz_y\n)"]
WRAPS = [
    "{c}",
    "zz_r = {c}",
    "if zz_t:\n    {c}",
    "def zz_fn(zz_p, zz_q='0.0.0.0'):\n    return {c}",
    "class ZzC:\n    def zz_m(self,\n             password='hunter2'):\n        {c}",
    "try:\n    {c}\nexcept Exception:\n    pass",
    "for zz_i in zz_s:\n    try:\n        {c}\n    except ValueError:\n        continue",
    "zz_l = [{c}\n        for zz_i in '0.0.0.0'\n        if zz_i]",
    "with zz_o('/tmp/zz_w') as zz_fd:\n    {c}",
    "@zz_deco('/tmp/zz_d')\ndef zz_dd():\n    {c}",
    "zz_d = {\n    'password': 'hunter2',\n    'k': {c},\n}",
    "assert {c}, 'message'",
    "zz_lam = lambda: {c}",
    "def zz_k(zz_a,\n         zz_b='0.0.0.0',\n         *zz_rest,\n         zz_bind='0.0.0.0',\n         password='hunter2',\n         **zz_kw):\n    {c}",
    "async def zz_ak(zz_a, /,\n                zz_b='x',\n                *,\n                zz_tmp='/tmp/zz_k'):\n    {c}",
    "zz_lk = lambda zz_a, zz_b='0.0.0.0', *, zz_c='/tmp/zz_l': {c}",
    "@'0.0.0.0'\ndef zz_ds():\n    {c}",
    # findings of the definition itself (password / protocol defaults) under one or several decorators, comments between
    "@zz_deco\ndef zz_dp(zz_a, password='hunter2'):\n    {c}",
    "@zz_deco.one(1)\n@zz_two\n# zz comment\n@zz_three(\n    'x')\ndef zz_dq(zz_a,\n          password='hunter2',\n          zz_v=ssl.PROTOCOL_SSLv3):\n    {c}",
    "class ZzD:\n    @staticmethod\n    @zz_deco\n    def zz_m(token='hunter2'):\n        {c}",
    "@zz_deco\nclass ZzE:\n    password = 'hunter2'\n    def zz_m(self):\n        {c}",
    "@zz_deco\nasync def zz_ad(*, secret='hunter2'):\n    {c}",
    # flagged strings on later lines of left-nested expressions (the inner and the outer expression start at the same place)
    "zz_p = (zz_root + '/cache' +\n        '/tmp/zz_build' +\n        '/var/tmp/zz_more')\n{c}",
    "zz_q = zz_d['k'][\n    '0.0.0.0'][\n    '/tmp/zz_k']\n{c}",
    "zz_s = '-'.join(zz_x).format(\n    '/var/tmp/zz_f').strip(\n    '0.0.0.0')\n{c}",
    "zz_t = zz_a.b(\n    '/tmp/zz_1')(\n    '/tmp/zz_2')(\n    {c})",
    # a flagged literal on a later line than the target it is stored under / compared with / passed for
    "zz_d['password'] = (\n    'hunter2')\nzz_d['token'] = \\\n    'hunter3'\n{c}",
    "zz_o.secret = (\n    'hunter2'\n)\nif zz_pw == (\n        'hunter4'):\n    {c}",
    "zz_f(zz_a,\n     password=(\n         'hunter2'),\n     zz_k={c})",
]


def layout(call_tmpl, parts, arg, rng):
    """A call written on one line or with each argument on its own line."""
    if rng.random() < 0.35:
        return call_tmpl.format(a=arg)
    head = call_tmpl.split("(", 1)[0]
    sep = rng.choice([",\n    ", ",\n        ", ",  # why\n    "])
    body = sep.join(p.format(a=arg) for p in parts)
    tail = rng.choice([")", "\n)", ",\n)"])
    return head + "(" + rng.choice(["", "\n    "]) + body + tail


def indent_into(wrap, call):
    """Substitute a (possibly multi-line) call for {c}, indenting continuation lines to the placeholder's column."""
    out = []
    for ln in wrap.split("\n"):
        if "{c}" in ln:
            col = ln.index("{c}")
            cl = call.split("\n")
            out.append(ln.replace("{c}", cl[0]))
            out.extend(" " * col + x if not x.startswith("line'''") else x for x in cl[1:])
        else:
            out.append(ln)
    return "\n".join(out)


def programs(rng, n):
    progs = []
    while len(progs) < n:
        k = rng.randint(1, 3)
        pre, body = [], []
        for _ in range(k):
            imp, tmpl, parts = rng.choice(CALLS)
            arg = rng.choice(ARGS)
            call = layout(tmpl, parts, arg, rng)
            stmt = indent_into(rng.choice(WRAPS), call)
            if imp and imp not in pre:
                pre.append(imp)
            body.append(stmt)
            if rng.random() < 0.3:
                body.append(rng.choice(["", "# a comment", "zz_n = 1  # trailing", "zz_s = '''\n0.0.0.0\n'''", "x = 1 # nosec"]))
        if rng.random() < 0.2:
            # a file-level finding (B613) behind characters that str.splitlines() counts as line ends but files do not
            body += ["\x0c", "zz_u = 'x\u2028y\x1cz'", "zz_v = 1  # \x85 and \x0b in a comment", "# bidi \u202e here", "zz_w = 2"]
        src = "\n".join(pre + body) + "\n"
        try:
            ast.parse(src)
        except SyntaxError:
            continue
        progs.append(src)
    return progs


def example_sources(limit):
    out = []
    for p in sorted(glob.glob("/repo/examples/*.py"))[:limit]:
        try:
            data = open(p, "rb").read()
            ast.parse(data)
            data.decode("utf-8")
        except Exception:
            continue
        if len(data) < 6000:
            out.append(data.decode("utf-8"))
    return out


# ---------------------------------------------------------------- the statement, judged on the implementation
def file_lines(data):
    return io.StringIO(data, newline=None).readlines() if isinstance(data, str) else None


def judge_locations(R, src, o, mgr_results, tree, ns):
    lines = src.split("\n")
    nlines = len(lines) - 1 if src.endswith("\n") else len(lines)
    spans = [(n.lineno, n.end_lineno, type(n).__name__) for n in ast.walk(tree) if hasattr(n, "lineno")]
    starts = {n.lineno for n in ast.walk(tree) if hasattr(n, "lineno")} | {n.end_lineno for n in ast.walk(tree) if hasattr(n, "end_lineno")}
    for r, issue in zip(o["results"], mgr_results):
        inp = {"src": src, "finding": {k: r[k] for k in ("test_id", "lineno", "linerange", "col")}}
        ln, lr = r["lineno"], r["linerange"]
        if not (1 <= ln <= nlines):
            R.violations.append({"what": "line number %s outside the file (%d lines)" % (ln, nlines), "input": inp, "observed": ln, "signature": None})
            continue
        if not lr or lr != list(range(lr[0], lr[-1] + 1)):
            R.violations.append({"what": "line range is not a contiguous ascending run", "input": inp, "observed": lr, "signature": None})
            continue
        if ln not in lr:
            deco = any(isinstance(n, (ast.FunctionDef, ast.AsyncFunctionDef, ast.ClassDef)) and any(
                isinstance(d, ast.Constant) and d.lineno == ln for d in n.decorator_list) for n in ast.walk(tree))
            R.violations.append({"what": "line number %s is not inside the line range %s" % (ln, lr), "input": inp, "observed": lr,
                                 "signature": "line-outside-range:string-used-as-decorator" if deco else None})
            continue
        if not (lr[0] >= 1 and lr[-1] <= nlines):
            R.violations.append({"what": "line range %s leaves the file" % lr, "input": inp, "observed": lr, "signature": None})
        if r["test_id"] != "B613":
            if not any(a <= lr[0] and lr[-1] <= b for a, b, _ in spans) or lr[0] not in starts or lr[-1] not in starts:
                R.violations.append({"what": "line range %s does not run from a line of the construct to a line of the construct" % lr,
                                     "input": inp, "observed": lr, "signature": None})
        for n in ns:
            for tabbed in (False, True):
                code = issue.get_code(n, tabbed)
                rows = code.split("\n")
                if rows and rows[-1] == "":
                    rows = rows[:-1]
                sep = "\t" if tabbed else " "
                nums, ok = [], True
                for row in rows:
                    num, _, text = row.partition(sep)
                    if not num.isdigit():
                        ok = False
                        break
                    nums.append(int(num))
                    if int(num) - 1 >= len(lines) or lines[int(num) - 1] != text:
                        ok = False
                        break
                m = max(n, 1)
                if not ok or nums != list(range(nums[0], nums[0] + len(nums))) if nums else True:
                    R.violations.append({"what": "excerpt (-n %d) is not a run of verbatim, correctly numbered source lines" % n, "input": inp,
                                         "observed": code[:300], "signature": None})
                elif ln not in nums:
                    R.violations.append({"what": "excerpt (-n %d) lines %s do not include the flagged line %d" % (n, nums, ln), "input": inp,
                                         "observed": code[:300], "signature": None})
                elif len(nums) > len(lr) + m - 1 or ln - nums[0] > m // 2:
                    R.violations.append({"what": "excerpt (-n %d) shows more than the requested context: lines %s for range %s" % (n, nums, lr),
                                         "input": inp, "observed": code[:300], "signature": None})
                R.evaluations += 1


# ---------------------------------------------------------------- insertion
def sh(at, k, l):
    return l + k if l >= at else l


def sh_range(at, k, lr):
    if not lr or lr[0] == 0:
        return lr
    return list(range(sh(at, k, lr[0]), sh(at, k, lr[-1]) + 1))


def insertion_points(src, rng, count):
    lines = src.split("\n")
    n = len(lines) - 1 if src.endswith("\n") else len(lines)
    base = ast.dump(ast.parse(src))
    pts = list(range(1, n + 2))
    rng.shuffle(pts)
    out = []
    for at in pts:
        if len(out) >= count:
            break
        ins = rng.choice([[""], ["   "], ["# an ordinary comment"], ["", "# two", "\t"], ["        # indented comment"], ["#"] * 3])
        new = "\n".join(lines[:at - 1] + ins + lines[at - 1:])
        try:
            if ast.dump(ast.parse(new)) != base:
                continue          # inside a string literal / after a backslash: not an insertion of blank or comment lines
        except SyntaxError:
            continue
        out.append((at, ins, new))
    return out


NODE_CLASSES = {n for n in dir(ast) if isinstance(getattr(ast, n), type) and issubclass(getattr(ast, n), ast.AST)} | {"File", "Str", "Bytes"}


def text_excerpts(R, rng, tier):
    """The human-readable formats print the same numbered, verbatim rows (also when the source holds characters that
    str.splitlines() would break a row at)."""
    import climain
    import re as _re
    d = os.path.join(impl.scratch(), "c10t")
    os.makedirs(d, exist_ok=True)
    src = ("import subprocess\n\x0c\nassert zz_a  # page break above, \x0c inside\nzz_u = 'x\u2028y\x1cz\x85w'\nassert zz_u\n"
           "subprocess.Popen(zz_c,\n    stdin=None,\n    shell=True)  # \x0b\nzz_last = 1\n")
    f = os.path.join(d, "seps.py")
    open(f, "w", encoding="utf-8").write(src)
    lines = src.split("\n")
    for fmt in ("txt", "screen"):
        for n in (1, 3, 5):
            out = os.path.join(d, "t.out")
            r = climain.run_main(["-q", "-f", fmt, "-n", str(n)] + (["-o", out] if fmt == "txt" else []) + [f])
            text = open(out, encoding="utf-8").read() if fmt == "txt" else _re.sub("\x1b\\[[0-9;]*m", "", r["stdout"])
            R.case(("text-excerpt", fmt, n), nontrivial=True, sample={"format": fmt, "n": n, "exit": r["exit"]})
            R.count("text-excerpts")
            if r["exception"]:
                R.violations.append({"what": "format %s: no report (%s)" % (fmt, r["exception"]), "input": {"src": src}, "observed": (r["traceback"] or "")[-300:], "signature": None})
                continue
            # the blocks between "Location:" lines hold the rows "<number>\t<text>"
            blocks = text.split("Location:")[1:]
            for b in blocks:
                body = b.split("--------------------------------------------------")[0]
                rows = body.split("\n")[1:]
                rows = [x for x in rows if x.strip() != ""] if False else rows
                while rows and rows[-1].strip() == "":
                    rows.pop()
                while rows and not _re.match(r"^\s*\d+\t", rows[0]):
                    rows.pop(0)
                nums = []
                for row in rows:
                    m = _re.match(r"^\s*(\d+)\t(.*)$", row, _re.S)
                    if not m or int(m.group(1)) > len(lines) or lines[int(m.group(1)) - 1] != m.group(2):
                        R.violations.append({"what": "format %s (-n %d): an excerpt row is not a numbered verbatim source line: %r" % (fmt, n, row[:60]),
                                             "input": {"src": src}, "observed": body[:400], "signature": None})
                        break
                    nums.append(int(m.group(1)))
                else:
                    if nums and nums != list(range(nums[0], nums[0] + len(nums))):
                        R.violations.append({"what": "format %s (-n %d): excerpt rows are not consecutive: %s" % (fmt, n, nums), "input": {"src": src}, "observed": body[:300], "signature": None})


def tested_classes():
    mgr = impl.make_manager()
    cls = set()
    for p in mgr.b_ts.plugins if hasattr(mgr.b_ts, "plugins") else []:
        pass
    for checktype, tests in mgr.b_ts.tests.items():
        if tests:
            cls.add(checktype)
    return sorted(cls)


def run(R, replay=None):
    rng = random.Random(R.seed)
    for f in core.gen():
        R.broken.append({"what": "translator failed: " + f["translator"], "log": f["stderr"]})
    R.proof = core.prove(PROP_FILES, DEPS)
    for f in R.proof["failed"]:
        R.broken.append({"what": "proof obligation no longer checks: %s (%s) %s" % (f["file"], f["why"], f.get("theorem") or ""),
                         "log": f.get("log", "")})
    quick = R.tier == "quick"
    R.rule = ("generated programs (14 flagged call families x 6 argument shapes x one-line / one-argument-per-line layouts x 13 enclosing "
              "constructs: def/class/try/for/comprehension/with/decorator/dict/assert/lambda, 1-3 per file, with strings in defaults, "
              "decorators, comprehensions and multi-line strings) and the repository's example files; for each: every finding's line, range "
              "and excerpt (-n 0,1,2,3,4,7, plain and tabbed) judged against the statement; model vs implementation for get_code, for the "
              "range of every visited node and for the whole scan; then blank / whitespace / comment lines inserted at random admissible "
              "points (1-3 lines; admissible = the position-free AST dump is unchanged) and the new findings compared with the shifted "
              "old ones, the new CPython tree with the model's shifted tree, the new nosec map with the shifted one; non-trivial = a "
              "finding whose range has several lines or whose line is not the first of its range")
    progs = programs(rng, 60 if quick else 1500) + example_sources(25 if quick else 200)
    ns = [0, 1, 2, 3, 4, 7]
    tested = tested_classes()
    tested_coq = "(fun c => existsb (String.eqb c) %s)" % L.lst([L.cstring(c) for c in tested], "string")

    # ---- per program: statement on the implementation; unit cases for the models
    gc_cases, vr_cases, scan_progs, shift_cases, shift_meta = [], [], [], [], []
    from bandit.core import utils as b_utils
    for src in progs:
        data = src.encode("utf-8")
        o = impl.scan_bytes(data)
        mgr = o.pop("mgr")
        if o["skipped"]:
            continue
        tree = ast.parse(data)
        multi = any(len(r["linerange"]) > 1 or r["lineno"] != r["linerange"][0] for r in o["results"] if r["linerange"])
        R.case(("prog", src), nontrivial=multi, sample={"src": src[:400], "findings": [(r["test_id"], r["lineno"], r["linerange"]) for r in o["results"]][:6]})
        R.count("findings", len(o["results"]))
        R.count("multi-line-or-offset-findings", sum(1 for r in o["results"] if len(r["linerange"]) > 1 or (r["linerange"] and r["lineno"] != r["linerange"][0])))
        judge_locations(R, src, o, mgr.results, tree, ns)
        scan_progs.append({"src": data})
        # get_code model cases
        import linecache
        flines = linecache.getlines(o["path"])
        for r, issue in list(zip(o["results"], mgr.results))[:4]:
            for n in (rng.choice(ns), 3):
                tab = rng.random() < 0.3
                gc_cases.append(("(%s, (%s, (%s, (%s, %s))))" % (L.lst([L.pstr(x) for x in flines], "pstr"), L.Z(r["lineno"]), L.Z(len(r["linerange"])), L.Z(n), L.B(tab)),
                                 L.pstr(issue.get_code(n, tab))))
        # range of every visited node, in visiting order (sibling links as generic_visit sets them)
        t2 = ast.parse(data)
        ranges = []

        def walk(node):
            for _, value in ast.iter_fields(node):
                if isinstance(value, list):
                    mx = len(value) - 1
                    for idx, item in enumerate(value):
                        if isinstance(item, ast.AST):
                            item._bandit_sibling = value[idx + 1] if idx < mx else None
                            item._bandit_parent = node
                            ranges.append(b_utils.linerange(item))
                            walk(item)
                elif isinstance(value, ast.AST):
                    value._bandit_sibling = None
                    value._bandit_parent = node
                    ranges.append(b_utils.linerange(value))
                    walk(value)
        walk(t2)
        term = L.node(tree)
        vr_cases.append((term, L.lst([L.lst([L.Z(x) for x in rr], "Z") for rr in ranges], "list Z")))
        # ---- insertion
        for at, ins, new in insertion_points(src, rng, 3 if quick else 8):
            k = len(ins)
            o2 = impl.scan_bytes(new.encode("utf-8"))
            o2.pop("mgr")
            inp = {"src": src, "insert_before_line": at, "inserted": ins}
            R.count("insertions")
            exp = [dict(r, lineno=sh(at, k, r["lineno"]), linerange=sh_range(at, k, r["linerange"])) for r in o["results"]]
            got = o2["results"]
            key = lambda r: {x: r[x] for x in ("test_id", "test", "sev", "conf", "cwe", "text", "lineno", "linerange", "col", "ecol")}
            if [key(r) for r in got] != [key(r) for r in exp]:
                diff = [(key(a), key(b)) for a, b in zip(got, exp) if key(a) != key(b)][:2]
                R.violations.append({"what": "after inserting %d blank/comment line(s) before line %d the findings are not the old ones shifted" % (k, at),
                                     "input": inp, "observed": {"count_new": len(got), "count_old": len(exp), "first_differences": diff}, "signature": None})
            if (o2["nosec"], o2["skipped_tests"], o2["loc"], o2["scores"], [e[:2] for e in o2["errors"]]) != (
                    o["nosec"], o["skipped_tests"], o["loc"], o["scores"], [e[:2] for e in o["errors"]]):
                R.violations.append({"what": "inserting blank/comment lines changed counters, scores, loc or internal errors", "input": inp,
                                     "observed": {"new": (o2["nosec"], o2["skipped_tests"], o2["loc"]), "old": (o["nosec"], o["skipped_tests"], o["loc"])}, "signature": None})
            R.evaluations += 1
            tree2 = ast.parse(new.encode("utf-8"))
            shift_cases.append("(%s, %s, %s, %s, %s, %s)" % (L.Z(at), L.lst([L.pstr(x + "\n") for x in ins], "pstr"), term, L.node(tree2),
                                                           impl.nosec_map_coq(o["nosec_lines"]), impl.nosec_map_coq(o2["nosec_lines"])))
            shift_meta.append(inp)
            scan_progs.append({"src": new.encode("utf-8")})

    text_excerpts(R, rng, R.tier)
    # ---- model vs implementation
    mm, br = core.unit_corr("From Bandit Require Import Engine.Excerpt.\n",
                            "fun x => get_code (fst x) (fst (snd x)) (fst (snd (snd x))) (fst (snd (snd (snd x)))) (snd (snd (snd (snd x))))",
                            "list pstr * (Z * (Z * (Z * bool)))", "pstr", "pstr_eqb",
                            gc_cases, label="c10g", shard=150)
    R.broken.extend(br)
    for i, tail in mm[:5]:
        R.broken.append({"what": "correspondence: Issue.get_code differs from the Excerpt model", "input": gc_cases[i][0][-200:], "implementation": gc_cases[i][1][:200],
                         "model_output_excerpt": tail[:300]})
    mm, br = core.unit_corr("From Bandit Require Import Engine.LocTrace.\n", "visit_ranges", "node", "list (list Z)", "list_eqb (list_eqb Z.eqb)", vr_cases,
                            label="c10r", shard=40)
    R.broken.extend(br)
    for i, tail in mm[:5]:
        R.broken.append({"what": "correspondence: utils.linerange differs from the Linerange model on some visited node", "input": vr_cases[i][1][:300],
                         "model_output_excerpt": tail[:400]})
    # the shift model against CPython and the tokenizer; the well-formedness the insertion theorem assumes
    files = []
    SH = 25
    for s in range(0, len(shift_cases), SH):
        chunk = shift_cases[s:s + SH]
        body = core.CASE_HDR + ("From Bandit Require Import Engine.Shift Engine.LocTrace Engine.Tester Gen.Constants Gen.Blacklists Gen.Registry "
                                "Plugins.All Proofs.All_shift.\n")
        # the classes the real test set registers checks for, as the insertion theorem defines them; cross-checked
        # against the implementation's own table
        body += "Definition tested := tested_of (build_tests registry all_plugins defaults [] (fun _ => true) blacklist).\n"
        body += "Eval vm_compute in (forallb (fun c => Bool.eqb (tested c) (%s c)) %s).\n" % (
            tested_coq, L.lst([L.cstring(c) for c in sorted(set(tested) | NODE_CLASSES)], "string"))
        body += ("Definition nosec_eqb (a b : nosec_map) := list_eqb (fun x y => Z.eqb (fst x) (fst y) && list_eqb pstr_eqb (snd x) (snd y)) a b.\n"
                 "Definition chk (x : Z * list pstr * node * node * nosec_map * nosec_map) : bool * bool * bool :=\n"
                 "  match x with (at_, ins, t, t', m, m') =>\n"
                 "    (node_eqb (sh_node at_ ins t) t', wf_tree tested t && wf_here tested t NNone, nosec_eqb (sh_nosec at_ ins m) m') end.\n")
        body += "Definition cases := %s.\n" % ("[" + ";\n ".join(chunk) + "]")
        body += "Eval vm_compute in (map (fun x => match chk x with (a, b, c) => (if a then 1 else 0) + (if b then 2 else 0) + (if c then 4 else 0) end)%N cases).\n"
        files.append(("c10s_%d" % s, body))
    import re
    for (name, rc, out, err), s in zip(core.coq_eval_files(files), range(0, len(shift_cases), SH)):
        if rc != 0:
            R.broken.append({"what": "model evaluation failed (%s)" % name, "log": (out + err)[-1500:]})
            continue
        if "= true" not in out.split(": bool")[0]:
            R.broken.append({"what": "correspondence: the node classes with a registered check differ between the model's test set and the implementation's", "log": out[:300]})
        out = out.split(": bool", 1)[-1]
        vals = [int(v) for v in re.findall(r"\b([0-7])\b", out.split("=", 1)[-1].split(":")[0])]
        if len(vals) != len(shift_cases[s:s + SH]):
            R.broken.append({"what": "unparsable model output (%s)" % name, "log": out[-600:]})
            continue
        for j, v in enumerate(vals):
            meta = shift_meta[s + j]
            if not v & 1:
                R.broken.append({"what": "correspondence: CPython's tree after the insertion is not the model's shifted tree", "input": meta})
            if not v & 2:
                R.broken.append({"what": "correspondence: a real tree does not satisfy the well-formedness the insertion theorem assumes (wf_tree / wf_here)", "input": meta})
            if not v & 4:
                R.broken.append({"what": "correspondence: the nosec map after the insertion is not the shifted nosec map", "input": meta})
    R.evaluations += len(shift_cases) + len(gc_cases) + len(vr_cases)
    outs, mism, br = scancorr.run_cases(scan_progs[: (250 if quick else 6000)], R, label="c10w")
    R.broken.extend(br)
    for i, tail in mism[:5]:
        R.broken.append({"what": "correspondence: whole-scan model and implementation differ", "input": scan_progs[i]["src"].decode()[:600],
                         "implementation": [(r["test_id"], r["lineno"], r["linerange"]) for r in outs[i]["results"]], "model_output_excerpt": tail[:600]})
    R.disagreements_checked = R.evaluations
