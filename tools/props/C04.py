"""C04 - a scan always completes and accounts for every file."""
import builtins
import glob
import io
import json
import os
import random
import tokenize

import climain
import core
import coqlit as L
import impl

PROP_FILES = ["theories/Props/C04.v", "theories/Inst/C04_inst.v"]
DEPS = ["theories/Proofs/C04_proofs.vo", "theories/Gen/Ladders.vo"]

HEALTHY = ["import pickle\npickle.loads(x)\n", "assert a\n", "x = 1\n", "import subprocess\nsubprocess.call(c, shell=True)\n"]
STAGES = ["AtOpen", "AtRead", "AtTokenize", "AtProcess", "AtVisitEnd"]      # AtVisitEnd: inside process(), after the whole tree was visited (findings exist)
OPEN_CLASSES = {"OSError": OSError, "FileNotFoundError": FileNotFoundError, "PermissionError": PermissionError,
                "IsADirectoryError": IsADirectoryError}
EXC_CLASSES = dict(OPEN_CLASSES, **{"SyntaxError": SyntaxError, "IndentationError": IndentationError, "ValueError": ValueError,
                                   "UnicodeDecodeError": None, "TypeError": TypeError, "KeyError": KeyError, "IndexError": IndexError,
                                   "AttributeError": AttributeError, "RecursionError": RecursionError, "MemoryError": MemoryError,
                                   "RuntimeError": RuntimeError, "tokenize.TokenError": tokenize.TokenError,
                                   "AssertionError": AssertionError, "ZeroDivisionError": ZeroDivisionError})


def make_exc(name):
    if name == "UnicodeDecodeError":
        return UnicodeDecodeError("utf-8", b"\xff", 0, 1, "invalid start byte")
    cls = EXC_CLASSES[name]
    if issubclass(cls, OSError):
        return cls(5, "Injected I/O error")
    return cls("injected")


def run_with_fault(paths, target, stage, exc_name):
    """Run manager.run_tests() over paths with an exception injected for `target` at `stage`."""
    from bandit.core import manager as bman
    from bandit.core import node_visitor as bnv
    mgr = impl.make_manager()
    mgr.files_list = list(paths)
    real_open = builtins.open
    real_tok = tokenize.tokenize
    real_process = bnv.BanditNodeVisitor.process
    state = {"cur": None}

    class Reader:
        def __init__(self, f):
            self.f = f
        def read(self, *a):
            raise make_exc(exc_name)
        def __getattr__(self, k):
            return getattr(self.f, k)
        def __enter__(self):
            return self
        def __exit__(self, *a):
            self.f.close()

    def fake_open(name, *a, **k):
        state["cur"] = name
        if name == target and stage == "AtOpen":
            raise make_exc(exc_name)
        f = real_open(name, *a, **k)
        if name == target and stage == "AtRead":
            return Reader(f)
        return f

    def fake_tok(readline):
        if state["cur"] == target and stage == "AtTokenize":
            raise make_exc(exc_name)
        return real_tok(readline)

    def fake_process(self, data):
        if self.fname == target and stage == "AtProcess":
            raise make_exc(exc_name)
        if self.fname == target and stage == "AtVisitEnd":
            real_process(self, data)          # every check has run and appended its findings to the visitor's tester
            raise make_exc(exc_name)
        return real_process(self, data)

    bman.open = fake_open
    bman.tokenize.tokenize = fake_tok
    bnv.BanditNodeVisitor.process = fake_process
    outcome = {"escaped": None}
    try:
        try:
            mgr.run_tests()
        except BaseException as e:  # noqa
            outcome["escaped"] = type(e).__name__
    finally:
        del bman.open
        tokenize.tokenize = real_tok
        bnv.BanditNodeVisitor.process = real_process
    outcome.update(files=list(mgr.files_list), skipped=list(mgr.skipped),
                   results=[impl.issue_dict(i) for i in mgr.results])
    return outcome


def fault_cases(R, rng, tier):
    d = os.path.join(impl.scratch(), "faults")
    os.makedirs(d, exist_ok=True)
    cases, descr = [], []
    ns = [1, 3] if tier == "quick" else [1, 2, 3, 5]
    for n in ns:
        paths = []
        for i in range(n):
            p = os.path.join(d, "n%d_f%d.py" % (n, i))
            open(p, "w").write(HEALTHY[i % len(HEALTHY)])
            paths.append(p)
        clean = run_with_fault(paths, None, None, None)
        own = {p: [r for r in clean["results"] if r["fname"] == p] for p in paths}
        for pos in range(n):
            for stage in STAGES:
                names = sorted(OPEN_CLASSES) if stage == "AtOpen" else sorted(EXC_CLASSES)
                if tier == "quick" and n > 1:
                    names = rng.sample(names, 4)
                for exc in names:
                    o = run_with_fault(paths, paths[pos], stage, exc)
                    R.case(("fault", n, pos, stage, exc), sample={"files": n, "faulty": pos, "stage": stage, "exception": exc,
                                                                  "skipped": [(os.path.basename(a), b) for a, b in o["skipped"]]})
                    R.count("stage:" + stage)
                    R.count("exc:" + exc)
                    inp = {"files": n, "faulty_position": pos, "stage": stage, "exception": exc}
                    # ---- the statement
                    if o["escaped"]:
                        R.violations.append({"what": "the scan does not complete: %s escapes run_tests" % o["escaped"], "input": inp,
                                             "observed": o["escaped"], "signature": None})
                        continue
                    acc = o["files"] + [s[0] for s in o["skipped"]]
                    if sorted(acc) != sorted(paths):
                        R.violations.append({"what": "discovered files are not accounted for exactly once", "input": inp,
                                             "observed": {"files_list": o["files"], "skipped": o["skipped"]}, "signature": None})
                    for f, reason in o["skipped"]:
                        if not reason:
                            R.violations.append({"what": "file skipped without a reason", "input": inp, "observed": o["skipped"], "signature": None})
                    if any(f == paths[pos] for f, _ in o["skipped"]) and [r for r in o["results"] if r["fname"] == paths[pos]]:
                        R.violations.append({"what": "a skipped file still contributes findings (it is both skipped and reported on)", "input": inp,
                                             "observed": [(r["test_id"], r["lineno"]) for r in o["results"] if r["fname"] == paths[pos]], "signature": None})
                    for p in paths:
                        if p != paths[pos]:
                            if [r for r in o["results"] if r["fname"] == p] != own[p]:
                                R.violations.append({"what": "a fault in one file changed the findings of another file", "input": inp,
                                                     "observed": [r["test_id"] for r in o["results"]], "signature": None})
                    # ---- the model
                    files_coq = L.lst(["(%s, %s, %s)" % (L.pstr(os.path.basename(p)),
                                                          "(Some (%s, %s))" % ("AtProcess" if stage == "AtVisitEnd" else stage, L.pstr(exc)) if i == pos else "None",
                                                          L.lst([impl.finding_coq(r) for r in own[p]], "finding"))
                                       for i, p in enumerate(paths)], "file_input")
                    exp = "(%s, %s, %s)" % (L.lst([L.pstr(os.path.basename(f)) for f in o["files"]], "pstr"),
                                            L.lst([L.pstr(os.path.basename(f)) for f, _ in o["skipped"]], "pstr"),
                                            L.lst([impl.finding_coq(r) for r in o["results"]], "finding"))
                    cases.append((files_coq, exp))
                    descr.append(inp)
    imports = "From Bandit Require Import Engine.Facts Manager.Accounting Gen.Ladders Inst.C04_inst.\n"
    extra = ("Definition obs (r : run_result) : list pstr * list pstr * list finding :=\n"
             "  match r with Completed st => (ms_files st, map fst (ms_skipped st), ms_results st) | Aborted _ _ st => ([s2p \"<aborted>\"], [], []) end.\n"
             "Definition oeqb (a b : list pstr * list pstr * list finding) := match a, b with (f1, s1, r1), (f2, s2, r2) => list_eqb pstr_eqb f1 f2 && list_eqb pstr_eqb s1 s2 && list_eqb finding_eqb r1 r2 end.\n")
    mm, br = core.unit_corr(imports, "fun files => obs (run_files exn_supers ladders_gen files ms_init)", "list file_input",
                            "list pstr * list pstr * list finding", "oeqb", cases, extra_defs=extra, label="c04f", shard=150)
    R.broken.extend(br)
    for i, tail in mm[:10]:
        R.broken.append({"what": "correspondence: files_list/skipped/results under an injected fault differ from the Accounting model",
                         "input": descr[i], "implementation": cases[i][1][:400], "model_output_excerpt": tail[:600]})


def mutate(rng, data):
    k = rng.choice(["trunc", "flip", "insert", "nul", "deep", "bom", "cr", "surrogate", "latin", "longline", "tabs", "random",
                    "cookie_undecodable", "cookie_unknown", "bom_cookie"])
    if k == "trunc":
        return data[:rng.randint(0, max(0, len(data) - 1))], k
    if k == "flip" and data:
        i = rng.randrange(len(data))
        return data[:i] + bytes([data[i] ^ (1 << rng.randrange(8))]) + data[i + 1:], k
    if k == "insert":
        i = rng.randint(0, len(data))
        return data[:i] + rng.choice([b"(", b")", b"'", b'"""', b"\\", b"\xff", b"\x00", b"\t", b"\x0c", b"#", b"\xe2\x80\xae", b"lambda:", b"\r"]) + data[i:], k
    if k == "nul":
        return data + b"\x00", k
    if k == "deep":
        n = rng.choice([50, 300, 3000])
        return b"x = " + b"(" * n + b"1" + b")" * n + b"\n", k
    if k == "bom":
        return b"\xef\xbb\xbf" + data, k
    if k == "cr":
        return data.replace(b"\n", rng.choice([b"\r\n", b"\r"])), k
    if k == "surrogate":
        return b"password = '\\ud800'\nx = '\\udfff' + y\nassert x\n", k
    if k == "latin":
        return b"# -*- coding: latin-1 -*-\ns = '\xe9'\nassert s\n", k
    if k == "cookie_undecodable":
        # the declared codec cannot decode a byte the tokenizer lets through: ast.parse fails without a line
        codec, byte = rng.choice([("ascii", b"\xe9"), ("cp1252", b"\x81"), ("utf-8", b"\xff"), ("cp1252", b"\x8d"), ("iso-8859-7", b"\xae"), ("shift_jis", b"\xfd")])
        return b"# -*- coding: " + codec.encode() + b" -*-\ns = '" + byte + b"'\nassert s\n", k
    if k == "cookie_unknown":
        return b"# coding: " + rng.choice([b"zz-unknown", b"rot13", b"hex", b"utf-16", b"punycode"]) + b"\nassert x\n", k
    if k == "bom_cookie":
        return b"\xef\xbb\xbf# coding: " + rng.choice([b"latin-1", b"utf-8", b"ascii"]) + b"\ns = '\xc3\xa9'\nassert s\n", k
    if k == "longline":
        return b"x = '" + b"a" * rng.choice([1000, 200000]) + b"'\nassert x\n", k
    if k == "tabs":
        return b"if x:\n\ty = 1\n        z = 2\n", k
    return bytes(rng.randrange(256) for _ in range(rng.randint(0, 200))), k


def byte_cases(R, rng, tier):
    ex = sorted(glob.glob(os.path.join(core.REPO, "examples", "*.py")))
    n = 150 if tier == "quick" else 4000
    d = os.path.join(impl.scratch(), "bytes")
    os.makedirs(d, exist_ok=True)
    healthy = []
    for i, src in enumerate(HEALTHY[:2]):
        p = os.path.join(d, "h%d.py" % i)
        open(p, "w").write(src)
        healthy.append(p)
    base = climain.run_main(["-q", "-f", "json", "--exit-zero"] + healthy)
    base_res = json.loads(base["stdout"])["results"]
    key = lambda x: (x["filename"], x["test_id"], x["line_number"], x["issue_text"])
    for i in range(n):
        seed = open(rng.choice(ex), "rb").read() if rng.random() < 0.7 else rng.choice(HEALTHY).encode()
        data, kind = mutate(rng, seed)
        bad = os.path.join(d, "m.py")
        open(bad, "wb").write(data)
        order = [healthy[0], bad, healthy[1]]
        r = climain.run_main(["-q", "-f", "json", "--exit-zero"] + order)
        R.case(("bytes", data), nontrivial=True, sample={"mutation": kind, "size": len(data), "exit": r["exit"]})
        R.count("mutation:" + kind)
        inp = {"mutation": kind, "bytes": repr(data[:200]), "size": len(data)}
        if r["exception"]:
            sig = "lone-surrogate-in-reported-literal" if kind == "surrogate" or b"\\ud8" in data or b"\\udf" in data else None
            R.violations.append({"what": "no report: %s escapes while scanning/reporting arbitrary file content" % r["exception"], "input": inp,
                                 "observed": (r["traceback"] or "")[-600:], "signature": sig})
            continue
        try:
            j = json.loads(r["stdout"])
        except Exception as e:
            R.violations.append({"what": "report is not valid JSON (%s)" % e, "input": inp, "observed": r["stdout"][:300], "signature": None})
            continue
        scanned = set(j["metrics"].keys()) - {"_totals"}
        skipped = {e["filename"] for e in j["errors"]}
        names = {"./" + os.path.relpath(p) if not os.path.isabs(p) else p for p in order}
        accounted = [p for p in order if ((p in scanned) or (os.path.join(".", p) in scanned)) != ((p in skipped) or (os.path.join(".", p) in skipped))]
        # metrics has an entry for every file metrics.begin() saw (also for files that failed later): use errors + results instead
        if bad not in skipped and os.path.join(".", bad) not in skipped:
            pass
        for e in j["errors"]:
            if not e["reason"]:
                R.violations.append({"what": "file skipped without a reason", "input": inp, "observed": j["errors"], "signature": None})
        others = [x for x in j["results"] if not x["filename"].endswith("m.py")]
        if [key(x) for x in others] != [key(x) for x in base_res]:
            R.violations.append({"what": "a problem file changed the findings reported for the other files", "input": inp,
                                 "observed": [key(x) for x in others][:6], "signature": None})
        if len(j["errors"]) > 1 or any(not e["filename"].endswith("m.py") for e in j["errors"]):
            R.violations.append({"what": "a healthy file was skipped", "input": inp, "observed": j["errors"], "signature": None})


def many_files(R, rng, tier):
    """More files than the progress-bar threshold, default verbosity, one faulty file: every healthy file keeps its finding."""
    import shutil
    d = os.path.join(impl.scratch(), "many")
    for n, kinds in ((55, ["syntax", "cookie"]), (12, ["syntax"])) if tier == "quick" else ((55, ["syntax", "cookie", "nul", "dir"]), (120, ["syntax"]), (51, ["syntax"]), (12, ["syntax"])):
        for kind in kinds:
            for pos in ([n // 2] if tier == "quick" else [0, n // 2, n - 2]):
                shutil.rmtree(d, ignore_errors=True)
                os.makedirs(d)
                for i in range(n):
                    p = os.path.join(d, "m%03d.py" % i)
                    if i == pos:
                        data = {"syntax": b"def f(:\n", "cookie": b"# coding: ascii\ns = '\xe9'\n", "nul": b"x = 1\x00\n", "dir": b"x = 1\n"}[kind]
                        open(p, "wb").write(data)
                    else:
                        open(p, "w").write("assert zz_%d\n" % i)
                for quiet in ([], ["-q"]):
                    r = climain.run_main(quiet + ["-r", "-f", "json", "--exit-zero", d])
                    R.case(("many", n, kind, pos, bool(quiet)), sample={"files": n, "faulty": pos, "kind": kind, "quiet": bool(quiet), "exit": r["exit"]})
                    R.count("many-files:%d" % n)
                    inp = {"files": n, "faulty_position": pos, "faulty_kind": kind, "options": quiet + ["-r", "-f", "json", "--exit-zero"]}
                    if r["exception"]:
                        R.violations.append({"what": "no report: %s escapes a scan of %d files" % (r["exception"], n), "input": inp,
                                             "observed": (r["traceback"] or "")[-400:], "signature": None})
                        continue
                    try:
                        j = json.loads(r["stdout"][r["stdout"].index("{"):])
                    except Exception as e:
                        R.violations.append({"what": "report is not valid JSON (%s)" % e, "input": inp, "observed": r["stdout"][:300], "signature": None})
                        continue
                    have = {os.path.basename(x["filename"]) for x in j["results"] if x["test_id"] == "B101"}
                    want = {"m%03d.py" % i for i in range(n) if i != pos}
                    if have != want:
                        R.violations.append({"what": "a faulty file among %d changed what is reported for other files: findings missing for %s"
                                                     % (n, sorted(want - have)[:4]), "input": inp, "observed": sorted(want - have)[:10], "signature": None})
                    sk = {os.path.basename(e["filename"]) for e in j["errors"]}
                    if kind != "dir" and sk != {"m%03d.py" % pos}:
                        R.violations.append({"what": "skipped files are %s, expected exactly the faulty one" % sorted(sk), "input": inp, "observed": j["errors"], "signature": None})
    shutil.rmtree(d, ignore_errors=True)


def faulty_sets(R, rng, tier):
    """Runs in which some or all files are faulty in different ways (several faults in one run, every position, no healthy
    file at all), rendered by every formatter: the scan completes, a report is produced in each format, every file is in
    exactly one of scanned/skipped and healthy files keep their findings."""
    import itertools
    import shutil
    d = os.path.join(impl.scratch(), "fsets")
    FAULTS = {"syntax": b"def f(:\n", "nul": b"x = 1\x00\n", "bytes": b"\xff\xfe\x00garbage\n", "cookie": b"# coding: ascii\ns = '\xe9'\n",
              "missing": None, "loop": "LOOP"}
    layouts = []
    kinds = sorted(FAULTS)
    for k in kinds:                                   # no healthy file at all
        layouts.append([k])
        layouts.append([k, k])
    for a, b in itertools.product(kinds, kinds):      # two faults around healthy files, every order
        layouts.append(["ok", a, "ok", b, "ok"])
        if tier != "quick":
            layouts.append([a, b, "ok"])
            layouts.append(["ok", a, b])
    if tier == "quick":
        layouts = layouts[:12] + rng.sample(layouts[12:], 14)
    fmts = ("json", "txt", "screen", "csv", "xml", "html", "yaml", "sarif", "custom")
    for lay in layouts:
        shutil.rmtree(d, ignore_errors=True)
        os.makedirs(d)
        names = []
        for i, k in enumerate(lay):
            p_ = os.path.join(d, "f%02d_%s.py" % (i, k))
            names.append(p_)
            if k == "ok":
                open(p_, "w").write("assert zz_%d\n" % i)
            elif k == "missing":
                pass                                  # named on the command line, does not exist
            elif k == "loop":
                os.symlink(os.path.basename(p_), p_)  # ELOOP at open()
            else:
                open(p_, "wb").write(FAULTS[k])
        for fmt in (fmts if tier != "quick" else ("json", "txt", rng.choice(fmts[2:]))):
            out = os.path.join(impl.scratch(), "fsets.out")
            if os.path.exists(out):
                os.remove(out)
            r = climain.run_main(["-f", fmt, "-o", out, "--exit-zero"] + names)   # not -q: a quiet text report of no findings is empty by design
            R.case(("fset", tuple(lay), fmt), nontrivial=True, sample={"layout": lay, "format": fmt, "exit": r["exit"], "exception": r["exception"]})
            R.count("faulty-set:%s" % fmt)
            inp = {"files": [os.path.basename(n) for n in names], "kinds": lay, "options": ["-f", fmt, "-o", "OUT", "--exit-zero"]}
            # the custom template is one line per finding: its report of no findings is an empty file
            produced = ("Run started" in r["stdout"]) if fmt == "screen" else (os.path.exists(out) and (fmt == "custom" or os.path.getsize(out) > 0))
            if r["exception"] or r["exit"] != 0 or not produced:      # the screen formatter always writes to the terminal
                R.violations.append({"what": "no %s report for a run over files %s (%s)" % (fmt, lay, r["exception"] or "exit %s" % r["exit"]),
                                     "input": inp, "observed": (r["traceback"] or r["stderr"] or "")[-500:], "signature": None})
                continue
            if fmt != "json":
                continue
            j = json.load(open(out))
            scanned = [os.path.basename(x) for x in j["metrics"] if x != "_totals"]
            skipped = [os.path.basename(e["filename"]) for e in j["errors"]]
            want_ok = sorted(os.path.basename(n) for n, k in zip(names, lay) if k == "ok")
            want_bad = sorted(os.path.basename(n) for n, k in zip(names, lay) if k != "ok")
            # a file that could be opened but not parsed is listed in both (it was read; it has metrics): what matters is
            # that every healthy file is scanned and not skipped, every faulty file is skipped exactly once
            if sorted(skipped) != want_bad:
                R.violations.append({"what": "skipped files are %s, the faulty ones are %s (layout %s)" % (sorted(skipped), want_bad, lay),
                                     "input": inp, "observed": j["errors"], "signature": None})
            if sorted(set(scanned) - set(skipped)) != want_ok:
                R.violations.append({"what": "files scanned and not skipped are %s, the healthy ones are %s (layout %s)"
                                             % (sorted(set(scanned) - set(skipped)), want_ok, lay), "input": inp, "observed": sorted(j["metrics"]), "signature": None})
            have = sorted(os.path.basename(x["filename"]) for x in j["results"] if x["test_id"] == "B101")
            if have != want_ok:
                R.violations.append({"what": "findings of healthy files are %s, expected one B101 in each of %s (layout %s)" % (have, want_ok, lay),
                                     "input": inp, "observed": have, "signature": None})
    shutil.rmtree(d, ignore_errors=True)


def stdin_faults(R, rng, tier):
    """An I/O failure on standard input itself (the '-' target) next to healthy files: the scan completes, '-' is skipped with
    a reason, the other files keep their findings."""
    d = os.path.join(impl.scratch(), "stdinf")
    os.makedirs(d, exist_ok=True)
    ok = os.path.join(d, "ok.py")
    open(ok, "w").write("assert zz_ok\n")
    for argv in (["-", ok], [ok, "-"], ["-"]):
        r = climain.run_main(["-q", "-f", "json", "--exit-zero"] + argv, stdin_broken=True)
        R.case(("stdin-fault", tuple(os.path.basename(a) for a in argv)), nontrivial=True, sample={"targets": [os.path.basename(a) for a in argv], "exit": r["exit"], "exception": r["exception"]})
        R.count("stdin-fault")
        inp = {"targets": [os.path.basename(a) for a in argv], "stdin": "a descriptor that cannot be read (EBADF)"}
        if r["exception"] or r["exit"] != 0:
            R.violations.append({"what": "no report when standard input cannot be read (%s)" % (r["exception"] or "exit %s" % r["exit"]), "input": inp,
                                 "observed": (r["traceback"] or r["stderr"] or "")[-400:], "signature": None})
            continue
        try:
            j = json.loads(r["stdout"][r["stdout"].index("{"):])
        except Exception as e:  # noqa: BLE001
            R.violations.append({"what": "report is not valid JSON (%s)" % e, "input": inp, "observed": r["stdout"][:300], "signature": None})
            continue
        sk = [e["filename"] for e in j["errors"]]
        have = [os.path.basename(x["filename"]) for x in j["results"] if x["test_id"] == "B101"]
        if len(sk) != 1 or have != (["ok.py"] if ok in argv else []):
            R.violations.append({"what": "unreadable standard input: skipped %s, findings in %s (expected exactly the stdin target skipped, healthy files reported)" % (sk, have),
                                 "input": inp, "observed": j["errors"], "signature": None})


def order_independence(R, rng, tier):
    """Files whose visit fails (expressions nested deeper than the visitor's recursion allows, at several depths) and healthy
    files: what is reported for a file - scanned or skipped, and its findings - is the same alone and after any other file."""
    import shutil
    d = os.path.join(impl.scratch(), "orderind")
    shutil.rmtree(d, ignore_errors=True)
    os.makedirs(d)
    specs = {"deep0300.py": 300, "deep0450.py": 450, "deep0700.py": 700, "deep1100.py": 1100, "deep2600.py": 2600, "ok.py": 0}
    for fn, n in specs.items():
        body = "assert zz_first\n" + ("zz_v = " + " + ".join(["1"] * n) + "\n" if n else "") + "exec(zz_last)\n"
        open(os.path.join(d, fn), "w").write(body)

    def outcome(j, fn):
        sk = [e for e in j["errors"] if os.path.basename(e["filename"]) == fn]
        return ("skipped" if sk else "scanned", sorted((x["test_id"], x["line_number"]) for x in j["results"] if os.path.basename(x["filename"]) == fn))

    def scan(files):
        r = climain.run_main(["-q", "-f", "json", "--exit-zero"] + [os.path.join(d, f) for f in files])
        if r["exception"] or r["exit"] != 0:
            return None, r
        return json.loads(r["stdout"][r["stdout"].index("{"):]), r
    names = sorted(specs)
    alone = {}
    for fn in names:
        j, r = scan([fn])
        if j is None:
            R.violations.append({"what": "no report for a deeply nested file (%s)" % (r["exception"] or r["exit"]), "input": {"file": fn, "operands": specs[fn]},
                                 "observed": (r["traceback"] or "")[-300:], "signature": None})
            return
        alone[fn] = outcome(j, fn)
    orders = [names, names[::-1]] + [rng.sample(names, len(names)) for _ in range(2 if tier == "quick" else 10)]
    # bandit scans in sorted order whatever the command line says: vary which files are present instead
    subsets = orders + [[a, b] for a in names for b in names if a < b]
    if tier == "quick":
        subsets = orders[:2] + rng.sample(subsets[2:], 8)
    for files in subsets:
        j, r = scan(files)
        R.case(("order-ind", tuple(files)), nontrivial=True, sample={"files": files, "exit": r["exit"]})
        R.count("order-independence")
        inp = {"files": files, "operands": {f: specs[f] for f in files}}
        if j is None:
            R.violations.append({"what": "no report for a run over deeply nested files (%s)" % (r["exception"] or r["exit"]), "input": inp,
                                 "observed": (r["traceback"] or "")[-300:], "signature": None})
            continue
        for fn in files:
            if outcome(j, fn) != alone[fn]:
                R.violations.append({"what": "file %s is %s with findings %s in this run but %s with %s when scanned alone" % (
                    fn, outcome(j, fn)[0], outcome(j, fn)[1], alone[fn][0], alone[fn][1]), "input": inp, "observed": j["errors"], "signature": None})
    shutil.rmtree(d, ignore_errors=True)


def many_findings_few_descriptors(R, rng, tier):
    """More files with findings than the process may hold open at once (a soft descriptor limit of 64, 150 healthy files with one
    finding each): every file is scanned, none is skipped, every finding has its excerpt."""
    import shutil
    import subprocess
    import sys
    d = os.path.join(impl.scratch(), "fdlimit")
    shutil.rmtree(d, ignore_errors=True)
    os.makedirs(d)
    n = 150
    for i in range(n):
        open(os.path.join(d, "f%03d.py" % i), "w").write("assert zz_%d\n" % i)
    script = ("import resource, sys\n"
              "soft, hard = resource.getrlimit(resource.RLIMIT_NOFILE)\n"
              "resource.setrlimit(resource.RLIMIT_NOFILE, (64, hard))\n"
              "sys.argv = ['bandit', '-q', '-r', '-f', 'json', '--exit-zero', %r]\n"
              "from bandit.cli import main\nmain.main()\n" % d)
    p_ = subprocess.run([sys.executable, "-c", script], capture_output=True, text=True, timeout=600, env=dict(os.environ, PYTHONPATH=core.REPO))
    R.case(("fd-limit", n), nontrivial=True, sample={"files": n, "descriptor_limit": 64, "exit": p_.returncode})
    R.count("fd-limit")
    inp = {"files": n, "each": "assert zz_i", "RLIMIT_NOFILE": 64}
    try:
        j = json.loads(p_.stdout[p_.stdout.index("{"):])
    except Exception:  # noqa: BLE001
        R.violations.append({"what": "no report for %d healthy files under a descriptor limit of 64 (exit %s)" % (n, p_.returncode), "input": inp,
                             "observed": (p_.stderr or p_.stdout)[-400:], "signature": None})
        shutil.rmtree(d, ignore_errors=True)
        return
    have = sorted(os.path.basename(x["filename"]) for x in j["results"] if x["test_id"] == "B101")
    no_code = [os.path.basename(x["filename"]) for x in j["results"] if not (x.get("code") or "").strip()]
    if j["errors"] or len(have) != n or no_code:
        R.violations.append({"what": "%d healthy files under a descriptor limit of 64: %d skipped, %d findings, %d findings without an excerpt" % (
            n, len(j["errors"]), len(have), len(no_code)), "input": inp, "observed": j["errors"][:3], "signature": None})
    shutil.rmtree(d, ignore_errors=True)


def check_faults(R, rng, tier):
    """A check that raises while one file is scanned (the tester logs it and goes on) costs that file's findings of that check
    only: files scanned afterwards keep all of theirs."""
    from bandit.core import extension_loader
    d = os.path.join(impl.scratch(), "chk")
    os.makedirs(d, exist_ok=True)
    srcs = {"a_first.py": "assert a\nexec(x)\n", "m_faulty.py": "assert m\nexec(y)\n", "z_after.py": "assert z\nexec(w)\nimport pickle\n"}
    paths = []
    for fn, src in srcs.items():
        open(os.path.join(d, fn), "w").write(src)
        paths.append(os.path.join(d, fn))
    for victim in ("assert_used", "exec_used"):
        plug = [p for p in extension_loader.MANAGER.plugins if p.name == victim][0]
        mgr = impl.make_manager()
        mgr.files_list = list(paths)
        real = plug.plugin
        tests = [t for lst in mgr.b_ts.tests.values() for t in lst if getattr(t, "__name__", None) == real.__name__]

        def wrapper(context, *a, _real=real, **k):
            if str(context.filename).endswith("m_faulty.py"):
                raise RuntimeError("injected fault in %s" % victim)
            return _real(context, *a, **k)
        for attr in ("_checks", "_test_id", "_takes_config", "_config", "__name__"):
            if hasattr(real, attr):
                setattr(wrapper, attr, getattr(real, attr))
        # swap the function inside the test set's tables
        for lst in mgr.b_ts.tests.values():
            for i_, t in enumerate(lst):
                if t is real:
                    lst[i_] = wrapper
        escaped = None
        try:
            mgr.run_tests()
        except BaseException as e:  # noqa
            escaped = type(e).__name__
        got = {}
        for i_ in mgr.results:
            got.setdefault(os.path.basename(i_.fname), []).append(i_.test_id)
        tid = real._test_id
        R.case(("check-fault", victim), nontrivial=True, sample={"failing_check": victim, "findings": got})
        R.count("stage:AtCheck")
        inp = {"files": list(srcs), "check_raising_in": "m_faulty.py", "check": victim}
        if escaped:
            R.violations.append({"what": "a check raising in one file aborts the scan (%s)" % escaped, "input": inp, "observed": escaped, "signature": None})
            continue
        for fn in ("a_first.py", "z_after.py"):
            if tid not in got.get(fn, []):
                R.violations.append({"what": "a check that raised while m_faulty.py was scanned no longer reports in %s (findings of %s lost)" % (fn, tid),
                                     "input": inp, "observed": got, "signature": None})
        other = "B102" if tid == "B101" else "B101"
        if other not in got.get("m_faulty.py", []):
            R.violations.append({"what": "a raising check cost the file the findings of another check (%s)" % other, "input": inp, "observed": got, "signature": None})
        if [p for p in paths if p not in mgr.files_list]:
            R.violations.append({"what": "a raising check made the file count as skipped", "input": inp, "observed": mgr.skipped, "signature": None})


def odd_names(R, rng, tier):
    """File names that are not valid UTF-8 (Python carries them with surrogate escapes): every format still produces a report."""
    d = os.path.join(impl.scratch(), "odd").encode()
    os.makedirs(d, exist_ok=True)
    try:
        open(os.path.join(d, b"caf\xe9.py"), "w").write("assert a\n")
        open(os.path.join(d, b"ok.py"), "w").write("assert b\n")
    except OSError:
        return
    for fmt, how in [(f_, h_) for f_ in ("json", "yaml", "csv", "xml", "html", "txt", "sarif", "custom", "screen") for h_ in ("file-abs", "file-rel", "stdout-rel")]:
        out = os.path.join(impl.scratch(), "odd.out")
        if how == "file-abs":
            r = climain.run_main(["-q", "-r", "-f", fmt, "-o", out, "--exit-zero", d.decode()])
        elif how == "file-rel":
            r = climain.run_main(["-q", "-r", "-f", fmt, "-o", out, "--exit-zero", "."], cwd=d.decode())
        else:
            r = climain.run_main(["-q", "-r", "-f", fmt, "--exit-zero", "."], cwd=d.decode())
        R.case(("odd-name", fmt, how), nontrivial=True, sample={"format": fmt, "output": how, "exit": r["exit"], "exception": r["exception"]})
        R.count("odd-names")
        if r["exception"] or r["exit"] != 0:
            R.violations.append({"what": "no %s report (%s) for a directory holding a file whose name is not valid UTF-8 (%s)" % (fmt, how, r["exception"] or "exit %s" % r["exit"]),
                                 "input": {"names": ["caf\\xe9.py", "ok.py"], "format": fmt, "output": how}, "observed": (r["traceback"] or "")[-400:],
                                 "signature": None})


def odd_names_stdout(R, rng, tier):
    """The same through a real standard output that encodes strictly (PYTHONIOENCODING=utf-8), as a process of its own."""
    import subprocess
    d = os.path.join(impl.scratch(), "odd2").encode()
    os.makedirs(d, exist_ok=True)
    try:
        open(os.path.join(d, b"caf\xe9.py"), "w").write("assert a\n")
    except OSError:
        return
    for fmt in ("json", "yaml", "xml", "sarif"):
        env = dict(os.environ, PYTHONPATH=core.REPO, PYTHONIOENCODING="utf-8")
        p_ = subprocess.run([core.PY, "-m", "bandit", "-q", "-r", "-f", fmt, "--exit-zero", "."], cwd=d.decode(), env=env, capture_output=True)
        R.case(("odd-name-stdout", fmt), nontrivial=True, sample={"format": fmt, "exit": p_.returncode})
        R.count("odd-names")
        if p_.returncode != 0 or b"Traceback" in p_.stderr:
            R.violations.append({"what": "format %s to a strictly encoding standard output: no report for a file whose name is not valid UTF-8 (exit %s)" % (fmt, p_.returncode),
                                 "input": {"names": ["caf\\xe9.py"], "format": fmt, "env": "PYTHONIOENCODING=utf-8"},
                                 "observed": p_.stderr.decode("utf-8", "replace")[-400:], "signature": None})


def run(R, replay=None):
    rng = random.Random(R.seed)
    for f in core.gen():
        R.broken.append({"what": "translator failed: " + f["translator"], "log": f["stderr"]})
    R.proof = core.prove(PROP_FILES, DEPS)
    for f in R.proof["failed"]:
        R.broken.append({"what": "proof obligation no longer checks: %s (%s) %s" % (f["file"], f["why"], f.get("theorem") or ""),
                         "log": f.get("log", "")})
    R.rule = ("fault enumeration: every pipeline stage (open, read, tokenize, parse/visit) x every exception class of the regenerated "
              "matrix that the statement admits x every position of the faulty file among N healthy files, injected into the real "
              "manager and compared with the Accounting model and with the statement; plus mutated / truncated / random byte files "
              "(encoding and newline pathologies, NULs, deep nesting, long lines, lone surrogates) between two healthy files through "
              "main() with JSON output; directories of 12-120 files (below and above the progress-bar threshold, quiet and default "
              "verbosity) with one faulty file; runs with two faults of every pair of kinds in either order or with no healthy file at "
              "all, rendered by every formatter; non-trivial = every case"
              "; runs with two faults of every pair of kinds / no healthy file rendered by every formatter; unreadable standard input; files whose visit fails at several nesting depths alone and after each other")
    fault_cases(R, rng, R.tier)
    byte_cases(R, rng, R.tier)
    many_files(R, rng, R.tier)
    faulty_sets(R, rng, R.tier)
    stdin_faults(R, rng, R.tier)
    order_independence(R, rng, R.tier)
    many_findings_few_descriptors(R, rng, R.tier)
    check_faults(R, rng, R.tier)
    odd_names(R, rng, R.tier)
    odd_names_stdout(R, rng, R.tier)
    R.disagreements_checked = R.evaluations
