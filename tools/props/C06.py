"""C06 - no built-in check crashes on valid Python."""
import ast
import glob
import importlib
import os
import random
import re

import core
import family
import impl

PROP_FILES = ["theories/Props/C06.v", "theories/Inst/C06_inst.v"]
DEPS = ["theories/Proofs/C06_proofs.vo", "theories/Plugins/All.vo", "theories/Gen/Registry.vo", "theories/Gen/Ladders.vo",
        "theories/Gen/Blacklists.vo", "theories/Gen/Constants.vo", "theories/Gen/Regexes.vo"]
GENS = ["gen.fam_shell", "gen.fam_crypto", "gen.fam_secrets", "gen.fam_inject", "gen.fam_misc", "gen.fam_generic"]


def skeleton(msg):
    msg = re.sub(r"0x[0-9a-f]+", "0x", msg)
    msg = re.sub(r"'[^']*'", "'_'", msg)
    msg = re.sub(r"\d+", "N", msg)
    return msg[:80]


def signature(test, exn, rep, src):
    """Identity of a crash class: the check, the exception class, and the shape that provokes it."""
    shape = ""
    if "unhashable" in rep:
        shape = "unhashable-set-element"
    elif test == "hardcoded_password_funcarg":
        shape = "double-star-string"
    elif test == "django_mark_safe":
        shape = {"IndexError": "no-positional-argument-or-short-tuple", "AttributeError": "non-name-assignment-target",
                 "OtherError": "self-referential-assignment"}.get(exn, "")
        if exn == "AttributeError":
            # the known finding is about a tuple *assignment* one of whose targets is not a plain name; an AttributeError
            # without such an assignment in the program is something else
            try:
                tree = ast.parse(src)
                hit = any(isinstance(n, ast.Assign) and any(isinstance(t, (ast.Tuple, ast.List)) and any(not isinstance(e, ast.Name) for e in t.elts)
                                                              for t in n.targets) for n in ast.walk(tree))
            except SyntaxError:
                hit = False
            if not hit:
                shape = ""
    elif test == "django_rawsql_used":
        shape = "no-sql-argument"
    elif test == "tarfile_unsafe_members":
        shape = "members-call-on-attribute"
    elif test == "weak_cryptographic_key":
        shape = "non-numeric-key-size-or-unhashable-curve"
    elif test == "blacklist":
        shape = "importlib-import-module-without-name"
    return "crash:%s:%s:%s" % (test, exn, shape)


def _strs(v):
    return isinstance(v, list) and all(isinstance(x, str) for x in v)


SCHEMAS = {
    "shell_injection": lambda d: set(d) == {"subprocess", "shell", "no_shell"} and all(_strs(v) for v in d.values()),
    "markupsafe_xss": lambda d: set(d) <= {"extend_markup_names", "allowed_calls"} and all(_strs(v) for v in d.values()),
    "hardcoded_tmp_directory": lambda d: set(d) == {"tmp_dirs"} and _strs(d["tmp_dirs"]),
    "ssl_with_bad_version": lambda d: set(d) == {"bad_protocol_versions"} and _strs(d["bad_protocol_versions"]),
    "try_except_pass": lambda d: set(d) == {"check_typed_exception"} and isinstance(d["check_typed_exception"], bool),
    "try_except_continue": lambda d: set(d) == {"check_typed_exception"} and isinstance(d["check_typed_exception"], bool),
    "assert_used": lambda d: set(d) == {"skips"} and _strs(d["skips"]),
    "weak_cryptographic_key": lambda d: len(d) == 6 and all(k.startswith("weak_key_size_") and type(v) is int for k, v in d.items()),
}


def config_wellformed(cfg):
    """Every section is one of the documented settings blocks, complete and of the documented types."""
    return isinstance(cfg, dict) and all(k in SCHEMAS and isinstance(v, dict) and SCHEMAS[k](v) for k, v in cfg.items())


def oracle(p, o):
    out = []
    if p.get("config") and not config_wellformed(p["config"]):
        return out                      # the statement is about the built-in checks on valid Python; misconfiguration is C13's
    for test, exn, rep in o["errors"]:
        out.append({"what": "check %s raised %s on a syntactically valid program (internal error logged, findings of this check for the node lost)" % (test, rep[:120]),
                    "input": p["src"], "observed": {"test": test, "exception": rep}, "signature": signature(test, exn, rep, p["src"])})
    if o["skipped"]:
        try:
            ast.parse(p["src"])
            out.append({"what": "a syntactically valid file was demoted to 'skipped'", "input": p["src"], "observed": o["skipped"], "signature": None})
        except (SyntaxError, ValueError):
            pass
    return out


def run(R, replay=None):
    R.rule = ("every family generator (all keyed function names x call shapes: no/one/many positionals, *a, **k, **literal, keyword-only "
              "use, every literal kind, containers incl. sets with unhashable elements, names, attributes, calls, f-strings) plus a generic "
              "generator (every keyed name x crash-provoking argument shapes; mutated example files) under the default configuration; "
              "every internal error of the real tester is a violation, identified by check / exception class / provoking shape; the "
              "models must reproduce each crash (whole-scan correspondence on the list of internal errors); non-trivial = at least one "
              "finding or internal error")
    gens = [g for g in GENS if os.path.exists(os.path.join(core.VERIF, "tools", g.replace(".", "/") + ".py"))]
    # the correspondence of this property is about what it states: which checks raise on which programs (the models must
    # reproduce each internal error and raise none of their own); whether the *findings* agree is the tie of C14-C17
    import scancorr
    family.run_family(R, PROP_FILES, DEPS, gens, oracle, "all plugin families", max_quick=6000, eq=scancorr.ERRORS_ONLY)
