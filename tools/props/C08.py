"""C08 - findings are a deterministic function of file, config and selection."""
import glob
import itertools
import json
import os
import random
import re
import subprocess

import core
import coqlit as L
import impl

PROP_FILES = ["theories/Props/C08.v", "theories/Inst/C08_inst.v"]
DEPS = ["theories/Proofs/C08_proofs.vo", "theories/Gen/Ladders.vo"]

FILES = {
    "a.py": "import pickle\npickle.loads(x)\nimport tempfile\nf = '/tmp/x'\ng = '/var/data/x'\n",
    "b.py": "import marshal\nmarshal.loads(y)\nassert y\n",
    "c.py": "import subprocess\nsubprocess.Popen(c, shell=True)\nmyspawn(c)\n",
    # rules whose documentation links are special-cased (B304/B305, B313-B320), twice each, and nosec comments by rule name
    "d.py": ("import xml.etree.cElementTree as CET\nimport xml.etree.ElementTree as ET\nCET.fromstring(x)\nET.fromstring(y)\nCET.parse(z)\n"
             "ET.parse(w)  # nosec xml_bad_ElementTree\nfrom Crypto.Cipher import ARC2\nARC2.new(k)\nARC2.new(j)\n"
             "import telnetlib  # nosec import_telnetlib\nimport ftplib  # nosec import_telnetlib\n"
             # a comment naming one rule by an underscored name on a line with a second finding it does not name
             "import tempfile, os\ntempfile.mktemp()\nos.system(tempfile.mktemp())  # nosec mktemp_q\n"
             "eval(pickle.loads(z))  # nosec import_pickle\n"),
}
CONFIGS = [None, {"hardcoded_tmp_directory": {"tmp_dirs": ["/var/data"]}},
           {"shell_injection": {"subprocess": ["myspawn"], "shell": [], "no_shell": []}}]
SELECTIONS = [None, ["B301"], ["B302"], ["B108", "B602", "B603"], ["B313", "B314", "B304", "B401", "B402"], ["B306", "B605", "B307", "B301"]]


def render(m):
    """Produce a report from a finished scan (every formatter asks docs_utils for each finding's URL)."""
    import io
    import tempfile
    with tempfile.NamedTemporaryFile("w+", suffix=".json") as f:
        m.output_results(3, "LOW", "LOW", f, "json", None)



def key(r):
    return (r["fname"].rsplit("/", 1)[-1], r["test_id"], r["lineno"], r["text"])


def fresh(paths, cfg, sel):
    import yaml
    cf = None
    if cfg is not None:
        cf = os.path.join(impl.scratch(), "c08cfg.yaml")
        yaml.safe_dump(cfg, open(cf, "w"))
    m = impl.make_manager(include=sel, config_file=cf)
    # what this scanner wrote onto the (process-wide) check functions when it was constructed
    import copy
    m._verif_snap = {p.name: copy.deepcopy(getattr(p.plugin, "_config", None)) for p in m.b_ts.plugins}
    return m


def overwritten(m):
    """The known mechanism, observed directly: some check function no longer carries the configuration this scanner
    gave it (a scanner constructed later stored its own)."""
    return any(getattr(p.plugin, "_config", None) != m._verif_snap.get(p.name) for p in m.b_ts.plugins)


def history(R, rng, tier):
    d = os.path.join(impl.scratch(), "c08")
    os.makedirs(d, exist_ok=True)
    paths = []
    for n, src in FILES.items():
        p = os.path.join(d, n)
        open(p, "w").write(src)
        paths.append(p)
    specs = list(itertools.product(range(len(CONFIGS)), range(len(SELECTIONS))))
    # reference: each (config, selection) run alone in a fresh-looking state (constructed immediately before it runs)
    ref = {}
    for ci, si in specs:
        m = fresh(paths, CONFIGS[ci], SELECTIONS[si])
        m.files_list = list(paths)
        m.run_tests()
        ref[(ci, si)] = [key(impl.issue_dict(i)) for i in m.results]
    n = 40 if tier == "quick" else 600
    for _ in range(n):
        k = rng.randint(2, 4)
        hist = [rng.choice(specs) for _ in range(k)]
        mgrs = [fresh(paths, CONFIGS[ci], SELECTIONS[si]) for ci, si in hist]      # all constructed first ...
        order = list(range(k))
        rng.shuffle(order)
        for j in order:                                                            # ... then run in another order
            mgrs[j].files_list = list(paths)
            was_overwritten = overwritten(mgrs[j])
            mgrs[j].run_tests()
            got = [key(impl.issue_dict(i)) for i in mgrs[j].results]
            rendered = rng.random() < 0.6
            if rendered:
                try:
                    render(mgrs[j])
                except Exception as e:      # the formatter closing/consuming the file object is not this property's concern
                    rendered = "failed: %s" % type(e).__name__
            inp = {"constructed": [{"config": CONFIGS[ci], "tests": SELECTIONS[si]} for ci, si in hist], "run": j,
                   "report_rendered_after_this_run": rendered}
            R.case(("hist", tuple(hist), j), nontrivial=len(set(hist)) > 1, sample=dict(inp, findings=len(got)))
            R.count("history")
            if got != ref[hist[j]]:
                # the known finding, identified by its mechanism: a check function carried another scanner's configuration
                sig = "shared-function-config" if was_overwritten else None
                R.violations.append({"what": "a scanner's findings depend on other scanner objects constructed in the same process",
                                     "input": inp, "observed": {"got": got[:6], "alone": ref[hist[j]][:6]}, "signature": sig})


SEQ_PAIRS = [
    # (section, settings A, settings B, program, test ids concerned, lines reported under A, lines reported under B)
    ("markupsafe_xss", {"extend_markup_names": ["zz_ha.literal"]}, {"extend_markup_names": ["zz_hb.html"]},
     "import zz_ha, zz_hb\nzz_ha.literal(zz_x)\nzz_hb.html(zz_x)\n", ["B704"], [2], [3]),
    ("markupsafe_xss", {"extend_markup_names": ["zz_ha.literal"], "allowed_calls": ["zz_clean"]}, {"extend_markup_names": ["zz_ha.literal"], "allowed_calls": ["zz_other"]},
     "import zz_ha\nzz_ha.literal(zz_clean(zz_x))\nzz_ha.literal(zz_other(zz_x))\n", ["B704"], [3], [2]),
    ("hardcoded_tmp_directory", {"tmp_dirs": ["/var/data"]}, {"tmp_dirs": ["/scratch"]},
     "zz_a = '/var/data/x'\nzz_b = '/scratch/y'\n", ["B108"], [1], [2]),
    ("shell_injection", {"subprocess": ["zz_spawn"], "shell": [], "no_shell": []}, {"subprocess": ["zz_launch"], "shell": [], "no_shell": []},
     "zz_spawn(zz_c, shell=True)\nzz_launch(zz_c, shell=True)\n", ["B602"], [1], [2]),
    ("ssl_with_bad_version", {"bad_protocol_versions": ["PROTOCOL_ZZ"]}, {"bad_protocol_versions": ["PROTOCOL_YY"]},
     "import ssl\nssl.wrap_socket(ssl_version=ssl.PROTOCOL_ZZ)\nssl.wrap_socket(ssl_version=ssl.PROTOCOL_YY)\n", ["B502"], [2], [3]),
    ("try_except_pass", {"check_typed_exception": True}, {"check_typed_exception": False},
     "try:\n    zz_f()\nexcept ValueError:\n    pass\n", ["B110"], [3], []),
    ("weak_cryptographic_key", {"weak_key_size_dsa_high": 100, "weak_key_size_dsa_medium": 200, "weak_key_size_rsa_high": 100, "weak_key_size_rsa_medium": 200,
                                "weak_key_size_ec_high": 100, "weak_key_size_ec_medium": 200},
     {"weak_key_size_dsa_high": 5000, "weak_key_size_dsa_medium": 6000, "weak_key_size_rsa_high": 5000, "weak_key_size_rsa_medium": 6000,
      "weak_key_size_ec_high": 500, "weak_key_size_ec_medium": 600},
     "from Crypto.PublicKey import RSA\nRSA.generate(4096)\n", ["B505"], [], [2]),
]


def sequences(R, rng, tier):
    """Scanners used one after the other in one process, each constructed just before it runs, with *different* settings for
    the same plugin: every scan reports what its own settings say (judged by the settings, not by another run)."""
    import yaml
    d = os.path.join(impl.scratch(), "c08q")
    os.makedirs(d, exist_ok=True)
    for section, a, b, src, ids, la, lb in SEQ_PAIRS:
        f = os.path.join(d, "seq.py")
        open(f, "w").write(src)
        for order in ("ABAB", "BABA", "A-B-", "-A-B"):
            got_seq = []
            for step, which in enumerate(order):
                cfg = {"A": {section: a}, "B": {section: b}, "-": None}[which]
                cf = None
                if cfg is not None:
                    cf = os.path.join(d, "seq%d.yaml" % step)
                    yaml.safe_dump(cfg, open(cf, "w"), sort_keys=False)
                m = impl.make_manager(config_file=cf)
                m.files_list = [f]
                m.run_tests()
                got = sorted(i.lineno for i in m.results if i.test_id in ids)
                if rng.random() < 0.5:
                    try:
                        render(m)
                    except Exception:  # noqa: BLE001
                        pass
                if which != "-":
                    want = la if which == "A" else lb
                    R.case(("sequence", section, order, step), nontrivial=True, sample={"section": section, "order": order, "step": step, "lines": got})
                    R.count("sequence")
                    if got != sorted(want):
                        R.violations.append({"what": "scanner %d of the sequence %s (settings %s of %s) reports %s on lines %s; its own settings say lines %s"
                                                     % (step + 1, order, which, section, ids, got, sorted(want)),
                                             "input": {"program": src, "settings_A": a, "settings_B": b, "order": order, "step": step},
                                             "observed": got, "signature": None})


def rescans(R, rng, tier):
    """One path scanned, edited and scanned again by the same process: everything reported the second time (excerpts
    included) is what a fresh process reports for the edited file."""
    d = os.path.join(impl.scratch(), "c08r")
    os.makedirs(d, exist_ok=True)
    p = os.path.join(d, "edited.py")
    versions = ["assert a\n", "# moved down\n\nassert bbb\nimport pickle\n", "import pickle\n", "x = 1\n\n\n\nassert cc\n", "assert a\n"]
    for n, src in enumerate(versions):
        open(p, "w").write(src)
        m = impl.make_manager()
        m.files_list = [p]
        m.run_tests()
        got = [(i.test_id, i.lineno, i.get_code(3)) for i in m.results]
        lines = src.split("\n")
        R.case(("rescan", n), nontrivial=n > 0, sample={"version": n, "findings": [(a, b) for a, b, _ in got]})
        R.count("rescan")
        for tid, ln, code in got:
            rows = [r for r in code.split("\n") if r]
            ok = bool(rows) and all(r.partition(" ")[0].isdigit() and int(r.partition(" ")[0]) <= len(lines)
                                    and lines[int(r.partition(" ")[0]) - 1] == r.partition(" ")[2] for r in rows) \
                and ln in [int(r.partition(" ")[0]) for r in rows]
            if not ok:
                R.violations.append({"what": "after the file was edited and rescanned in the same process, the excerpt of %s (line %d) is not the file's current text" % (tid, ln),
                                     "input": {"versions_scanned_before": versions[:n], "current": src}, "observed": code, "signature": None})


def fresh_vs_history(R, rng, tier):
    """What a file yields in a process that has already scanned other files is what a fresh process yields for it alone
    (comment texts, names and literals shared between the files on purpose)."""
    d = os.path.join(impl.scratch(), "c08h")
    os.makedirs(d, exist_ok=True)
    corpus = {
        "helper.py": "import subprocess\nsubprocess.Popen('ls -l',  # nosec B602\n                 shell=True)  # nosec B607\nassert x  # nosec B101, B602\n",
        "service.py": "import subprocess\nsubprocess.Popen('ls -l', shell=True)  # nosec B602\nsubprocess.call('ls *', shell=True)  # nosec B607\nassert y  # nosec B101, B602\n",
        "third.py": "import subprocess, pickle\nsubprocess.Popen('ps', shell=True)  # nosec B607\npickle.loads(z)  # nosec B602\n",
        # data-flow helpers of a check walking with/def/loop blocks: one file assigns a request value inside such a block, the
        # next has only a literal in the same shape
        "flow_a.py": "from django.utils.safestring import mark_safe\ndef zz_f(zz_r):\n    with zz_o:\n        zz_v = zz_r.GET['q']\n    def zz_in():\n        zz_w = zz_r.GET['w']\n"
                     "    return mark_safe(zz_v)\n",
        "flow_b.py": "from django.utils.safestring import mark_safe\ndef zz_g():\n    zz_v = 'lit'\n    with zz_o:\n        pass\n    def zz_in():\n        pass\n    return mark_safe(zz_v)\n",
        # a file only an older grammar accepts (skipped), then files using syntax of 3.8 and later
        "gram_a.py": "async = 1\nawait = 2\nassert async\n",
        "gram_b.py": "if (zz_n := 10) > 5:\n    assert zz_n\ndef zz_p(zz_a, /, zz_b):\n    exec(zz_a)\nmatch zz_n:\n    case 1:\n        assert zz_n\n",
    }
    fresh = {}
    for fn, src in corpus.items():
        open(os.path.join(d, fn), "w").write(src)
        env = dict(os.environ, PYTHONPATH=core.REPO, PYTHONHASHSEED="0")
        p = subprocess.run([core.PY, "-m", "bandit", "-q", "-f", "json", fn], cwd=d, env=env, capture_output=True)
        try:
            j = json.loads(p.stdout.decode())
            fresh[fn] = (sorted((x["test_id"], x["line_number"]) for x in j["results"]),
                         j["metrics"]["_totals"]["nosec"], j["metrics"]["_totals"]["skipped_tests"])
        except Exception:
            R.violations.append({"what": "no JSON report from a fresh process for %s" % fn, "input": src, "observed": p.stderr.decode()[-300:], "signature": None})
            return
    for order in (["helper.py", "service.py", "third.py"], ["third.py", "helper.py", "service.py"], ["service.py", "third.py", "helper.py"],
                  ["flow_a.py", "flow_b.py", "gram_a.py", "gram_b.py"], ["gram_a.py", "gram_b.py", "flow_a.py", "flow_b.py", "flow_a.py", "flow_b.py"]):
        for fn in order:
            m = impl.make_manager()
            m.files_list = [os.path.join(d, fn)]
            m.run_tests()
            blk = m.metrics.data["_totals"]
            got = (sorted((i.test_id, i.lineno) for i in m.results), blk["nosec"], blk["skipped_tests"])
            R.case(("fresh-vs-history", tuple(order), fn), nontrivial=True, sample={"order": order, "file": fn, "findings": got[0]})
            R.count("fresh-vs-history")
            if got != fresh[fn]:
                R.violations.append({"what": "%s scanned after %s in one process differs from a fresh process scanning it alone" % (fn, order[:order.index(fn)] or "nothing (but after earlier rounds)"),
                                     "input": {"files": corpus, "order": order}, "observed": {"in_process": got, "fresh": fresh[fn]}, "signature": None})


def file_sets(R, rng, tier):
    ex = sorted(glob.glob(os.path.join(core.REPO, "examples", "*.py")))
    n = 12 if tier == "quick" else 120
    alone = {}
    for _ in range(n):
        group = rng.sample(ex, rng.randint(2, 5))
        for f in group:
            if f not in alone:
                m = impl.make_manager()
                m.files_list = [f]
                m.run_tests()
                alone[f] = [key(impl.issue_dict(i)) for i in m.results]
        rng.shuffle(group)
        m = impl.make_manager()
        m.files_list = list(group)
        m.run_tests()
        res = [impl.issue_dict(i) for i in m.results]
        R.case(("files", tuple(group)), sample={"files": [os.path.basename(f) for f in group], "findings": len(res)})
        R.count("file-sets")
        for f in group:
            got = [key(r) for r in res if r["fname"] == f]
            if got != alone[f]:
                R.violations.append({"what": "a file's findings depend on which other files are scanned with it",
                                     "input": {"files": group, "file": f}, "observed": {"together": got[:5], "alone": alone[f][:5]}, "signature": None})


def seeds(R, rng, tier):
    d = os.path.join(impl.scratch(), "c08s")
    os.makedirs(os.path.join(d, "pkg", "sub"), exist_ok=True)
    ex = sorted(glob.glob(os.path.join(core.REPO, "examples", "*.py")))
    if tier == "quick":
        # examples/long_set.py costs 7 s per scan and this scenario scans the directory ~50 times; the thorough tier keeps it
        ex = [f for f in ex if os.path.getsize(f) < 20000]
    for i, f in enumerate(rng.sample(ex, 10 if tier == "quick" else 40)):
        tgt = os.path.join(d, "pkg", "sub" if i % 2 else "", os.path.basename(f))
        open(tgt, "wb").write(open(f, "rb").read())
    # nodes on which several checks fire at once: their relative order in the report is the order of the test set
    open(os.path.join(d, "pkg", "zz_multi.py"), "w").write(
        "import subprocess, requests, hashlib, os, yaml, pickle\n"
        "subprocess.Popen('ls -l', shell=True)\nsubprocess.call('ls *', shell=True)\nrequests.get(zz_u, verify=False)\n"
        "os.system('chmod 777 *')\nos.popen('tar cf x *')\nsubprocess.Popen(['ls'], shell=False)\n"
        "zz_f('/tmp/zz', password='0.0.0.0')\nos.chmod('/tmp/zz', 0o777)\nhashlib.new('md5', password='x')\n")
    tx = os.path.join(core.REPO, "examples", "tarfile_extractall.py")
    if os.path.exists(tx):
        open(os.path.join(d, "pkg", "zz_tarfile_extractall.py"), "wb").write(open(tx, "rb").read())
    fmts = ["json", "yaml", "csv", "xml", "sarif"]
    seeds_ = ["0", "1", "2", "3", "4"] if tier == "quick" else ["0", "1", "2", "3", "4", "5", "6", "7", "8", "9", "10", "11"]
    runs = [(fmt, []) for fmt in fmts] + [("json", ["-t", "B602,B603,B607,B609,B501,B113,B605,B103,B108,B106,B324"]),
                                          ("json", ["-s", "B101,B404"]), ("csv", ["-t", "B607,B602,B113,B501"]),
                                          # one file reached under two spellings (explicitly and by the walk), a file given twice
                                          ("json", ["pkg/zz_multi.py"]), ("csv", ["./pkg/zz_multi.py", "pkg/zz_multi.py"]), ("yaml", ["pkg/sub"])]
    for fmt, sel in runs:
        outs = {}
        for s in seeds_:
            env = dict(os.environ, PYTHONPATH=core.REPO, PYTHONHASHSEED=s)
            p = subprocess.run([core.PY, "-m", "bandit", "-q", "-r", "-f", fmt] + sel + ["pkg"], cwd=d, env=env, capture_output=True)
            text = p.stdout.decode("utf-8", "replace")
            text = re.sub(r'"generated_at": "[^"]*"|generated_at: [^\n]*|"endTimeUtc": "[^"]*"|timestamp="[^"]*"', "", text)
            outs[s] = (p.returncode, text)
            R.case(("seed", fmt, s), sample={"format": fmt, "hash_seed": s, "bytes": len(text), "exit": p.returncode})
            R.count("seed:" + fmt)
        # object addresses printed into a message (the known finding) are compared separately from everything else
        canon = {s_: (rc_, impl._ADDR.sub("<AST-OBJECT>", t_)) for s_, (rc_, t_) in outs.items()}
        if all(canon[s_] == canon[seeds_[0]] for s_ in seeds_) and any(outs[s_] != outs[seeds_[0]] for s_ in seeds_):
            R.violations.append({"what": "%s reports of two runs over the same inputs differ only in object addresses embedded in a message" % fmt,
                                 "input": {"format": fmt, "options": sel}, "observed": None, "signature": "message-embeds-object-address"})
        outs = canon
        base = outs[seeds_[0]]
        for s in seeds_[1:]:
            if outs[s] != base:
                a, b = base[1], outs[s][1]
                i = next((k for k in range(min(len(a), len(b))) if a[k] != b[k]), min(len(a), len(b)))
                ctx = a[max(0, i - 120):i + 120]
                sig = "message-embeds-object-address" if re.search(r"object at 0x", ctx) else None
                R.violations.append({"what": "%s reports of two runs over the same inputs differ (hash seeds %s and %s, options %s)" % (fmt, seeds_[0], s, sel),
                                     "input": {"format": fmt, "options": sel, "seeds": [seeds_[0], s]}, "observed": {"first_difference_near": ctx}, "signature": sig})
                break


def run(R, replay=None):
    rng = random.Random(R.seed)
    for f in core.gen():
        R.broken.append({"what": "translator failed: " + f["translator"], "log": f["stderr"]})
    R.proof = core.prove(PROP_FILES, DEPS)
    for f in R.proof["failed"]:
        R.broken.append({"what": "proof obligation no longer checks: %s (%s) %s" % (f["file"], f["why"], f.get("theorem") or ""),
                         "log": f.get("log", "")})
    R.rule = ("(1) histories: 2-4 scanner objects over 3 configurations x 4 selections constructed in one process and run in a shuffled "
              "order, each compared with the same scanner constructed and run alone; (2) random groups and orders of example files "
              "scanned together vs alone; (3) whole-directory runs in subprocesses under different hash seeds, machine-readable reports "
              "compared byte for byte apart from the timestamp; non-trivial = histories with at least two different scanners, all others"
              "; scanners with different non-empty settings of the same plugin used one after the other, judged by their own settings")
    history(R, rng, R.tier)
    sequences(R, rng, R.tier)
    rescans(R, rng, R.tier)
    fresh_vs_history(R, rng, R.tier)
    file_sets(R, rng, R.tier)
    seeds(R, rng, R.tier)
    R.disagreements_checked = R.evaluations
