"""C05 - selecting tests filters findings and never changes them."""
import glob
import itertools
import os
import random

import climain
import core
import coqlit as L
import impl

PROP_FILES = ["theories/Props/C05.v", "theories/Inst/C05_inst.v"]
DEPS = ["theories/Proofs/C05_proofs.vo", "theories/Plugins/All.vo", "theories/Gen/Registry.vo", "theories/Gen/Blacklists.vo"]

SORT_DEFS = """Fixpoint pstr_leb (a b : pstr) : bool := match a, b with [] , _ => true | _ :: _, [] => false | x :: a', y :: b' => if N.ltb x y then true else if N.ltb y x then false else pstr_leb a' b' end.
Fixpoint ins (x : pstr) (l : list pstr) : list pstr := match l with [] => [x] | y :: t => if pstr_leb x y then (if pstr_eqb x y then l else x :: l) else y :: ins x t end.
Definition sortp (l : list pstr) := fold_right ins [] l.
Definition seteq (a b : list pstr) := list_eqb pstr_eqb (sortp a) (sortp b).
"""

EXTRA_PROGS = [
    "import telnetlib, ftplib\n", "import pickle, subprocess\npickle.loads(x)\n", "from xml.etree import cElementTree, ElementTree\n",
    "import os\nos.system('ls')\nassert x\nexec(y)\npassword = 'x'\n",
    "import subprocess\nsubprocess.Popen('ls', shell=True)\nsubprocess.call(['ls'])\n",
    "import hashlib\nhashlib.md5()\nimport random\nrandom.random()\n",
    "try:\n    import yaml\nexcept ImportError:\n    pass\nyaml.load(f)\n",
    # nosec comments naming IDs next to other findings of the same statement; calls configured through shell_injection
    "import subprocess\nsubprocess.Popen('ls -l', shell=True)  # nosec B602\nsubprocess.run('ls *', shell=True)  # nosec B609, B607\nassert x  # nosec B101\n"
    "subprocess.run(['ls'])\nmyspawn('ls', shell=True)\nexec(y)  # nosec B999\n",
    # every list of the shared shell_injection section is in play in one file (a check that touched the shared lists would
    # change what the other checks of the family report)
    "import os, subprocess\nsubprocess.call(['ls', '-l'])\nos.system('ls -l')\nos.execl('/bin/ls', 'ls')\nos.popen('ls')\nos.spawnl(0, 'ls')\n"
    "subprocess.Popen(['ls'], shell=False)\nos.execvp('ls', ['ls'])\nmyspawn(['ls'])\nopen('/tmp/zz_f')\n",
    # findings of other checks inside the starred arguments B703 unpacks
    "from django.utils.safestring import mark_safe\nmark_safe('{} {}'.format(*[eval(zz_a), '/tmp/zz_x']))\nmark_safe('%s %s' % (*[exec(zz_b), '0.0.0.0'],))\n"
    "zz_v = '{}'.format(*[zz_f('/var/tmp/zz_y')])\nmark_safe(zz_v)\n",
    "import os, subprocess\nos.system('chmod 777 *')\nos.popen('tar cf zz.tar *')\nsubprocess.Popen('rsync -a * zz:', shell=True)\nos.system('ls')\n",
]
# user configurations under which the same law must hold (the configuration is the same in both runs)
CONFIGS = [None,
           {"shell_injection": {"subprocess": ["subprocess.Popen", "subprocess.call", "myspawn"], "shell": ["os.system"], "no_shell": ["os.execl"]}},
           {"hardcoded_tmp_directory": {"tmp_dirs": ["/var/data"]}, "try_except_pass": {"check_typed_exception": True}},
           # partial blocks: whatever a check makes of a missing list, it makes the same of it under every selection
           {"shell_injection": {"shell": ["os.system", "os.popen"]}},
           {"shell_injection": {"subprocess": ["subprocess.Popen", "subprocess.call"]}}]


def spec_filter(all_ids, bl_ids, inc, exc):
    def expand(s):
        s = set(s)
        if "B001" in s:
            if not (s & bl_ids):
                s |= bl_ids
            s.discard("B001")
        return s
    i, e = expand(inc), expand(exc)
    return (i if i else set(all_ids)) - e


def run(R, replay=None):
    rng = random.Random(R.seed)
    for f in core.gen():
        R.broken.append({"what": "translator failed: " + f["translator"], "log": f["stderr"]})
    R.proof = core.prove(PROP_FILES, DEPS)
    for f in R.proof["failed"]:
        R.broken.append({"what": "proof obligation no longer checks: %s (%s) %s" % (f["file"], f["why"], f.get("theorem") or ""),
                         "log": f.get("log", "")})
    from bandit.core import extension_loader as el
    from bandit.core import test_set as ts
    from bandit.core import config as bc
    man = el.MANAGER
    plugin_ids = [p.plugin._test_id for p in man.plugins]
    bl_ids = set()
    for rules in man.blacklist.values():
        bl_ids |= {r["id"] for r in rules}
    all_ids = set(plugin_ids) | {"B001"} | bl_ids
    R.rule = ("(1) _get_filter over every (include, exclude) pair of subsets of a 6-element universe {B001, two blacklist ids, two "
              "plugin ids, an unknown id} - exhaustive - against the model and the filter algebra; (2) programs x random selections "
              "(plugin ids, blacklist ids, B001, complements): findings under the selection vs the selected findings of the "
              "unrestricted run; (3) contradictory selections must be rejected; non-trivial = the selection is not the default"
              "; every hand-written program under every user configuration incl. partial shared blocks; one import statement per name of every import rule with every id targeted")
    # ---- (1) exhaustive small universe
    U = ["B001", "B301", "B401", "B101", "B602", "B999"]
    subsets = [list(c) for k in range(len(U) + 1) for c in itertools.combinations(U, k)]
    conf = bc.BanditConfig()
    cases, descr = [], []
    pairs = list(itertools.product(subsets, subsets))
    if R.tier == "quick":
        pairs = rng.sample(pairs, 1200)
    for inc, exc in pairs:
        got = ts.BanditTestSet._get_filter(conf, {"include": list(inc), "exclude": list(exc)})
        want = spec_filter(all_ids, bl_ids, inc, exc)
        R.case(("filter", tuple(inc), tuple(exc)), nontrivial=bool(inc or exc), sample={"include": inc, "exclude": exc, "size": len(got)})
        R.count("filter")
        if set(got) != want:
            R.violations.append({"what": "_get_filter(include=%s, exclude=%s) is not (include' or everything) minus exclude'" % (inc, exc),
                                 "input": {"include": inc, "exclude": exc}, "observed": sorted(set(got) ^ want), "signature": None})
        cases.append(("(%s, %s)" % (L.lst([L.pstr(x) for x in inc], "pstr"), L.lst([L.pstr(x) for x in exc], "pstr")),
                      L.lst([L.pstr(x) for x in sorted(got)], "pstr")))
        descr.append((inc, exc))
    if len(pairs) == len(subsets) ** 2:
        R.exhaustive = True
    imports = "From Bandit Require Import Manager.Registry Manager.TestSet Gen.Registry Gen.Blacklists.\n"
    extra = SORT_DEFS + ("Definition bl_ids := map fst (dedup_rows (blacklist_rows blacklist)).\n"
                         "Definition pl_ids := map r_id registry.\n")
    mm, br = core.unit_corr(imports, "fun x => get_filter pl_ids builtin_ids bl_ids (fst x) (snd x)", "list pstr * list pstr",
                            "list pstr", "seteq", cases, extra_defs=extra, label="c05f", shard=600)
    R.broken.extend(br)
    for i, tail in mm[:10]:
        R.broken.append({"what": "correspondence: _get_filter differs from the TestSet model", "input": descr[i],
                         "implementation": cases[i][1][:300], "model_output_excerpt": tail[:500]})
    # ---- (2) selections on programs
    ex = sorted(glob.glob(os.path.join(core.REPO, "examples", "*.py")))
    files = rng.sample(ex, 6 if R.tier == "quick" else 40)
    progs = [open(f, "rb").read() for f in files] + [s.encode() for s in EXTRA_PROGS]
    n_sel = 8 if R.tier == "quick" else 40
    # one statement per name of every import rule (a name two rules claim would be reported under one of them only)
    try:
        from bandit.core import extension_loader as _el
        imp_names = sorted({q for b in _el.MANAGER.blacklist.get("Import", []) for q in b["qualnames"]})
    except Exception:  # noqa: BLE001
        imp_names = []
    per_rule = []
    for q in imp_names:
        per_rule.append("import %s\n" % q if "." not in q else "from %s import %s\n" % tuple(q.rsplit(".", 1)))
    ALL_IDS_PROGS = [("".join(per_rule[i:i + 25])).encode() for i in range(0, len(per_rule), 25)]
    progs += ALL_IDS_PROGS
    pool = sorted(all_ids)
    key = lambda r: (r["test_id"], r["test"], r["sev"], r["conf"], r["cwe"], r["text"], r["lineno"], tuple(r["linerange"]), r["col"], r["ecol"])
    import yaml
    cfg_files = []
    for ci, cfg in enumerate(CONFIGS):
        if cfg is None:
            cfg_files.append(None)
        else:
            cf = os.path.join(impl.scratch(), "c05cfg%d.yaml" % ci)
            yaml.safe_dump(cfg, open(cf, "w"))
            cfg_files.append(cf)
    # examples under the default configuration; every hand-written program under every configuration
    jobs = [(d_, None) for d_ in progs[:len(files)]] + [(d_, c_) for d_ in progs[len(files):] for c_ in cfg_files]
    for pi, (data, cfg_file) in enumerate(jobs):
        full = impl.scan_bytes(data, config_file=cfg_file)
        if full["skipped"]:
            continue
        present = sorted({r["test_id"] for r in full["results"]} | {"B402", "B404"})
        targeted = [("include", [i], []) for i in present[:4]] + [("exclude", [], [i]) for i in present[:4]]
        if data in ALL_IDS_PROGS:
            every = sorted(bl_ids & {x for x in all_ids if x.startswith("B4")})
            targeted = [("include", [i], []) for i in every] + [("exclude", [], [i]) for i in present]
        import re as _re
        named = sorted(set(_re.findall(r"\bB\d{3}\b", " ".join(_re.findall(rb"#\s*nosec([^\n]*)", data)[0:8] and [x.decode("latin-1") for x in _re.findall(rb"#\s*nosec([^\n]*)", data)]))))
        if named:
            targeted += [("exclude", [], [i]) for i in named[:3]] + [("exclude", [], named)]
        for k in range(n_sel + len(targeted)):
            if k < len(targeted):
                mode, inc, exc = targeted[k]
            else:
                mode = rng.choice(["include", "exclude", "both"])
                inc = rng.sample(pool, rng.randint(1, 6)) if mode in ("include", "both") else []
                exc = [x for x in rng.sample(pool, rng.randint(1, 6)) if x not in inc] if mode in ("exclude", "both") else []
            sel = spec_filter(all_ids, bl_ids, inc, exc)
            try:
                o = impl.scan_bytes(data, include=inc, exclude=exc, config_file=cfg_file)
            except Exception as e:
                R.violations.append({"what": "scan under a selection raised %r" % e, "input": {"include": inc, "exclude": exc}, "observed": None, "signature": None})
                continue
            want = [key(r) for r in full["results"] if r["test_id"] in sel]
            got = [key(r) for r in o["results"]]
            R.case(("sel", data[:80], tuple(inc), tuple(exc)), nontrivial=True,
                   sample={"include": inc, "exclude": exc, "reported": [(r["test_id"], r["lineno"]) for r in o["results"]][:6]})
            R.count("selection:" + mode)
            if got != want:
                extra_f = [g for g in got if g not in want]
                sig = None
                if extra_f and all(g[1] == "blacklist" for g in extra_f) and not [w for w in want if w not in got]:
                    # the known finding is about one node holding several names (import a, b): one name that two rules claim
                    # is something else
                    import ast as _ast
                    try:
                        multi = {n_.lineno for n_ in _ast.walk(_ast.parse(data)) if isinstance(n_, (_ast.Import, _ast.ImportFrom)) and len(n_.names) > 1}
                    except SyntaxError:
                        multi = set()
                    if all(g[6] in multi for g in extra_f):
                        sig = "blacklist-one-finding-per-node"
                R.violations.append({"what": "findings under the selection differ from the selected findings of the unrestricted run",
                                     "input": {"program": data.decode("utf-8", "replace")[:400], "include": inc, "exclude": exc, "config": cfg_file and open(cfg_file).read()},
                                     "observed": {"extra": [(g[0], g[6]) for g in got if g not in want][:5],
                                                  "missing": [(w[0], w[6]) for w in want if w not in got][:5]}, "signature": sig})
    # ---- (3) contradictory selections are rejected
    d = impl.scratch()
    tgt = os.path.join(d, "c.py")
    open(tgt, "w").write("x = 1\n")
    for argv, how in ((["-t", "B101", "-s", "B101", tgt], "cli"), (["-t", "B101,B602", "-s", "B602", tgt], "cli-partial")):
        r = climain.run_main(argv)
        R.case(("conflict", how), sample={"argv": argv[:-1], "exit": r["exit"]})
        if r["exception"] or r["exit"] != 2:
            R.violations.append({"what": "a test ID both included and excluded (%s) is not rejected with exit status 2" % how,
                                 "input": argv[:-1], "observed": r["exception"] or r["exit"], "signature": None})
    cfg = os.path.join(d, "c.yaml")
    open(cfg, "w").write("tests: [B101]\nskips: [B101]\n")
    r = climain.run_main(["-c", cfg, tgt])
    R.case(("conflict", "yaml"), sample={"config": "tests: [B101] skips: [B101]", "exit": r["exit"]})
    if r["exception"] or r["exit"] != 2:
        R.violations.append({"what": "a test ID both in tests and skips of the YAML config is not rejected with exit status 2",
                             "input": "tests: [B101]\nskips: [B101]", "observed": r["exception"] or r["exit"], "signature": None})
    # ---- (4) the same selection as a named profile of a config file and through -t/-s
    import json
    import yaml
    prog = os.path.join(d, "sel.py")
    open(prog, "w").write("import pickle, subprocess\nimport telnetlib\npickle.loads(x)\nsubprocess.Popen(c, shell=True)\nassert x\nexec(y)\n"
                          "import hashlib\nhashlib.md5(z)\n")
    res = lambda r: None if r["exception"] or not r["stdout"].strip().startswith("{") else sorted(
        (x["test_id"], x["line_number"]) for x in json.loads(r["stdout"])["results"])
    sels = [(["B101", "B301"], []), (["B001", "B101"], []), ([], ["B101"]), ([], ["B001"]), (["B403", "B602"], []), ([], ["B404", "B602"]),
            (["B001"], ["B404"]), (["B324", "B401"], ["B101"])]
    for inc, exc in sels:
        prof = {}
        if inc:
            prof["include"] = inc
        if exc:
            prof["exclude"] = exc
        cf = os.path.join(d, "prof.yaml")
        yaml.safe_dump({"profiles": {"mine": prof}}, open(cf, "w"))
        a = climain.run_main(["-q", "-f", "json", "-c", cf, "-p", "mine", prog])
        b = climain.run_main(["-q", "-f", "json"] + (["-t", ",".join(inc)] if inc else []) + (["-s", ",".join(exc)] if exc else []) + [prog])
        R.case(("profile", tuple(inc), tuple(exc)), nontrivial=True, sample={"include": inc, "exclude": exc, "profile": res(a), "cli": res(b)})
        R.count("selection:profile")
        # the same file also carries top-level tests/skips lists: with -p the named profile is the selection
        other = [x for x in ("B110", "B101", "B602") if x not in inc][:1]
        yaml.safe_dump({"profiles": {"mine": prof}, "tests": other, "skips": (inc[:1] if len(inc) > 1 else [])}, open(cf, "w"))
        a2 = climain.run_main(["-q", "-f", "json", "-c", cf, "-p", "mine", prog])
        if a2["exception"] or res(a2) != res(b):
            R.violations.append({"what": "profile include=%s exclude=%s selected with -p from a file that also has top-level tests=%s skips=%s gives other findings than -t/-s" % (
                inc, exc, other, inc[:1] if len(inc) > 1 else []), "input": {"include": inc, "exclude": exc, "config": open(cf).read()},
                "observed": {"profile": res(a2), "cli": res(b), "exc": a2["exception"]}, "signature": None})
        if a["exception"] or b["exception"] or res(a) != res(b):
            R.violations.append({"what": "the selection include=%s exclude=%s gives other findings as a config profile than through -t/-s" % (inc, exc),
                                 "input": {"include": inc, "exclude": exc}, "observed": {"profile": res(a), "cli": res(b), "exc": a["exception"] or b["exception"]},
                                 "signature": None})
    R.disagreements_checked = len(cases)
