"""C16 - hard-coded secret, temp-path, bind-all, permission checks match their patterns."""
import family
import scancorr
from oracles import c16

PROP_FILES = ["theories/Props/C16.v", "theories/Inst/C16_inst.v"]
DEPS = ["theories/Proofs/Secrets_proofs.vo", "theories/Plugins/All.vo", "theories/Gen/Registry.vo", "theories/Gen/Regexes.vo",
        "theories/Gen/Blacklists.vo", "theories/Gen/Constants.vo"]


def run(R, replay=None):
    R.rule = ("programs from tools/gen/fam_secrets.py: identifiers from a grammar around the documented pattern x the five "
              "syntactic positions x value kinds, docstrings, temp-dir strings x configurations, '0.0.0.0' placements, chmod "
              "calls over the 12-bit modes (all 4096 in the thorough tier) x spellings; scanned by the real bandit and by the "
              "Gallina plugin models; the statement is evaluated independently on each program's AST; non-trivial = at "
              "least one finding or internal error")
    family.run_family(R, PROP_FILES, DEPS, ["gen.fam_secrets"], c16.oracle, "secrets family", max_quick=2500, eq=scancorr.FINDINGS_AND_ERRORS)
