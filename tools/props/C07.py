"""C07 - a baseline withholds only what it accounts for."""
import itertools
import json
import os
import random
import re

import climain
import core
import coqlit as L
import impl

PROP_FILES = ["theories/Props/C07.v", "theories/Inst/C07_inst.v"]
DEPS = ["theories/Proofs/C07_proofs.vo", "theories/Gen/IssueFields.vo", "theories/Gen/Registry.vo"]

STMTS = {"A": "assert zz_a\n", "E": "exec(zz_e)\n", "P": "zz_password = 'x'\n", "Q": "zz_password = 'é\"<y>'\n"}


BASE_ID = {"fname": "f1.py", "test_id": "B101", "test": "t_B101", "text": "text-B101", "severity": "LOW", "confidence": "HIGH", "cwe": 703}
# one identity per field of Issue.__eq__ that differs from the base identity in exactly that field (plus a second file/test pair)
IDENTS = [{}, {"test_id": "B102"}, {"fname": "f2.py"}, {"confidence": "MEDIUM"}, {"severity": "MEDIUM"}, {"text": "text-other"},
          {"cwe": 78}, {"test": "t_other"}]


def ident_key(ident):
    d = dict(BASE_ID, **ident)
    return tuple(d[k] for k in sorted(d))


def mk_issue(ident, lineno):
    from bandit.core import issue
    d = dict(BASE_ID, **ident)
    i = issue.Issue(severity=d["severity"], confidence=d["confidence"], text=d["text"], test_id=d["test_id"], lineno=lineno, cwe=d["cwe"])
    i.fname = d["fname"]
    i.test = d["test"]
    i.linerange = [lineno]
    i.col_offset = lineno % 7
    return i


def bissue_coq(i):
    return "(%s, %s)" % (L.pstr(i.fname), "(Finding %s %s %s %s %s %s %s %s %s %s)" % (
        L.pstr(i.test_id), L.pstr(i.test), i.severity, i.confidence, L.Z(i.cwe.id), L.pstr(i.text), L.Z(i.lineno),
        L.lst([L.Z(x) for x in i.linerange], "Z"), L.Z(i.col_offset), L.Z(i.end_col_offset)))


def unit(R, rng, tier):
    from bandit.core import manager as bman
    idents = IDENTS
    multisets = []
    for n in range(0, 4 if tier == "quick" else 4):
        for c in itertools.combinations_with_replacement(range(len(idents)), n):
            multisets.append(c)
    pairs = list(itertools.product(multisets, multisets))
    if tier == "quick":
        pairs = rng.sample(pairs, 300)
    else:
        pairs = rng.sample(pairs, 12000)
    # directed: a baseline entry that differs from the finding in exactly one identity field accounts for nothing
    for i in range(len(idents)):
        for j in range(len(idents)):
            if i != j:
                pairs.append(((i,), (j,)))
                pairs.append(((i,), (i, j)))
    cases, descr = [], []
    for base_ms, cur_ms in pairs:
        base = [mk_issue(idents[k], 100 + j) for j, k in enumerate(base_ms)]
        order = list(cur_ms)
        rng.shuffle(order)
        cur = [mk_issue(idents[k], 1 + j) for j, k in enumerate(order)]
        un = bman._compare_baseline_results(base, cur)
        cand = bman._find_candidate_matches(un, cur)
        inp = {"baseline": [dict(BASE_ID, **idents[k]) for k in base_ms], "current": [dict(BASE_ID, **idents[k]) for k in order]}
        R.case(("unit", base_ms, tuple(order)), nontrivial=bool(base_ms) and bool(cur_ms),
               sample=dict(inp, unmatched=[(u.fname, u.test_id, u.lineno) for u in un]))
        R.count("unit")
        # statement: per identity, reported iff it occurs more often now than in the baseline, with all occurrences as candidates
        for k, ident in enumerate(idents):
            nb, nc = base_ms.count(k), order.count(k)
            rep = [u for u in un if ident_key({"fname": u.fname, "test_id": u.test_id, "test": u.test, "text": u.text, "severity": u.severity,
                                                 "confidence": u.confidence, "cwe": u.cwe.id}) == ident_key(ident)]
            if (nc > nb) != bool(rep):
                R.violations.append({"what": "identity %s occurs %d times in the baseline and %d times now but is %s" % (
                    dict(BASE_ID, **ident), nb, nc, "reported" if rep else "withheld"), "input": inp,
                    "observed": [(u.fname, u.test_id) for u in un], "signature": None})
            for u in rep:
                if len(cand[u]) != nc:
                    R.violations.append({"what": "identity %s is reported with %d candidates, it has %d occurrences" % (dict(BASE_ID, **ident), len(cand[u]), nc),
                                         "input": inp, "observed": len(cand[u]), "signature": None})
        cases.append(("(%s, %s)" % (L.lst([bissue_coq(i) for i in base], "bissue"), L.lst([bissue_coq(i) for i in cur], "bissue")),
                      L.lst(["(%s, %s)" % (bissue_coq(u), L.lst([bissue_coq(c) for c in cand[u]], "bissue")) for u in un], "bissue * list bissue")))
        descr.append(inp)
    imports = "From Bandit Require Import Manager.BaselineFilter Gen.IssueFields.\n"
    extra = ("Definition beq (a b : bissue) := pstr_eqb (fst a) (fst b) && finding_eqb (snd a) (snd b).\n"
             "Definition ceq (a b : list (bissue * list bissue)) := list_eqb (fun x y => beq (fst x) (fst y) && list_eqb beq (snd x) (snd y)) a b.\n")
    mm, br = core.unit_corr(imports, "fun x => find_candidates (issue_eqb_on MATCH_TYPES) (compare_baseline (issue_eqb_on MATCH_TYPES) (fst x) (snd x)) (snd x)",
                            "list bissue * list bissue", "list (bissue * list bissue)", "ceq", cases, extra_defs=extra, label="c07u", shard=300)
    R.broken.extend(br)
    for i, tail in mm[:10]:
        R.broken.append({"what": "correspondence: _compare_baseline_results/_find_candidate_matches differ from the BaselineFilter model",
                         "input": descr[i], "implementation": cases[i][1][:300], "model_output_excerpt": tail[:500]})


def program(spec):
    """spec: list of statement keys -> source"""
    return "".join(STMTS[k] for k in spec)


def system(R, rng, tier):
    d = os.path.join(impl.scratch(), "c07")
    os.makedirs(d, exist_ok=True)
    n = 25 if tier == "quick" else 300
    keys = sorted(STMTS)
    for it in range(n):
        before = [rng.choice(keys) for _ in range(rng.randint(0, 4))]
        edit = rng.choice(["none", "add", "remove", "duplicate", "move", "blank-lines", "add-new"])
        after = list(before)
        if edit == "add":
            after.insert(rng.randint(0, len(after)), rng.choice(keys))
        elif edit == "add-new":
            new = [k for k in keys if k not in before]
            if new:
                after.append(rng.choice(new))
        elif edit == "remove" and after:
            after.pop(rng.randrange(len(after)))
        elif edit == "duplicate" and after:
            after.append(rng.choice(after))
        elif edit == "move":
            rng.shuffle(after)
        src_before = program(before)
        src_after = program(after)
        if edit == "blank-lines":
            src_after = "\n# moved\n\n" + src_after
        f = os.path.join(d, "p%d.py" % it)
        basef = os.path.join(d, "base%d.json" % it)
        open(f, "w").write(src_before)
        r0 = climain.run_main(["-q", "-f", "json", "-o", basef, f])
        open(f, "w").write(src_after)
        fmt = rng.choice(["json", "json", "txt", "html", "custom"])
        sev = rng.choice([[], ["-l"], ["-ll"]])
        r = climain.run_main(["-q", "-b", basef, "-f", "json"] + sev + [f])
        inp = {"before": before, "after": after, "edit": edit, "argv_levels": sev}
        R.case(("sys", tuple(before), tuple(after), edit, tuple(sev)), nontrivial=bool(before),
               sample=dict(inp, exit=r["exit"]))
        R.count("edit:" + edit)
        if r["exception"]:
            R.violations.append({"what": "scan with baseline ends in a traceback (%s)" % r["exception"], "input": inp,
                                 "observed": (r["traceback"] or "")[-400:], "signature": None})
            continue
        try:
            rep = json.loads(r["stdout"])["results"]
        except Exception:
            R.violations.append({"what": "no JSON report with a baseline", "input": inp, "observed": r["stdout"][:200], "signature": None})
            continue
        # which identities must be reported: those occurring more often after than before (all rank LOW+ here)
        tid = {"A": "B101", "E": "B102", "P": "B105", "Q": "B105"}
        text = {"P": "x", "Q": "é\"<y>"}
        def ident(k):
            return (tid[k], text.get(k, ""))
        want = set()
        for k in set(after):
            if [ident(x) for x in after].count(ident(k)) > [ident(x) for x in before].count(ident(k)):
                want.add(ident(k))
        if sev == ["-ll"]:
            want = {w for w in want if w[0] in ("B102",)}     # only MEDIUM+ survive the threshold
        got = set()
        for x in rep:
            t = x["test_id"]
            got.add((t, x["issue_text"].split("'", 1)[1].rsplit("'", 1)[0] if t == "B105" else ""))
        if got != want:
            R.violations.append({"what": "with a baseline, reported identities %s differ from those that occur more often now %s" % (sorted(got), sorted(want)),
                                 "input": inp, "observed": [(x["test_id"], x["line_number"]) for x in rep], "signature": None})
        if (r["exit"] == 1) != bool(want):
            R.violations.append({"what": "exit status %s with a baseline although %s" % (r["exit"], "new findings exist" if want else "nothing new is found"),
                                 "input": inp, "observed": r["exit"], "signature": None})
        # other baseline-capable formats must produce a report as well
        if fmt != "json":
            r2 = climain.run_main(["-q", "-b", basef, "-f", fmt] + sev + [f])
            if r2["exception"] or r2["exit"] != r["exit"]:
                R.violations.append({"what": "format %s with a baseline: %s" % (fmt, r2["exception"] or ("exit %s vs %s" % (r2["exit"], r["exit"]))),
                                     "input": inp, "observed": (r2["traceback"] or "")[-300:], "signature": None})


def system_multi(R, rng, tier):
    """Several files, baseline written under either aggregation mode; unchanged code reports nothing; a duplicated finding
    is reported with the location of every occurrence in the human-readable formats too."""
    import shutil
    d = os.path.join(impl.scratch(), "c07m")
    n = 8 if tier == "quick" else 80
    keys = sorted(STMTS)
    for it in range(n):
        shutil.rmtree(d, ignore_errors=True)
        os.makedirs(d)
        contents = {"a.py": [rng.choice(keys) for _ in range(rng.randint(1, 3))], "b.py": [rng.choice(keys) for _ in range(rng.randint(1, 3))],
                    "c.py": [rng.choice(keys) for _ in range(rng.randint(0, 2))]}
        for fn, ks in contents.items():
            open(os.path.join(d, fn), "w").write(program(ks))
        agg = rng.choice(["vuln", "file"])
        basef = os.path.join(d, "base.json")
        climain.run_main(["-q", "-r", "-f", "json", "-a", agg, "-o", basef, "."], cwd=d)
        os.rename(basef, os.path.join(impl.scratch(), "c07m_base.json"))
        basef = os.path.join(impl.scratch(), "c07m_base.json")
        dup = rng.choice([None, "a.py", "b.py"])
        if dup:
            k = rng.choice(contents[dup])
            contents[dup] = contents[dup] + [k]
            open(os.path.join(d, dup), "w").write(program(contents[dup]))
        r = climain.run_main(["-q", "-r", "-b", basef, "-f", "json", "."], cwd=d)
        inp = {"files": contents, "baseline_aggregation": agg, "duplicated_in": dup}
        R.case(("multi", it), nontrivial=True, sample=dict(inp, exit=r["exit"]))
        R.count("multi:" + agg)
        if r["exception"]:
            R.violations.append({"what": "scan of several files with a baseline ends in a traceback (%s)" % r["exception"], "input": inp,
                                 "observed": (r["traceback"] or "")[-300:], "signature": None})
            continue
        rep = json.loads(r["stdout"])["results"]
        if dup is None and (rep or r["exit"] != 0):
            R.violations.append({"what": "unchanged code rescanned against its own report (written with -a %s) reports %d findings (exit %s)" % (agg, len(rep), r["exit"]),
                                 "input": inp, "observed": [(x["filename"], x["test_id"], x["line_number"]) for x in rep][:6], "signature": None})
        if dup is not None:
            tid = {"A": "B101", "E": "B102", "P": "B105", "Q": "B105"}[k]
            mine = [x for x in rep if os.path.basename(x["filename"]) == dup and x["test_id"] == tid]
            others = [x for x in rep if not (os.path.basename(x["filename"]) == dup and x["test_id"] == tid)]
            if not mine or r["exit"] != 1:
                R.violations.append({"what": "a duplicated finding (%s in %s) is not reported against the baseline" % (tid, dup), "input": inp,
                                     "observed": [(x["filename"], x["test_id"]) for x in rep][:6], "signature": None})
            if others and not (tid == "B105"):
                R.violations.append({"what": "findings the baseline accounts for are reported again", "input": inp,
                                     "observed": [(x["filename"], x["test_id"], x["line_number"]) for x in others][:6], "signature": None})
            # human-readable formats list every occurrence of the reported identity with its location
            occ = [i for i, kk in enumerate(contents[dup]) if {"A": "B101", "E": "B102", "P": "B105", "Q": "B105"}[kk] == tid and (tid != "B105" or kk == k)]
            full = climain.run_main(["-q", "-f", "json", os.path.join(d, dup)])
            lines_now = sorted(x["line_number"] for x in json.loads(full["stdout"])["results"]
                               if x["test_id"] == tid and (tid != "B105" or x["issue_text"] == [y for y in mine][0]["issue_text"])) if mine else []
            for fmt in ("txt", "screen"):
                out = os.path.join(impl.scratch(), "c07m_out.txt")
                rt = climain.run_main(["-q", "-r", "-b", basef, "-f", fmt] + (["-o", out] if fmt == "txt" else []) + ["."], cwd=d)
                text = open(out).read() if fmt == "txt" and os.path.exists(out) else rt["stdout"]
                if rt["exception"]:
                    R.violations.append({"what": "format %s with a baseline ends in a traceback (%s)" % (fmt, rt["exception"]), "input": inp, "observed": "", "signature": None})
                    continue
                missing = [ln for ln in lines_now if not re.search(r"%s:%d(:|\b)" % (re.escape(dup), ln), text)]
                if mine and missing:
                    R.violations.append({"what": "format %s: the occurrence(s) of the reported finding on line(s) %s of %s are located nowhere in the report" % (fmt, missing, dup),
                                         "input": inp, "observed": text[-600:], "signature": None})
    shutil.rmtree(d, ignore_errors=True)


def chained(R, rng, tier):
    """Histories longer than one step: the report of a scan made against a baseline (it carries candidate lists) is itself used
    as the next baseline; and one manager asked for its issue list before and after baselines are loaded.  At every step: an
    identity is listed exactly when it occurs more often now than in the baseline's results, and the exit status follows."""
    d = os.path.join(impl.scratch(), "c07ch")
    os.makedirs(d, exist_ok=True)
    f = os.path.join(d, "prog.py")
    lines = ["zz_a = eval(zz_x)", "assert zz_b", "exec(zz_c)"]
    for plan in ([[0], [0, 0], [0, 0, 0]], [[0, 1], [0, 1, 1], [0, 1, 1, 2], [0, 1, 1, 2]], [[1, 1], [1, 1, 1], [1]]):
        prev_report, prev_counts = None, None
        for step, idx in enumerate(plan):
            open(f, "w").write("".join(lines[i] + "\n" for i in idx))
            out = os.path.join(d, "r%d.json" % step)
            if os.path.exists(out):
                os.remove(out)
            argv = ["-q", "-f", "json", "-o", out] + (["-b", prev_report] if prev_report else []) + [f]
            r = climain.run_main(argv)
            counts = {i: idx.count(i) for i in set(idx)}
            R.case(("chained", tuple(map(tuple, plan)), step), nontrivial=True, sample={"plan": plan, "step": step, "exit": r["exit"]})
            R.count("chained")
            inp = {"history": [[lines[i] for i in p_] for p_ in plan[:step + 1]], "step": step, "argv": argv[:4] + ["..."]}
            if r["exception"] or not os.path.exists(out):
                R.violations.append({"what": "step %d of a chained baseline history: no report (%s)" % (step, r["exception"] or r["exit"]), "input": inp,
                                     "observed": (r["traceback"] or "")[-300:], "signature": None})
                break
            rep = json.load(open(out))["results"]
            listed = sorted({x["test_id"] for x in rep})
            tid = {0: "B307", 1: "B101", 2: "B102"}
            # the baseline is what the previous *report* lists (under a baseline that is the unmatched findings only,
            # each once; its candidate lists are not findings of the report)
            want = sorted(tid[i] for i in counts if counts[i] > (prev_counts or {}).get(tid[i], 0))
            if listed != want or (r["exit"] == 1) != bool(want):
                R.violations.append({"what": "step %d of a chained baseline history lists %s with exit %s; the identities occurring more often than in the previous "
                                             "report's results are %s" % (step, listed, r["exit"], want), "input": inp, "observed": [(x["test_id"], x["line_number"]) for x in rep],
                                     "signature": None})
            prev_report, prev_counts = out, {t: sum(1 for x in rep if x["test_id"] == t) for t in {x["test_id"] for x in rep}}
    # unchanged code against its own report lists nothing and exits 0 - whatever the code looks like (several findings of one
    # identity on one line, several identities on one line) and however it reaches bandit (a file, several files, standard input)
    own = ["import hashlib\nzz_d = hashlib.md5(zz_a).digest() + hashlib.md5(zz_b).digest()\n", "import random\nzz_r = random.random() * random.random()\n",
           "assert zz_a; assert zz_b\nzz_v = eval(zz_x) or eval(zz_x)\n", "import pickle\nzz_p = pickle.loads(zz_a), pickle.loads(zz_b), eval(zz_c)\n"]
    for k, src in enumerate(own):
        for channel in ("file", "stdin", "file+stdin"):
            f1 = os.path.join(d, "own%d.py" % k)
            open(f1, "w").write(src)
            rep1 = os.path.join(d, "own%d.json" % k)
            targets = {"file": [f1], "stdin": ["-"], "file+stdin": [f1, "-"]}[channel]
            sb = src.encode() if "stdin" in channel else None
            r1 = climain.run_main(["-q", "-f", "json", "-o", rep1, "--exit-zero"] + targets, stdin_bytes=sb)
            r2 = climain.run_main(["-q", "-f", "json", "-b", rep1] + targets, stdin_bytes=sb)
            R.case(("own-report", k, channel), nontrivial=True, sample={"program": src, "channel": channel, "exit": r2["exit"]})
            R.count("own-report:" + channel)
            inp = {"program": src, "channel": channel, "argv": ["-q", "-f", "json", "-b", "<its own report>"] + [os.path.basename(t) for t in targets]}
            try:
                n1 = len(json.load(open(rep1))["results"])
                listed = json.loads(r2["stdout"][r2["stdout"].index("{"):])["results"]
            except Exception:  # noqa: BLE001
                R.violations.append({"what": "no report for unchanged code against its own report (%s)" % (r2["exception"] or r1["exception"] or r2["exit"]), "input": inp,
                                     "observed": (r2["traceback"] or r2["stderr"] or "")[-300:], "signature": None})
                continue
            if n1 == 0:
                R.broken.append({"what": "harness: the own-report program has no findings", "input": inp})
            if listed or r2["exit"] != 0:
                R.violations.append({"what": "unchanged code (%d findings) scanned against its own report through %s lists %d findings and exits %s" % (n1, channel, len(listed), r2["exit"]),
                                     "input": inp, "observed": [(x["test_id"], x["line_number"], x["col_offset"]) for x in listed][:6], "signature": None})
    # one manager, queried before and after baselines are loaded
    base = [mk_issue(IDENTS[k], 100 + j) for j, k in enumerate((0, 1))]
    cur = [mk_issue(IDENTS[k], 1 + j) for j, k in enumerate((0, 1, 2, 3))]
    blob = json.dumps({"results": [i.as_dict() for i in base]})
    blob2 = json.dumps({"results": [i.as_dict() for i in cur[:3]]})
    for thr in (("LOW", "LOW"), ("UNDEFINED", "UNDEFINED")):
        mgr = impl.make_manager()
        mgr.results = list(cur)
        seq = []
        seq.append(len(mgr.get_issue_list(*thr)))
        mgr.populate_baseline(blob)
        seq.append(len(mgr.get_issue_list(*thr)))
        seq.append(mgr.results_count(*thr))
        mgr.populate_baseline(blob2)
        seq.append(len(mgr.get_issue_list(*thr)))
        fresh = []
        for b_ in (None, blob, blob, blob2):
            m2 = impl.make_manager()
            m2.results = list(cur)
            if b_:
                m2.populate_baseline(b_)
            fresh.append(len(m2.get_issue_list(*thr)))
        R.case(("reuse", thr), nontrivial=True, sample={"thresholds": thr, "listed": seq})
        R.count("manager-reuse")
        if fresh != [4, 2, 2, 1]:
            R.broken.append({"what": "harness: the synthetic baselines were not loaded (fresh managers list %s)" % fresh})
        if seq != fresh:
            R.violations.append({"what": "one manager asked before and after loading baselines lists %s findings, fresh managers list %s" % (seq, fresh),
                                 "input": {"results": 4, "baselines": ["none", "2 of them", "2 of them (count)", "3 of them"], "thresholds": thr},
                                 "observed": seq, "signature": None})


def identity_details(R, rng, tier):
    """Identities that differ in one field only inside one file, and file names with unusual characters."""
    import shutil
    d = os.path.join(impl.scratch(), "c07i")
    shutil.rmtree(d, ignore_errors=True)
    os.makedirs(os.path.join(d, "proj"))
    # the same test and message with two confidences (B608: MEDIUM inside execute(), LOW elsewhere)
    one = "cur.execute('select * from t where a=%s' % x)\nq = 'select * from t where a=%s' % y\n"
    f = os.path.join(d, "proj", "sql.py")
    basef = os.path.join(d, "base.json")
    open(f, "w").write(one)
    climain.run_main(["-q", "-f", "json", "-o", basef, f])
    open(f, "w").write(one + "pad = 1\n" + one)
    r = climain.run_main(["-q", "-b", basef, "-f", "json", f])
    R.case(("identity", "confidence-variants"), nontrivial=True, sample={"exit": r["exit"], "exception": r["exception"]})
    R.count("identity-details")
    if r["exception"]:
        R.violations.append({"what": "scan with baseline ends in a traceback (%s)" % r["exception"], "input": one, "observed": (r["traceback"] or "")[-300:], "signature": None})
    else:
        rep = json.loads(r["stdout"])["results"]
        for x in rep:
            cands = x.get("candidates") or []
            bad = [c for c in cands if (c["test_id"], c["issue_severity"], c["issue_confidence"], c["issue_text"], c["filename"]) !=
                   (x["test_id"], x["issue_severity"], x["issue_confidence"], x["issue_text"], x["filename"])]
            occ = 2
            if bad or (cands and len(cands) != occ):
                R.violations.append({"what": "finding %s (%s/%s, line %d) is reported with candidates that are not its own occurrences" % (
                    x["test_id"], x["issue_severity"], x["issue_confidence"], x["line_number"]), "input": {"before": one, "after": "twice"},
                    "observed": [(c["issue_confidence"], c["line_number"]) for c in cands], "signature": None})
        if sorted((x["test_id"], x["issue_confidence"]) for x in rep) != [("B608", "LOW"), ("B608", "MEDIUM")]:
            R.violations.append({"what": "two identities that differ in confidence only, each duplicated: reported %s" % sorted((x["test_id"], x["issue_confidence"]) for x in rep),
                                 "input": {"before": one}, "observed": len(rep), "signature": None})
    # unchanged files with unusual names, rescanned against their own report
    names = ["pkg\\mod.py", "sp ace.py", "ünï.py", "semi;colon.py", "quote'd.py", "dash-.py"]
    pd = os.path.join(d, "names")
    os.makedirs(pd)
    for n in names:
        open(os.path.join(pd, n), "w").write("assert zz\nexec(zz)\n")
    for agg in ("file", "vuln"):
        basef2 = os.path.join(d, "base2.json")
        if os.path.exists(basef2):
            os.remove(basef2)
        climain.run_main(["-q", "-r", "-f", "json", "-a", agg, "-o", basef2, "names"], cwd=d)
        r = climain.run_main(["-q", "-r", "-b", basef2, "-f", "json", "names"], cwd=d)
        R.case(("identity", "names", agg), nontrivial=True, sample={"exit": r["exit"]})
        R.count("identity-details")
        if r["exception"] or r["exit"] != 0 or json.loads(r["stdout"])["results"]:
            R.violations.append({"what": "unchanged files with unusual names rescanned against their own report: %s" % (
                r["exception"] or "exit %s, %d findings reported" % (r["exit"], len(json.loads(r["stdout"])["results"]))),
                "input": {"names": names, "aggregation": agg},
                "observed": None if r["exception"] else [(x["filename"], x["test_id"]) for x in json.loads(r["stdout"])["results"]][:6], "signature": None})
    shutil.rmtree(d, ignore_errors=True)


def run(R, replay=None):
    rng = random.Random(R.seed)
    for f in core.gen():
        R.broken.append({"what": "translator failed: " + f["translator"], "log": f["stderr"]})
    R.proof = core.prove(PROP_FILES, DEPS)
    for f in R.proof["failed"]:
        R.broken.append({"what": "proof obligation no longer checks: %s (%s) %s" % (f["file"], f["why"], f.get("theorem") or ""),
                         "log": f.get("log", "")})
    R.rule = ("(1) all pairs (baseline multiset, current multiset) of up to 3-4 findings over three identities in two files, current "
              "order shuffled, through _compare_baseline_results/_find_candidate_matches vs the model and the statement; (2) histories "
              "scan -> JSON report -> edit (add, add a new identity, remove, duplicate, move, insert blank/comment lines) -> scan -b, "
              "through main(), thresholds and baseline-capable formats varied; non-trivial = non-empty baseline"
              "; chained histories (a report written under -b used as the next baseline) and one manager queried before and after baselines are loaded")
    unit(R, rng, R.tier)
    system(R, rng, R.tier)
    system_multi(R, rng, R.tier)
    identity_details(R, rng, R.tier)
    chained(R, rng, R.tier)
    R.disagreements_checked = R.evaluations
