"""C09 - every report format renders the same findings, safely encoded."""
import csv
import html
import io
import json
import os
import random
import re
import urllib.parse
import xml.etree.ElementTree as ET

import climain
import core
import coqlit as L
import impl
import reports

PROP_FILES = ["theories/Props/C09.v", "theories/Inst/C09_inst.v"]
DEPS = ["theories/Gen/FormatFacts.vo", "theories/Proofs/JsonFacts.vo", "theories/Proofs/EscapeFacts.vo", "theories/Proofs/CsvFacts.vo",
        "theories/Proofs/GroupingFacts.vo", "theories/Gen/Registry.vo", "theories/Gen/IssueFields.vo"]

ALPHABET = ["<", ">", "&", '"', "'", ",", ";", "\t", "\\", "/", "a", "Z", " ", "é", "ß", "‮", " ", "\x85", "€", "😀", "\U0001f600",
            "<script>alert(1)</script>", "]]>", "<!--", "-->", "&amp;", "%41", "{", "}", "{msg}", "\x01", "\x08", "\x0c", "\x1f", "\x7f",
            "￾", "￿", ":", "#", "|", "`", "$(x)", "\r", "\n"]


def gen_text(rng, kind="any"):
    n = rng.randint(0, 8)
    pool = ALPHABET if kind == "any" else [a for a in ALPHABET if a not in ("\r", "\n", "\x85", " ", "\x0c")]
    return "".join(rng.choice(pool) for _ in range(n))


def unit(R, rng, tier):
    from bandit.formatters import xml as bxml
    n = 500 if tier == "quick" else 6000
    texts = ["", "plain"] + [gen_text(rng) for _ in range(n)]
    # ---- json
    cases = [(L.pstr(t), L.pstr(json.dumps(t))) for t in texts]
    mm, br = core.unit_corr("From Bandit Require Import Formats.JsonEnc.\n", "json_encode", "pstr", "pstr", "pstr_eqb", cases, label="c09j")
    R.broken.extend(br)
    for i, tail in mm[:5]:
        R.broken.append({"what": "correspondence: json.dumps differs from the JsonEnc model", "input": repr(texts[i]), "implementation": json.dumps(texts[i]), "model_output_excerpt": tail[:300]})
    # lone surrogates: a separate stream (the statement's encoders are only promised surrogate-free text)
    # ---- html.escape
    cases = [(L.pstr(t), L.pstr(html.escape(t, quote=True))) for t in texts]
    mm, br = core.unit_corr("From Bandit Require Import Formats.Escapes.\n", "html_escape", "pstr", "pstr", "pstr_eqb", cases, label="c09h")
    R.broken.extend(br)
    for i, tail in mm[:5]:
        R.broken.append({"what": "correspondence: html.escape differs from the model", "input": repr(texts[i]), "implementation": html.escape(texts[i]), "model_output_excerpt": tail[:300]})
    # ---- ElementTree escapes + the formatter's _xml_safe
    cases = [(L.pstr(t), "(%s, %s, %s)" % (L.pstr(ET._escape_cdata(t)), L.pstr(ET._escape_attrib(t)), L.pstr(bxml._xml_safe(t)))) for t in texts]
    mm, br = core.unit_corr("From Bandit Require Import Formats.Escapes.\n", "fun s => (escape_cdata s, escape_attrib s, xml_safe s)", "pstr",
                            "pstr * pstr * pstr", "fun a b => match a, b with (x1, y1, z1), (x2, y2, z2) => pstr_eqb x1 x2 && pstr_eqb y1 y2 && pstr_eqb z1 z2 end",
                            cases, label="c09x")
    R.broken.extend(br)
    for i, tail in mm[:5]:
        R.broken.append({"what": "correspondence: ElementTree escaping / _xml_safe differs from the model", "input": repr(texts[i]), "implementation": cases[i][1][:300], "model_output_excerpt": tail[:300]})
    # ---- csv rows
    rows = [[gen_text(rng) for _ in range(rng.randint(1, 5))] for _ in range(n // 2)]
    cases = []
    for row in rows:
        buf = io.StringIO(newline="")
        csv.writer(buf).writerow(row)
        if len(row) == 1 and row[0] == "":
            continue        # a lone empty field is written as "" by the csv module; not a shape the formatter produces
        cases.append((L.lst([L.pstr(x) for x in row], "pstr"), L.pstr(buf.getvalue())))
    mm, br = core.unit_corr("From Bandit Require Import Formats.CsvEnc.\n", "csv_row", "list pstr", "pstr", "pstr_eqb", cases, label="c09c")
    R.broken.extend(br)
    for i, tail in mm[:5]:
        R.broken.append({"what": "correspondence: csv.writer differs from the CsvEnc model", "input": cases[i][0][:200], "implementation": cases[i][1][:200], "model_output_excerpt": tail[:300]})
    for t in texts[:60]:
        R.case(("unit", t), nontrivial=bool(t), sample={"text": repr(t), "json": json.dumps(t)})
    R.evaluations += len(texts) * 3 + len(cases)
    R.count("unit-strings", len(texts))


def py_literal(s):
    return repr(s)


def system(R, rng, tier):
    d = os.path.join(impl.scratch(), "c09")
    os.makedirs(d, exist_ok=True)
    n = 14 if tier == "quick" else 150
    formats = ["json", "yaml", "csv", "xml", "sarif", "html", "custom", "txt"]
    for it in range(n):
        sub = os.path.join(d, "r%d" % it)
        os.makedirs(sub)
        # the scanned directory is named so that relative file names start with a character spreadsheets, shells or formats
        # treat specially ("." yields ./name)
        tdir = rng.choice([".", ".", "@vendor", "+extras", "=staging", "'q", "<b>"])
        top = sub
        if tdir != ".":
            sub = os.path.join(sub, tdir)
            os.makedirs(sub)
        names = []
        for k in range(rng.randint(1, 3)):
            stem = rng.choice(["mod", "a b", "x&y", "q'uote", "lt<gt>", "ünï", "semi;colon", "com,ma", "hash#", "pct%41", "plus+", "brace{msg}"])
            fn = "%s_%d.py" % (stem, k)
            pw = gen_text(rng, "oneline")
            if it == 0 and k == 0:
                pw = "first\nsecond"       # the witness of the known finding about the custom template, in every run
            elif rng.random() < 0.35:
                # line ends inside a quoted literal (escaped in the source, real characters in the finding's message)
                pw = pw[:len(pw) // 2] + rng.choice(["\r", "\n", "\r\n", "x\ry", "\x85"]) + pw[len(pw) // 2:]
            src = ("import subprocess\npassword = %s\nsubprocess.Popen(cmd,\n    stdin=None,\n    shell=True)\nassert password\n" % py_literal(pw))
            if rng.random() < 0.5:
                # characters str.splitlines() treats as line ends but files do not: a page-break line and separators inside
                # a literal, right next to flagged lines (they end up in the excerpts of every format)
                src = src.replace("assert password\n", "\x0c\nassert password\nzz_ls = 'a\u2028b\x0cc\x1cd\x85e'\nassert zz_ls\n", 1)
            if rng.random() < 0.6:
                # several rules share the test name "blacklist" while a plugin's ID lies between theirs
                src += "import pickle, hashlib\npickle.loads(zz)\nhashlib.md5(zz)\nimport telnetlib\n"
            if rng.random() < 0.3:
                src += "try:\n    pass\nexcept Exception:\n    pass\n"
            open(os.path.join(sub, fn), "w", encoding="utf-8").write(src)
            names.append(fn)
        if rng.random() < 0.5:
            open(os.path.join(sub, "broken_<&>.py"), "w").write("def f(:\n")
            names.append("broken_<&>.py")
        agg = rng.choice(["file", "vuln"])
        ctx = rng.choice([0, 1, 3, 10])
        base = climain.run_main(["-q", "-r", "-f", "json", "-a", agg, "-n", str(ctx), tdir], cwd=top)
        inp = {"files": names, "aggregate": agg, "context_lines": ctx, "target": tdir}
        pj = reports.parse("json", base["stdout"])
        if base["exception"] or not pj["wellformed"]:
            R.violations.append({"what": "JSON report not produced / not well-formed", "input": inp, "observed": base["exception"] or pj.get("error"), "signature": None})
            continue
        J = pj["records"]
        skipped_j = sorted(f for f, _ in pj["skipped"])
        # grouping
        keyname = "test_name" if agg == "vuln" else "filename"
        keys = [r[keyname] for r in J]
        seen, prev = set(), None
        for kx in keys:
            if kx != prev and kx in seen:
                R.violations.append({"what": "JSON records are not grouped by %s" % keyname, "input": inp, "observed": keys, "signature": None})
                break
            seen.add(kx)
            prev = kx
        ident = lambda r: (r["test_id"], os.path.normpath(r["filename"]), r["line"], r["severity"], r["confidence"], r["text"])
        want = sorted(ident(r) for r in J)
        for fmt in formats:
            out = os.path.join(top, "report.out")
            extra = ["--msg-template", "{relpath}|{line}|{test_id}|{severity}|{confidence}|{msg}"] if fmt == "custom" else []
            r = climain.run_main(["-q", "-r", "-f", fmt, "-a", agg, "-n", str(ctx), "-o", out] + extra + [tdir], cwd=top)
            R.case(("sys", it, fmt), sample=dict(inp, format=fmt, exit=r["exit"], records=len(J)))
            R.count("format:" + fmt)
            if r["exception"]:
                R.violations.append({"what": "format %s: no report (%s)" % (fmt, r["exception"]), "input": inp, "observed": (r["traceback"] or "")[-300:], "signature": None})
                continue
            # newline="": the bytes as written (a CR inside a quoted CSV field or an XML attribute is data, not a line end)
            text = open(out, encoding="utf-8", errors="surrogateescape", newline="").read()
            os.remove(out)
            pr = reports.parse(fmt, text)
            if not pr["wellformed"]:
                R.violations.append({"what": "format %s: the report is not well-formed (%s)" % (fmt, pr.get("error")), "input": inp, "observed": text[:300], "signature": None})
                continue
            if len(pr["records"]) != len(J):
                # the custom template writes {msg} as it is, one record per line: a message that holds a line feed cannot be one record
                sig = "custom-template-writes-line-feed-raw" if fmt == "custom" and len(pr["records"]) == len(J) + sum(r_["text"].count("\n") for r_ in J) else None
                R.violations.append({"what": "format %s: %d records for %d reported findings" % (fmt, len(pr["records"]), len(J)), "input": inp, "observed": len(pr["records"]), "signature": sig})
                continue
            if fmt in ("yaml", "csv", "xml"):
                got = sorted(ident(x) for x in pr["records"])
                if fmt == "xml":
                    # the XML formatter spells characters XML cannot carry as \xNN: compare modulo that spelling
                    from bandit.formatters import xml as bxml
                    exp = sorted((a, os.path.normpath(bxml._xml_safe(b)), c, e, f, bxml._xml_safe(g)) for a, b, c, e, f, g in want)
                else:
                    exp = want
                if got != exp:
                    R.violations.append({"what": "format %s: decoded records differ from the JSON records (id, file, line, severity, confidence, message)" % fmt,
                                         "input": inp, "observed": {"got": [x for x in got if x not in exp][:3], "expected": [x for x in exp if x not in got][:3]}, "signature": None})
            if fmt == "sarif":
                got = sorted((x["test_id"], os.path.normpath(urllib.parse.unquote(x["filename"])), x["severity"], x["confidence"], x["text"]) for x in pr["records"])
                exp = sorted((a, b, e, f, g) for a, b, c, e, f, g in want)
                if got != exp:
                    R.violations.append({"what": "format sarif: decoded records differ from the JSON records (id, file, severity, confidence, message)",
                                         "input": inp, "observed": {"got": [x for x in got if x not in exp][:3], "expected": [x for x in exp if x not in got][:3]}, "signature": None})
                jl = sorted((r_["test_id"], r_["line"], tuple(r_["line_range"])) for r_ in J)
                sl = sorted((x["test_id"], x["region"]["startLine"], x["region"]["endLine"]) for x in pr["records"])
                for (tid, line, lr), (tid2, st, en) in zip(jl, sorted((a, b, c) for a, b, c in sl)):
                    pass
                for x in pr["records"]:
                    cands = [r_ for r_ in J if r_["test_id"] == x["test_id"] and os.path.normpath(r_["filename"]) == os.path.normpath(urllib.parse.unquote(x["filename"]))
                             and r_["line_range"][0] == x["region"]["startLine"]]
                    if not cands:
                        R.violations.append({"what": "format sarif: a region does not start at the first line of any finding's range", "input": inp, "observed": x["region"], "signature": None})
                        continue
                    if not any(c_["line_range"][-1] == x["region"]["endLine"] for c_ in cands):
                        R.violations.append({"what": "format sarif: region endLine %s is not the last line of the finding's range" % x["region"]["endLine"], "input": inp,
                                             "observed": [c_["line_range"] for c_ in cands], "signature": None})
                    if not any(c_["line"] == x["region"]["startLine"] for c_ in cands):
                        R.violations.append({"what": "format sarif: the record's line (%s) is not the finding's line number (%s)" % (
                            x["region"]["startLine"], [c_["line"] for c_ in cands]), "input": inp, "observed": x["region"], "signature": "sarif-line-is-range-start"})
                sk = sorted(os.path.normpath(urllib.parse.unquote(n_["locations"][0]["physicalLocation"]["artifactLocation"]["uri"]))
                            for n_ in (pr["raw"]["runs"][0]["invocations"][0].get("toolConfigurationNotifications") or []))
                if sk != sorted(os.path.normpath(f) for f in skipped_j):
                    R.violations.append({"what": "format sarif: skipped files not listed", "input": inp, "observed": sk, "signature": None})
            if fmt == "yaml":
                if sorted(f for f, _ in pr["skipped"]) != skipped_j:
                    R.violations.append({"what": "format yaml: skipped files differ from JSON", "input": inp, "observed": pr["skipped"], "signature": None})
            if fmt == "html":
                # text taken from the source must not appear as markup: every issue text / file name occurs escaped only
                for r_ in J:
                    for raw in (r_["text"], r_["filename"]):
                        if any(ch in raw for ch in "<>&\"'"):
                            if raw in text and html.escape(raw, quote=True) != raw:
                                R.violations.append({"what": "format html: source-derived text is written without escaping", "input": inp, "observed": raw[:80], "signature": None})
                for f in skipped_j:
                    if html.escape(f, quote=True) not in text:
                        R.violations.append({"what": "format html: skipped file not listed (escaped)", "input": inp, "observed": f, "signature": None})
            if fmt == "custom":
                lines = [l for l in text.split("\n") if l]
                got = sorted(tuple(l.split("|", 5)) for l in lines) if all(l.count("|") >= 5 for l in lines) else None
                exp = sorted((os.path.normpath(b), str(c), a, e, f, g) for a, b, c, e, f, g in want)
                if got is not None and sorted((os.path.normpath(x[0]),) + x[1:] for x in got) != exp and not any("\n" in w[5] or "|" in w[5] for w in want):
                    R.violations.append({"what": "format custom: rendered fields differ from the JSON records", "input": inp,
                                         "observed": {"got": got[:2], "expected": exp[:2]}, "signature": None})
        import shutil
        shutil.rmtree(top, ignore_errors=True)


def baseline_html(R, rng, tier):
    """The candidate listing of a scan against a baseline (a different branch of the formatters) escapes source text as well."""
    d = os.path.join(impl.scratch(), "c09b")
    os.makedirs(d, exist_ok=True)
    f = os.path.join(d, "m&m.py")
    evil = "assert zz  # <script>alert(1)</script> <img src=x onerror=y> \"q\" 'a' &amp;\n"
    open(f, "w").write(evil)
    basef = os.path.join(d, "base.json")
    climain.run_main(["-q", "-f", "json", "-o", basef, f])
    open(f, "w").write(evil + "zz_pad = '<b>'\n" + evil)
    for fmt in ("html", "json", "txt"):
        out = os.path.join(d, "b.out")
        if os.path.exists(out):
            os.remove(out)
        r = climain.run_main(["-q", "-b", basef, "-f", fmt, "-o", out, f])
        R.case(("baseline", fmt), nontrivial=True, sample={"format": fmt, "exit": r["exit"], "exception": r["exception"]})
        R.count("format:baseline-" + fmt)
        if r["exception"]:
            R.violations.append({"what": "format %s with a baseline: no report (%s)" % (fmt, r["exception"]), "input": {"source": evil}, "observed": (r["traceback"] or "")[-300:], "signature": None})
            continue
        text = open(out, encoding="utf-8").read()
        pr = reports.parse(fmt, text)
        if not pr["wellformed"]:
            R.violations.append({"what": "format %s with a baseline is not well-formed (%s)" % (fmt, pr.get("error")), "input": {"source": evil}, "observed": text[:300], "signature": None})
        if fmt == "html" and ("<script>alert(1)</script>" in text or "<img src=x" in text):
            R.violations.append({"what": "format html with a baseline: source text of a candidate excerpt is written without escaping", "input": {"source": evil},
                                 "observed": text[text.find("<script>alert") - 80:text.find("<script>alert") + 80], "signature": None})


def synthetic(R, rng, tier):
    """Findings as any check - built-in or third-party - may hand them to the formatters (Issue's arguments are mostly
    optional): without a CWE, without a test id, with hostile text; rendered by every formatter from one manager."""
    import io
    import bandit
    from bandit.core import issue as bissue
    d = os.path.join(impl.scratch(), "c09syn")
    os.makedirs(d, exist_ok=True)
    src = os.path.join(d, "syn.py")
    open(src, "w").write("zz_a = 1\nzz_b = 2\nzz_c = 3\n")
    shapes = [dict(cwe=0), dict(cwe=78), dict(cwe=0, test_id=""), dict(cwe=703, text="<b>&\"'</b>"), dict(cwe=0, text="a,b\"c")]
    for k, shp in enumerate(shapes):
        mgr = impl.make_manager()
        i = bissue.Issue(severity=bandit.MEDIUM, cwe=shp["cwe"], confidence=bandit.HIGH, text=shp.get("text", "synthetic finding %d" % k),
                         test_id=shp.get("test_id", "B9%02d" % k), lineno=2)
        i.fname, i.test, i.linerange = src, "zz_ext_check", [2]
        mgr.results = [i]
        mgr.files_list = [src]
        mgr.metrics.begin(src)
        mgr.metrics.count_issues([])
        mgr.metrics.aggregate()
        for fmt in ("json", "yaml", "csv", "xml", "sarif", "html", "custom", "txt"):
            out = os.path.join(d, "rep.out")
            if os.path.exists(out):
                os.remove(out)
            R.case(("synthetic", k, fmt), nontrivial=True, sample={"issue": shp, "format": fmt})
            R.count("synthetic:" + fmt)
            inp = {"issue": dict(shp, severity="MEDIUM", confidence="HIGH", line=2), "format": fmt}
            try:
                mgr.output_results(3, bandit.LOW, bandit.LOW, open(out, "w", encoding="utf-8"), fmt,
                                   "{relpath}|{line}|{test_id}|{severity}|{confidence}|{msg}" if fmt == "custom" else None)
            except Exception as e:  # noqa: BLE001
                R.violations.append({"what": "format %s: no report for a finding %s (%s: %s)" % (
                    fmt, "without a CWE" if not shp["cwe"] else "with CWE %s" % shp["cwe"], type(e).__name__, str(e)[:120]),
                    "input": inp, "observed": type(e).__name__, "signature": None})
                continue
            text = open(out, encoding="utf-8", newline="").read()
            pr = reports.parse(fmt, text)
            if not pr["wellformed"] or pr["records"] is None or len(pr["records"]) != 1:
                R.violations.append({"what": "format %s: report of one synthetic finding is not well-formed or has %s records" % (
                    fmt, None if pr["records"] is None else len(pr["records"])), "input": inp, "observed": text[:300], "signature": None})


def run(R, replay=None):
    rng = random.Random(R.seed)
    for f in core.gen():
        R.broken.append({"what": "translator failed: " + f["translator"], "log": f["stderr"]})
    R.proof = core.prove(PROP_FILES, DEPS)
    for f in R.proof["failed"]:
        R.broken.append({"what": "proof obligation no longer checks: %s (%s) %s" % (f["file"], f["why"], f.get("theorem") or ""),
                         "log": f.get("log", "")})
    R.rule = ("(1) strings over markup / quote / separator / control / bidi / non-BMP characters through json.dumps, html.escape, "
              "ElementTree's escapes, the XML formatter's sanitiser and csv.writer vs the codec models; (2) directories of files whose "
              "findings quote such strings (hard-coded password literals), with hostile file names and a skipped file, reported through "
              "main() in every format x aggregation x context lines: each report parsed with a standard parser and compared record by "
              "record with the JSON report; grouping, skipped-file listing, SARIF regions, HTML escaping; non-trivial = non-empty text"
              "; synthetic findings without a CWE / test id through every formatter; line ends inside quoted literals")
    unit(R, rng, R.tier)
    system(R, rng, R.tier)
    baseline_html(R, rng, R.tier)
    synthetic(R, rng, R.tier)
    R.disagreements_checked = R.evaluations
