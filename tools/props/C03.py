"""C03 - exit status and threshold filtering tell CI the truth."""
import glob
import json
import itertools
import os
import random

import climain
import core
import coqlit as L
import impl
import reports

PROP_FILES = ["theories/Props/C03.v", "theories/Inst/C03_inst.v"]
DEPS = ["theories/Proofs/C03_proofs.vo", "theories/Proofs/C03b_proofs.vo", "theories/Gen/IssueFields.vo", "theories/Gen/Constants.vo", "theories/Gen/CliTable.vo",
        "theories/Gen/Ladders.vo", "theories/Gen/Registry.vo"]
RANKS = ["UNDEFINED", "LOW", "MEDIUM", "HIGH"]
SEV_SPELL = {0: [[], ["--severity-level", "all"]], 1: [["-l"], ["--severity-level", "low"], ["--level"]],
             2: [["-ll"], ["--severity-level", "medium"], ["-l", "-l"]], 3: [["-lll"], ["--severity-level", "high"]]}
CONF_SPELL = {0: [[], ["--confidence-level", "all"]], 1: [["-i"], ["--confidence-level", "low"]],
              2: [["-ii"], ["--confidence-level", "medium"], ["-i", "--confidence"]], 3: [["-iii"], ["--confidence-level", "high"]]}

POOL = [
    "import pickle, subprocess, hashlib\npickle.loads(x)\nsubprocess.Popen(c, shell=True)\nhashlib.md5()\nassert x\n"
    "password = 'x'\nf('/tmp/x')\nfoo(shell=True)\nq = 'select * from t where a=%s' % y\n",
    "try:\n    pass\nexcept Exception:\n    pass\nexec('x')\nimport telnetlib\nimport random\nrandom.random()\n",
    "x = 1\n",
    "import subprocess\nsubprocess.call(['ls'])\nsubprocess.call('ls', shell=True)\n",
    "import yaml\nyaml.load(x)\nimport os\nos.chmod('f', 0o777)\nos.system(cmd)\n",
    "def f(password='secret'):\n    assert password\n    return eval(password)\n",
    "import subprocess\nexec(a); exec(b)\nsubprocess.Popen('ls', shell=True); subprocess.Popen(c, shell=True)\nassert a; assert b\n",
]


def synth_issue(sev, conf, k):
    from bandit.core import issue
    i = issue.Issue(severity=sev, confidence=conf, text="t%d" % k, test_id="B9%02d" % k, lineno=k + 1)
    i.fname = "f.py"
    i.test = "synth%d" % k
    i.linerange = [k + 1]
    return i


def finding_coq(i):
    return "(Finding %s %s %s %s %s %s %s %s %s %s)" % (
        L.pstr(i.test_id), L.pstr(i.test), i.severity, i.confidence, L.Z(i.cwe.id), L.pstr(i.text),
        L.Z(i.lineno), L.lst([L.Z(x) for x in i.linerange], "Z"), L.Z(i.col_offset), L.Z(i.end_col_offset))


def unit_cases(R, rng, tier):
    """filter_results / results_count / exit decision on synthetic result lists, all 16 thresholds."""
    n_lists = 40 if tier == "quick" else 400
    lists = [[]]
    pairs = list(itertools.product(RANKS, RANKS))
    lists.append([synth_issue(s, c, k) for k, (s, c) in enumerate(pairs)])
    for _ in range(n_lists):
        lists.append([synth_issue(rng.choice(RANKS), rng.choice(RANKS), k) for k in range(rng.randint(0, 6))])
    cases, meta = [], []
    for lst in lists:
        mgr = impl.make_manager()
        mgr.results = list(lst)
        for st in RANKS:
            for ct in RANKS:
                for ez in (False, True):
                    rep = mgr.filter_results(st, ct)
                    cnt = mgr.results_count(sev_filter=st, conf_filter=ct)
                    code = 1 if (cnt > 0 and not ez) else 0
                    # P-oracle (the statement itself)
                    want = [i for i in lst if RANKS.index(i.severity) >= RANKS.index(st)
                            and RANKS.index(i.confidence) >= RANKS.index(ct)]
                    if [id(x) for x in rep] != [id(x) for x in want]:
                        R.violations.append({"what": "filter_results does not return exactly the findings meeting both thresholds",
                                             "input": {"findings": [(i.severity, i.confidence) for i in lst], "sev": st, "conf": ct},
                                             "observed": [(i.severity, i.confidence) for i in rep], "signature": None})
                    cases.append(("(%s, %s, %s, %s)" % (L.pstr(st), L.pstr(ct), L.B(ez), L.lst([finding_coq(i) for i in lst], "finding")),
                                  "(Exit %s, %s)" % (L.Z(code), L.lst([finding_coq(i) for i in rep], "finding"))))
                    R.case(("unit", tuple((i.severity, i.confidence) for i in lst), st, ct, ez),
                           nontrivial=bool(lst), sample={"findings": [(i.severity, i.confidence) for i in lst],
                                                         "sev": st, "conf": ct, "exit_zero": ez, "exit": code})
                    R.count("unit")
    imports = "From Bandit Require Import Cli.Thresholds Gen.Constants.\n"
    extra = ("Definition out_eqb (a b : outcome * list finding) : bool :=\n"
             "  match fst a, fst b with Exit x, Exit y => Z.eqb x y | _, _ => false end && list_eqb finding_eqb (snd a) (snd b).\n")
    mm, br = core.unit_corr(imports, "fun x => match x with (s, c, ez, l) => exit_status RANKING s c ez l end",
                            "pstr * pstr * bool * list finding", "outcome * list finding", "out_eqb", cases,
                            label="c03u", extra_defs=extra)
    R.broken.extend(br)
    for i, tail in mm:
        R.broken.append({"what": "correspondence: exit_status model vs filter_results/results_count differ",
                         "input": cases[i][0][:500], "implementation": cases[i][1][:500], "model_output_excerpt": tail[:800]})


USAGE_ERRORS = [
    (["--no-such-option", "T"], "unknown option"),
    (["-f", "nosuchformat", "T"], "invalid format"),
    ([], "no targets"),
    (["-c", "/nonexistent/cfg.yaml", "T"], "missing config file"),
    (["-p", "nosuchprofile", "T"], "unknown profile without config"),
    (["-t", "B101", "-s", "B101", "T"], "test both included and excluded"),
    (["--msg-template", "{line}", "T"], "msg-template without custom format"),
    (["-b", "/nonexistent/baseline.json", "T"], "missing baseline"),
    (["-llll", "T"], "severity flag repeated four times"),
    (["-iiii", "T"], "confidence flag repeated four times"),
    (["-lllll", "-iiiii", "T"], "both flags repeated five times"),
    (["-n", "notanumber", "T"], "non-integer context lines"),
    (["-a", "nosuch", "T"], "invalid aggregate"),
    (["--severity-level", "extreme", "T"], "invalid severity choice"),
    (["-l", "--severity-level", "low", "T"], "both severity spellings"),
    (["-f", "custom", "--msg-template", "{", "T"], "malformed template"),
    (["-f", "custom", "--msg-template", "notags", "T"], "template without tags"),
    (["-b", "T", "-f", "csv", "T"], "baseline with a format that does not support it"),
    (["-t", "B999", "T"], "only unknown test selected"),
    # the same usage errors when nothing meets the thresholds (or nothing is found at all): an error is an error
    (["-f", "custom", "--msg-template", "{", "-lll", "-iii", "T"], "malformed template, no finding meets the thresholds"),
    (["-f", "custom", "--msg-template", "{line:zz}", "-lll", "-iii", "T"], "template with a bad format spec, no finding meets the thresholds"),
    (["-f", "custom", "--msg-template", "notags", "-lll", "-iii", "T"], "template without tags, no finding meets the thresholds"),
    (["-f", "custom", "--msg-template", "{", "CLEAN"], "malformed template, file without findings"),
    (["-f", "custom", "--msg-template", "notags", "CLEAN"], "template without tags, file without findings"),
]


def sig_usage(argv):
    return None


def system_cases(R, rng, tier):
    d = impl.scratch()
    files = []
    for k, src in enumerate(POOL):
        p = os.path.join(d, "prog%d.py" % k)
        open(p, "w").write(src)
        files.append(p)
    ex = sorted(glob.glob(os.path.join(core.REPO, "examples", "*.py")))
    files += rng.sample(ex, 3 if tier == "quick" else 25)
    formats = ["csv", "custom", "html", "json", "sarif", "screen", "txt", "xml", "yaml"]
    combos = list(itertools.product(range(4), range(4)))
    fi = 0
    for f in files:
        base = climain.run_main(["-f", "json", "-q", "--exit-zero", f])
        if base["exception"] or base["exit"] != 0:
            R.violations.append({"what": "unfiltered scan did not complete", "input": f, "observed": base["exception"] or base["exit"],
                                 "signature": None})
            continue
        U = reports.parse("json", base["stdout"])["records"]
        todo = combos if tier == "thorough" else rng.sample(combos, 6)
        for (si, ci) in todo:
            fmts = formats if tier == "thorough" else [formats[fi % len(formats)], "json"]
            fi += 1
            for fmt in fmts:
                ez = rng.random() < 0.3
                loud = rng.choice([["-q"], ["-v"], []])
                argv = rng.choice(SEV_SPELL[si]) + rng.choice(CONF_SPELL[ci]) + ["-f", fmt] + loud + (["--exit-zero"] if ez else [])
                out = os.path.join(d, "report.out")
                if os.path.exists(out):
                    os.remove(out)
                r = climain.run_main(argv + ["-o", out, f])
                want = [u for u in U if RANKS.index(u["severity"]) >= si and RANKS.index(u["confidence"]) >= ci]
                want_exit = 1 if (want and not ez) else 0
                inp = {"argv": argv + ["-o", "<out>", f], "unfiltered": [(u["test_id"], u["severity"], u["confidence"]) for u in U]}
                R.case(("sys", os.path.basename(f), si, ci, fmt, ez), nontrivial=bool(U),
                       sample={"argv": argv, "file": os.path.basename(f), "exit": r["exit"], "reported": len(want)})
                R.count("system:" + fmt)
                if r["exception"]:
                    R.violations.append({"what": "traceback instead of an exit status (%s)" % r["exception"], "input": inp,
                                         "observed": r["traceback"], "signature": None})
                    continue
                if r["exit"] != want_exit:
                    R.violations.append({"what": "exit status %s but %d findings meet the thresholds (exit-zero=%s)" % (r["exit"], len(want), ez),
                                         "input": inp, "observed": r["exit"], "signature": None})
                text = open(out, encoding="utf-8", errors="surrogateescape").read() if os.path.exists(out) else ""
                if fmt == "screen":      # the screen formatter prints to stdout whatever -o says
                    text = r["stdout"]
                pr = reports.parse(fmt, text)
                if pr["records"] is None:
                    R.violations.append({"what": "report in format %s cannot be parsed: %s" % (fmt, pr.get("error")), "input": inp,
                                         "observed": text[:500], "signature": "c09-territory"})
                    continue
                if len(pr["records"]) != len(want):
                    R.violations.append({"what": "format %s reports %d findings, %d meet the thresholds" % (fmt, len(pr["records"]), len(want)),
                                         "input": inp, "observed": len(pr["records"]), "signature": None})
                elif fmt in ("json", "yaml", "csv", "xml"):
                    got = sorted((x["test_id"], x["line"]) for x in pr["records"])
                    exp = sorted((x["test_id"], x["line"]) for x in want)
                    if got != exp:
                        R.violations.append({"what": "format %s reports other findings than those meeting the thresholds" % fmt,
                                             "input": inp, "observed": got, "expected": exp, "signature": None})
    # thresholds given in a .bandit file are the same thresholds (level / confidence count like -l / -i: 1 = everything .. 4 = HIGH)
    f = files[0]
    base = climain.run_main(["-f", "json", "-q", "--exit-zero", f])
    U = reports.parse("json", base["stdout"])["records"] if not base["exception"] else []
    for si, ci in (combos if tier == "thorough" else [(3, 0), (0, 3), (3, 3), (2, 1), (1, 2)]):
        ini = os.path.join(d, "thr.ini")
        open(ini, "w").write("[bandit]\n" + ("level = %d\n" % (si + 1) if si else "") + ("confidence = %d\n" % (ci + 1) if ci else ""))
        r = climain.run_main(["-f", "json", "-q", "--ini", ini, f])
        want = [u for u in U if RANKS.index(u["severity"]) >= si and RANKS.index(u["confidence"]) >= ci]
        R.case(("ini-threshold", si, ci), nontrivial=True, sample={"level": si + 1, "confidence": ci + 1, "exit": r["exit"]})
        R.count("system:ini")
        inp = {"ini": open(ini).read(), "file": f}
        if r["exception"]:
            R.violations.append({"what": "thresholds from a .bandit file end in a traceback (%s)" % r["exception"], "input": inp, "observed": r["traceback"], "signature": None})
            continue
        got = reports.parse("json", r["stdout"])["records"] or []
        if sorted((x["test_id"], x["line"]) for x in got) != sorted((x["test_id"], x["line"]) for x in want) or r["exit"] != (1 if want else 0):
            R.violations.append({"what": "level=%d confidence=%d in a .bandit file: %d findings reported (exit %s), %d meet the thresholds" % (
                si + 1, ci + 1, len(got), r["exit"], len(want)), "input": inp, "observed": [(x["test_id"], x["severity"], x["confidence"]) for x in got][:8], "signature": None})
    # a threshold given on the command line - in any spelling argparse accepts: clustered with other short flags, abbreviated
    # long options - is the threshold in force, also when a .bandit file sets another one
    spell = [(["-r", "-lll"], 3, None), (["-rlll"], 3, None), (["-qrll"], 2, None), (["-riii"], None, 3), (["-rllliii"], 3, 3),
             (["-r", "--severity-l", "medium"], 2, None), (["-r", "--confidence-l", "high"], None, 3), (["-r", "--confidence-l", "medium", "-ll"], 2, 2),
             (["-rl", "--confidence-l", "low"], 1, 1)]
    for inis, isev, iconf in ((None, None, None), ("level = 1\nconfidence = 1\n", 0, 0), ("level = 4\n", 3, None), ("confidence = 3\nlevel = 2\n", 1, 2)):
        for extra, si, ci in (spell if tier != "quick" else rng.sample(spell, 5)):
            # a threshold the command line does not give comes from the .bandit file, else it is "everything"
            si = si if si is not None else (isev or 0)
            ci = ci if ci is not None else (iconf or 0)
            ini = os.path.join(d, "sp.ini")
            open(ini, "w").write("[bandit]\n" + (inis or ""))
            r = climain.run_main(["-f", "json", "-q"] + (["--ini", ini] if inis else []) + extra + [f])
            want = [u for u in U if RANKS.index(u["severity"]) >= si and RANKS.index(u["confidence"]) >= ci]
            R.case(("spelling", tuple(extra), inis), nontrivial=True, sample={"argv": extra, "ini": inis, "exit": r["exit"]})
            R.count("system:spelling")
            inp = {"argv": extra, "ini": inis, "file": f}
            if r["exception"]:
                R.violations.append({"what": "threshold spelling %s ends in a traceback (%s)" % (extra, r["exception"]), "input": inp, "observed": r["traceback"], "signature": None})
                continue
            got = reports.parse("json", r["stdout"])["records"] or []
            if sorted((x["test_id"], x["line"]) for x in got) != sorted((x["test_id"], x["line"]) for x in want) or r["exit"] != (1 if want else 0):
                R.violations.append({"what": "thresholds spelled %s%s: %d findings reported (exit %s), %d meet severity>=%s confidence>=%s" % (
                    extra, " next to a .bandit file saying %r" % inis if inis else "", len(got), r["exit"], len(want), RANKS[si], RANKS[ci]),
                    "input": inp, "observed": [(x["test_id"], x["severity"], x["confidence"]) for x in got][:8], "signature": None})
    for bad in ("level = 5", "confidence = 9", "level = -1", "level = 0x", "confidence = 4.5"):
        ini = os.path.join(d, "bad.ini")
        open(ini, "w").write("[bandit]\n%s\n" % bad)
        r = climain.run_main(["-f", "json", "-q", "--ini", ini, f])
        R.case(("ini-bad", bad), nontrivial=True, sample={"ini": bad, "exit": r["exit"], "exception": r["exception"]})
        R.count("usage")
        if r["exception"] or r["exit"] != 2:
            R.violations.append({"what": "'%s' in a .bandit file: %s instead of a diagnostic and exit status 2" % (bad, r["exception"] or "exit %s" % r["exit"]),
                                 "input": {"ini": bad}, "observed": (r["traceback"] or "")[-300:], "signature": None})
    # usage / configuration errors: exit 2, diagnostic, no traceback
    tgt = files[0]
    for argv, what in USAGE_ERRORS:
        clean = os.path.join(d, "zz_clean.py")
        open(clean, "w").write("zz_nothing = 1\n")
        a = [tgt if x == "T" else clean if x == "CLEAN" else x for x in argv]
        r = climain.run_main(a)
        R.case(("usage", tuple(argv)), nontrivial=True, sample={"argv": argv, "exit": r["exit"], "exception": r["exception"]})
        R.count("usage")
        if r["exception"]:
            R.violations.append({"what": "usage error '%s' ends in a traceback (%s) instead of exit status 2" % (what, r["exception"]),
                                 "input": {"argv": argv}, "observed": r["traceback"],
                                 "signature": "count-flag-overflow" if ("-llll" in argv or "-iiii" in argv or "-lllll" in argv) else None})
        elif r["exit"] != 2:
            R.violations.append({"what": "usage error '%s' exits %s, expected 2" % (what, r["exit"]), "input": {"argv": argv},
                                 "observed": r["exit"], "signature": None})
        elif not (r["stderr"].strip() or r["stdout"].strip()):
            R.violations.append({"what": "usage error '%s' exits 2 without a diagnostic" % what, "input": {"argv": argv},
                                 "observed": "", "signature": None})


def baseline_unit(R, rng, tier):
    """results_count / get_issue_list under a baseline on synthetic result lists and baselines (multisets of identities, all
    thresholds, exit-zero) vs the model's exit_status_b; and the statement: the count is the number of listed findings."""
    import itertools as it
    idents = [("B101", "LOW", "HIGH"), ("B102", "MEDIUM", "MEDIUM"), ("B602", "HIGH", "LOW"), ("B101", "LOW", "MEDIUM")]

    def mk(k, line):
        from bandit.core import issue
        tid, sev, conf = idents[k]
        i = issue.Issue(severity=sev, confidence=conf, text="text-%s" % tid, test_id=tid, lineno=line)
        i.fname, i.test, i.linerange = "f.py", "t_" + tid, [line]
        return i

    def bcoq(i):
        return "(%s, %s)" % (L.pstr(i.fname), finding_coq(i))
    multisets = [c for n in range(0, 4) for c in it.combinations_with_replacement(range(len(idents)), n)]
    pairs = list(it.product(multisets, multisets))
    pairs = rng.sample(pairs, 60 if tier == "quick" else 900)
    cases, meta = [], []
    for base_ms, cur_ms in pairs:
        base = [mk(k, 100 + j) for j, k in enumerate(base_ms)]
        cur = [mk(k, 1 + j) for j, k in enumerate(cur_ms)]
        for st, ct in (list(it.product(RANKS, RANKS)) if tier != "quick" else rng.sample(list(it.product(RANKS, RANKS)), 4)):
            mgr = impl.make_manager()
            mgr.results = list(cur)
            mgr.baseline = list(base)
            lst = mgr.get_issue_list(sev_level=st, conf_level=ct)
            cnt = mgr.results_count(sev_filter=st, conf_filter=ct)
            listed = list(lst)
            inp = {"baseline": [idents[k] for k in base_ms], "results": [idents[k] for k in cur_ms], "sev": st, "conf": ct}
            R.case(("bunit", base_ms, cur_ms, st, ct), nontrivial=bool(base_ms) and bool(cur_ms), sample=dict(inp, listed=len(listed), count=cnt))
            R.count("baseline-unit")
            if cnt != len(listed):
                R.violations.append({"what": "results_count is %d but get_issue_list lists %d findings under a baseline (the exit status is decided on the count, the report written from the list)" % (cnt, len(listed)),
                                     "input": inp, "observed": {"count": cnt, "listed": len(listed)}, "signature": None})
            for ez in (False, True):
                code = 1 if (cnt > 0 and not ez) else 0
                cases.append(("(%s, %s, %s, %s, %s)" % (L.pstr(st), L.pstr(ct), L.B(ez), L.lst([bcoq(i) for i in base], "bissue"), L.lst([bcoq(i) for i in cur], "bissue")),
                              "(Exit %s, %s)" % (L.Z(code), L.lst([bcoq(i) for i in listed], "bissue"))))
                meta.append(dict(inp, exit_zero=ez))
    imports = "From Bandit Require Import Cli.Thresholds Cli.ExitBaseline Manager.BaselineFilter Gen.Constants Gen.IssueFields.\n"
    extra = ("Definition beq (a b : bissue) := pstr_eqb (fst a) (fst b) && finding_eqb (snd a) (snd b).\n"
             "Definition outb (x : outcome * report) : outcome * list bissue := (fst x, listed (snd x)).\n"
             "Definition outb_eqb (a b : outcome * list bissue) : bool :=\n"
             "  match fst a, fst b with Exit x, Exit y => Z.eqb x y | _, _ => false end && list_eqb beq (snd a) (snd b).\n")
    mm, br = core.unit_corr(imports, "fun x => match x with (s, c, ez, bl, rs) => outb (exit_status_b (issue_eqb_on MATCH_TYPES) (thr_of RANKING s c) ez bl rs) end",
                            "pstr * pstr * bool * list bissue * list bissue", "outcome * list bissue", "outb_eqb", cases, label="c03b", extra_defs=extra)
    R.broken.extend(br)
    for i, tail in mm[:10]:
        R.broken.append({"what": "correspondence: exit_status_b model vs results_count/get_issue_list under a baseline differ",
                         "input": meta[i], "implementation": cases[i][1][:400], "model_output_excerpt": tail[:600]})


def baseline_cases(R, rng, tier):
    """With -b the report lists the findings the baseline does not account for; the exit status is decided on that same
    list: 1 exactly when the report lists a finding (at the thresholds in force), for the formats that support a baseline."""
    d = os.path.join(impl.scratch(), "c03b")
    os.makedirs(d, exist_ok=True)
    old = "import pickle\nassert zz_a\nzz_q = eval(zz_b)\n"
    variants = [("unchanged", old), ("one more", old + "exec(zz_c)\n"), ("one more of a baselined kind", old + "assert zz_d\n"),
                ("one fewer", "import pickle\nassert zz_a\n"), ("moved", "\n\n" + old), ("all new", "import subprocess\nsubprocess.call(zz_c, shell=True)\n")]
    tgt = os.path.join(d, "prog.py")
    bl = os.path.join(d, "base.json")
    open(tgt, "w").write(old)
    r0 = climain.run_main(["-q", "-f", "json", "-o", bl, "--exit-zero", tgt])
    if r0["exception"] or not os.path.exists(bl):
        R.violations.append({"what": "could not write a baseline report", "input": old, "observed": r0["exception"], "signature": None})
        return
    for name, src in variants:
        open(tgt, "w").write(src)
        for fmt in ("json", "txt", "html"):
            for thr in ([], ["-ll"], ["-ii"], ["-lll", "-iii"]) if tier != "quick" or fmt == "json" else ([], ["-ll"]):
                out = os.path.join(d, "rep.out")
                if os.path.exists(out):
                    os.remove(out)
                argv = ["-q", "-b", bl, "-f", fmt] + thr
                r = climain.run_main(argv + ["-o", out, tgt])
                text = open(out, encoding="utf-8").read() if os.path.exists(out) else ""
                R.case(("baseline", name, fmt, tuple(thr)), nontrivial=True, sample={"variant": name, "argv": argv, "exit": r["exit"]})
                R.count("system:baseline")
                inp = {"baseline_of": old, "scanned": src, "argv": argv + ["-o", "<out>", "prog.py"]}
                if r["exception"] or r["exit"] not in (0, 1):
                    R.violations.append({"what": "baseline run (%s) ends with %s" % (name, r["exception"] or "exit %s" % r["exit"]), "input": inp,
                                         "observed": (r["traceback"] or r["stderr"] or "")[-400:], "signature": None})
                    continue
                if fmt == "json":
                    n = len(json.loads(text)["results"]) if text else 0
                elif fmt == "html":
                    n = text.count('<div id="issue-')
                else:
                    n = text.count(">> Issue: ")
                if (r["exit"] == 1) != (n > 0):
                    R.violations.append({"what": "with a baseline (%s) the %s report lists %d findings but the exit status is %s" % (name, fmt, n, r["exit"]),
                                         "input": inp, "observed": {"exit": r["exit"], "listed": n}, "signature": None})


def run(R, replay=None):
    rng = random.Random(R.seed)
    for f in core.gen():
        R.broken.append({"what": "translator failed: " + f["translator"], "log": f["stderr"]})
    R.proof = core.prove(PROP_FILES, DEPS)
    for f in R.proof["failed"]:
        R.broken.append({"what": "proof obligation no longer checks: %s (%s) %s" % (f["file"], f["why"], f.get("theorem") or ""),
                         "log": f.get("log", "")})
    R.rule = ("unit: synthetic finding lists over all 16 (severity, confidence) pairs x 16 thresholds x exit-zero through "
              "filter_results/results_count vs the model's exit_status; system: bandit.cli.main.main() in-process on programs x "
              "threshold spellings x formats x exit-zero x quiet/verbose, reports parsed with standard parsers; usage-error argv list. "
              "non-trivial = the finding list is non-empty")
    unit_cases(R, rng, R.tier)
    system_cases(R, rng, R.tier)
    baseline_unit(R, rng, R.tier)
    baseline_cases(R, rng, R.tier)
    R.disagreements_checked = R.evaluations
