"""C02 - nosec suppresses exactly the findings it names, on the lines it marks."""
import io
import itertools
import random
import re
import tokenize

import core
import coqlit as L
import impl
import scancorr

PROP_FILES = ["theories/Props/C02.v", "theories/Inst/C02_inst.v"]
DEPS = ["theories/Proofs/C02_proofs.vo", "theories/Proofs/C02_visitor.vo", "theories/Plugins/All.vo",
        "theories/Gen/Registry.vo", "theories/Gen/Regexes.vo", "theories/Gen/Blacklists.vo", "theories/Gen/Constants.vo"]

SORT_DEFS = """Fixpoint pstr_leb (a b : pstr) : bool := match a, b with [] , _ => true | _ :: _, [] => false | x :: a', y :: b' => if N.ltb x y then true else if N.ltb y x then false else pstr_leb a' b' end.
Fixpoint ins (x : pstr) (l : list pstr) : list pstr := match l with [] => [x] | y :: t => if pstr_leb x y then x :: l else y :: ins x t end.
Definition sortp (l : list pstr) := fold_right ins [] l.
Definition oeq (a b : option (list pstr)) := match a, b with None, None => true | Some x, Some y => list_eqb pstr_eqb (sortp x) (sortp y) | _, _ => false end.
"""

ATOMS = ["#", "# ", "#\t", "nosec", "NOSEC", "nosec:", " ", "  ", "B101", "B602", "b101", "B101,B603", ", ", ",", "assert_used",
         "blacklist", "import_pickle", "pickle", "random", "md5", "B001", "B999", "foo", "bar because", "#", "# noqa",
         "type: ignore", " ", " ", "١٢٣", "Bſ", "ſ", "K", "_", "B10", "1", "x#y", ":", "::",
         "subprocess_popen_with_shell_equals_true", "B607 B602", "B607, B602", ";", "(reason)", "-", "B602.", "nosecB101"]

# statement-level comment texts: (text, kind, ids named)  -- only forms the statement speaks about
TEXTS = [
    ("# nosec", "bare", None), ("#nosec", "bare", None), ("# nosec:", "bare", None),
    ("# nosec {A}", "names", ["A"]), ("# nosec: {A}", "names", ["A"]), ("# nosec {An}", "names", ["A"]),
    ("# nosec {A}, {B}", "names", ["A", "B"]), ("# nosec {A},{B}", "names", ["A", "B"]), ("# nosec {A} {B}", "names", ["A", "B"]),
    ("# nosec {B}", "names", ["B"]), ("# nosec {Bn}, {A}", "names", ["A", "B"]),
    ("# type: ignore # nosec {A}", "names", ["A"]), ("# nosec {A} # noqa", "names", ["A"]),
    ("# noqa", "ordinary", None), ("# a comment about nosec-free code", "ordinary", None), ("# no sec", "ordinary", None),
]

# statements: (lines, finding test ids that the statement produces)
STMTS = [
    (["assert zz_x"], ["B101"]),
    (["assert (zz_x,", "        zz_y)"], ["B101"]),
    (["import subprocess"], ["B404"]),
    (["subprocess.Popen(zz_c,", "                 shell=True)"], ["B602"]),
    (["subprocess.Popen(zz_c,", "                 stdin=None,", "                 shell=True)"], ["B602"]),
    (["subprocess.call('ls',", "                shell=False)"], ["B603", "B607"]),
    (["zz_password = 'hunter2'"], ["B105"]),
    (["zz_f(zz_a,", "     '/tmp/zz',", "     zz_b)"], ["B108"]),
    (["exec(zz_s)"], ["B102"]),
    # a finding reported on a later line of its statement (the shell= keyword) with another finding nested on that very line
    (["subprocess.Popen(zz_c,", "                 stdin=None,", "                 shell=True, env={'k': hashlib.md5(zz_b)})"], ["B602", "B324"]),
    (["zz_r = zz_wrap(subprocess.call('ls',", "    shell=True),", "    pickle.loads(zz_p))"], ["B602", "B607", "B301"]),
    (["zz_d = {", "    'k': '0.0.0.0',", "}"], ["B104"]),
    # literal pieces of an f-string inside a multi-line call: the flagged expression is the f-string, not the call (seeded C02-M)
    (["zz_f(zz_a,", "     f'/tmp/{zz_x}',", "     zz_b)"], ["B108"]),
    (["zz_cur.execute(", "    f'SELECT * FROM zz_t WHERE id = {zz_x}',", "    zz_p,", "    zz_q)"], ["B608"]),
    (["zz_f(zz_a,", "     f'/tmp/{zz_x}'", "     f'/var/tmp/{zz_y}',", "     zz_b)"], ["B108"]),
]
NAMES = {"B324": "hashlib_insecure_functions", "B301": "pickle", "B101": "assert_used", "B404": "import_subprocess", "B602": "subprocess_popen_with_shell_equals_true",
         "B603": "subprocess_without_shell_equals_true", "B607": "start_process_with_partial_path",
         "B105": "hardcoded_password_string", "B108": "hardcoded_tmp_directory", "B102": "exec_used",
         "B104": "hardcoded_bind_all_interfaces", "B608": "hardcoded_sql_expressions"}
OTHER = "B324"


def comments_of(data):
    out = []
    try:
        for tok in tokenize.tokenize(io.BytesIO(data).readline):
            if tok.type == tokenize.COMMENT:
                out.append((tok.start[0], tok.string))
    except tokenize.TokenError:
        pass
    return out


def unit_parse(R, rng, tier):
    from bandit.core import manager as m
    n = 1200 if tier == "quick" else 40000
    cases, srcs, seen = [], [], set()
    for _ in range(n):
        c = "".join(rng.choice(ATOMS) for _ in range(rng.randint(1, 7)))
        if c in seen:
            continue
        seen.add(c)
        srcs.append(c)
        r = m._parse_nosec_comment(c)
        cases.append((L.pstr(c), "None" if r is None else "(Some %s)" % L.lst([L.pstr(x) for x in sorted(r)], "pstr")))
        R.case(("parse", c), nontrivial=r is not None, sample={"comment": c, "parsed": None if r is None else sorted(r)})
        R.count("parse:" + ("none" if r is None else "bare" if not r else "specific"))
    # every registered test, by ID and by name (plugin names and blacklist names, whatever their capitalisation):
    # a comment naming one test resolves to exactly that test's ID
    from bandit.core import extension_loader
    ext = extension_loader.MANAGER
    reg = {p.plugin._test_id: p.name for p in ext.plugins}
    for bid, info in ext.blacklist_by_id.items():
        reg[bid] = info["name"].replace("-", "_") if bid not in reg else reg[bid]
    for tid, name in sorted(reg.items()):
        for c, want in (("# nosec %s" % tid, {tid}), ("# nosec %s" % name, {tid}), ("#nosec: %s, B101" % name, {tid, "B101"}),
                        ("# nosec %s" % name.upper(), None if name.upper() != name else {tid})):
            if c in seen:
                continue
            seen.add(c)
            srcs.append(c)
            r = m._parse_nosec_comment(c)
            cases.append((L.pstr(c), "None" if r is None else "(Some %s)" % L.lst([L.pstr(x) for x in sorted(r)], "pstr")))
            R.case(("parse", c), nontrivial=True, sample={"comment": c, "parsed": None if r is None else sorted(r)})
            R.count("parse:registered-name-or-id")
            if want is not None and (r is None or set(r) != want):
                R.violations.append({"what": "a nosec comment naming %s resolves to %s instead of exactly %s" % (
                    c.split("nosec", 1)[1].strip(": "), None if r is None else sorted(r), sorted(want)), "input": {"comment": c},
                    "observed": None if r is None else sorted(r), "signature": None})
    imports = "From Bandit Require Import Regex.Regex Manager.Registry Manager.NosecParse Gen.Regexes Gen.Registry Gen.Blacklists.\n"
    mm, br = core.unit_corr(imports, "parse_nosec cs_nosec_space cs_nosec_token registry blacklist builtin_ids", "pstr",
                            "option (list pstr)", "oeq", cases, extra_defs=SORT_DEFS, label="c02p")
    R.broken.extend(br)
    for i, tail in mm:
        R.broken.append({"what": "correspondence: _parse_nosec_comment differs from the NosecParse model", "input": srcs[i],
                         "implementation": cases[i][1][:300], "model_output_excerpt": tail[:500]})


def unit_decision(R, rng, tier):
    from bandit.core import tester as bt
    n = 800 if tier == "quick" else 20000
    pool = [set(), {"B101"}, {"B602"}, {"B101", "B607"}, {"B999x"}, None]
    cases, descr = [], []
    for _ in range(n):
        lines = rng.sample(range(1, 8), rng.randint(0, 4))
        nl = {l: (set(x) if x is not None else None) for l in lines for x in [rng.choice(pool)]}
        a = rng.randint(1, 6)
        lr = list(range(a, a + rng.randint(0, 3)))
        if rng.random() < 0.1:
            lr = rng.choice([[0, 1], [0]])
        ln = rng.choice([None, rng.randint(1, 7)])
        t = bt.BanditTester(None, False, nl, None)

        class Res:
            lineno = ln
        got = t._get_nosecs_from_contexts({"linerange": lr}, test_result=Res())
        mp = L.lst([L.pair(L.Z(k), L.lst([L.pstr(x) for x in sorted(v)], "pstr")) for k, v in sorted(nl.items()) if v is not None], "Z * list pstr")
        cases.append(("(%s, %s, %s)" % (mp, L.lst([L.Z(x) for x in lr], "Z"), L.opt(ln, L.Z, "Z")),
                      "None" if got is None else "(Some %s)" % L.lst([L.pstr(x) for x in sorted(got)], "pstr")))
        descr.append({"nosec_lines": {k: (sorted(v) if v is not None else None) for k, v in nl.items()}, "linerange": lr, "lineno": ln})
        R.case(("dec", repr(descr[-1])), nontrivial=got is not None, sample=dict(descr[-1], result=None if got is None else sorted(got)))
        R.count("decision:" + ("none" if got is None else "bare" if not got else "specific"))
        # the statement: withheld-for-id iff a comment on the reported line or the span is bare or names it
        for tid in ("B101", "B602", "B607", "B324"):
            code = got is not None and (not got or tid in got)
            spec = any(nl.get(l) is not None and (not nl[l] or tid in nl[l]) for l in ([ln] if ln is not None else []) + lr)
            if code != spec:
                R.violations.append({"what": "nosec decision for %s is %s but the comments on the reported line/span say %s" % (tid, code, spec),
                                     "input": descr[-1], "observed": None if got is None else sorted(got), "signature": None})
    imports = "From Bandit Require Import Engine.Tester.\n"
    mm, br = core.unit_corr(imports, "fun x => match x with (m, lr, ln) => nosecs_from_contexts m lr ln end",
                            "nosec_map * list Z * option Z", "option (list pstr)", "oeq", cases, extra_defs=SORT_DEFS, label="c02d")
    R.broken.extend(br)
    for i, tail in mm:
        R.broken.append({"what": "correspondence: _get_nosecs_from_contexts differs from the model", "input": descr[i],
                         "implementation": cases[i][1][:300], "model_output_excerpt": tail[:500]})


_FS_CACHE = {}


def fstring_span(src, r):
    """Lines of the f-string whose literal piece a string-based finding flags (None when the finding is not on such a piece):
    computed from CPython's tree, independently of the range bandit reports."""
    if r["test_id"] not in ("B104", "B105", "B106", "B107", "B108", "B608"):
        return None
    if src not in _FS_CACHE:
        import ast
        spans = {}
        try:
            for n in ast.walk(ast.parse(src)):
                if isinstance(n, ast.JoinedStr):
                    for v in n.values:
                        if isinstance(v, ast.Constant) and isinstance(v.value, str):
                            spans[(v.lineno, v.col_offset)] = set(range(n.lineno, n.end_lineno + 1))
        except SyntaxError:
            pass
        _FS_CACHE.clear()
        _FS_CACHE[src] = spans
    return _FS_CACHE[src].get((r["lineno"], r["col"]))


def render(text, a, b):
    return text.replace("{A}", a).replace("{B}", b).replace("{An}", NAMES.get(a, a)).replace("{Bn}", NAMES.get(b, b))


def system(R, rng, tier):
    progs, meta = [], []
    n_per = 14 if tier == "quick" else 160
    for lines, tids in STMTS:
        for _ in range(n_per):
            k = rng.randint(0, min(3, len(lines) + 1))
            spots = rng.sample(range(-1, len(lines) + 1), min(k, len(lines) + 2))   # -1: line before, len: line after
            placed = {}
            # in some files every marker is written with several blanks (or a tab and a blank) after the '#', and nowhere else
            wide = rng.random() < 0.25
            for s in spots:
                text, kind, ids = rng.choice(TEXTS)
                a = rng.choice(tids + [OTHER])
                b = rng.choice(tids + [OTHER, "B110"])
                t_ = render(text, a, b)
                if wide:
                    t_ = re.sub(r"#[ \t]?(?=nosec)", rng.choice(["#  ", "#   ", "#\t ", "#    "]), t_)
                placed[s] = (t_, kind, None if ids is None else [a if x == "A" else b for x in ids])
            pre = ["import subprocess  # zz"] if any("subprocess." in l for l in lines) else []
            if any("hashlib." in l or "pickle." in l for l in lines):
                pre = pre + ["import hashlib, pickle  # zz"]
            body = list(pre)
            if -1 in placed:
                body.append("zz_before = 1  " + placed[-1][0])
            else:
                body.append("zz_before = 1")
            first = len(body) + 1
            for i, l in enumerate(lines):
                body.append(l + ("  " + placed[i][0] if i in placed else ""))
            if len(lines) in placed:
                body.append("zz_after = 2  " + placed[len(lines)][0])
            body.append("zz_s = 'x = 1  #  nosec'" if wide else "zz_s = 'x = 1  # nosec'")
            if rng.random() < 0.3:
                body.append("# zz \u202e a file-level finding (B613) far from every nosec comment")
            src = "\n".join(body) + "\n"
            progs.append({"src": src, "include": None})
            meta.append({"first": first, "n": len(lines), "placed": {first + i: v for i, v in placed.items() if 0 <= i < len(lines)},
                         "outside": {(first - 1 if i == -1 else first + len(lines)): v for i, v in placed.items() if i in (-1, len(lines))},
                         "tids": tids})
    # file-level findings: a comment on the first line of the file, a statement, and a bidirectional control character
    # far below (B613 is reported for that line by a check that sees the whole file)
    for lines, tids in STMTS:
        for text, kind, ids in TEXTS:
            a = rng.choice(tids + [OTHER, "B613"])
            b = rng.choice(tids + [OTHER, "B613"])
            placed_text = render(text, a, b)
            pre = ["import subprocess  # zz"] if any("subprocess." in l for l in lines) else []
            body = ["zz_before = 1  " + placed_text] + pre
            first = len(body) + 1
            body += list(lines) + ["zz_after = 2", "# zz \u202e"]
            progs.append({"src": "\n".join(body) + "\n", "include": None})
            meta.append({"first": first, "n": len(lines), "placed": {}, "tids": tids,
                         "outside": {1: (placed_text, kind, None if ids is None else [a if x == "A" else b for x in ids])}})
    outs, mism, broken = scancorr.run_cases(progs, R, "c02s")
    # the same programs with CRLF and with lone-CR line ends: the same findings are reported and withheld on the same lines
    for p_, o_ in list(zip(progs, outs))[:: (7 if tier == "quick" else 1)]:
        for nl_name, nl in (("CRLF", "\r\n"), ("CR", "\r")):
            o2 = impl.scan_bytes(p_["src"].replace("\n", nl).encode())
            R.count("line-ends:" + nl_name)
            a = sorted((r["test_id"], r["lineno"]) for r in o_["results"] if r["test_id"] != "B613")
            b = sorted((r["test_id"], r["lineno"]) for r in o2["results"] if r["test_id"] != "B613")
            if a != b or (o_["nosec"], o_["skipped_tests"]) != (o2["nosec"], o2["skipped_tests"]):
                R.violations.append({"what": "with %s line ends other findings are reported or withheld than with LF" % nl_name, "input": p_["src"],
                                     "observed": {"lf": a, nl_name: b, "counters_lf": (o_["nosec"], o_["skipped_tests"]), "counters": (o2["nosec"], o2["skipped_tests"])},
                                     "signature": None})
    R.broken.extend(broken)
    for i, tail in mism[:30]:
        R.broken.append({"what": "correspondence: model scan and bandit differ on a nosec placement program", "input": progs[i]["src"],
                         "implementation": {k: outs[i][k] for k in ("results", "errors", "nosec", "skipped_tests", "nosec_lines")},
                         "model_output_excerpt": tail[:1200]})
    # comment map: tokenizer output -> build_map model
    cases = []
    for p, o in zip(progs, outs):
        cm = comments_of(p["src"].encode())
        cases.append((L.lst([L.pair(L.Z(l), L.pstr(t)) for l, t in cm], "Z * pstr"), impl.nosec_map_coq(o["nosec_lines"])))
    imports = "From Bandit Require Import Regex.Regex Manager.Registry Manager.NosecParse Gen.Regexes Gen.Registry Gen.Blacklists.\n"
    extra = SORT_DEFS + "Definition meq (a b : list (Z * list pstr)) := list_eqb (fun x y => Z.eqb (fst x) (fst y) && list_eqb pstr_eqb (sortp (snd x)) (sortp (snd y))) a b.\n"
    mm, br = core.unit_corr(imports, "build_map cs_nosec_space cs_nosec_token registry blacklist builtin_ids", "list (Z * pstr)",
                            "list (Z * list pstr)", "meq", cases, extra_defs=extra, label="c02m", shard=200)
    R.broken.extend(br)
    for i, tail in mm[:10]:
        R.broken.append({"what": "correspondence: nosec_lines differs from build_map over the COMMENT tokens", "input": progs[i]["src"],
                         "implementation": cases[i][1][:300], "model_output_excerpt": tail[:500]})
    # statement-level oracle
    for p, o, mt in zip(progs, outs, meta):
        o2 = impl.scan_bytes(p["src"].encode(), ignore_nosec=True)
        allf = o2["results"]
        rep = o["results"]
        R.case(p["src"], nontrivial=bool(mt["placed"]) or bool(mt["outside"]),
               sample={"src": p["src"], "reported": [(r["test_id"], r["lineno"]) for r in rep],
                       "with_ignore_nosec": [(r["test_id"], r["lineno"]) for r in allf], "nosec": o["nosec"], "skipped_tests": o["skipped_tests"]})
        R.count("placements:%d" % len(mt["placed"]))
        key = lambda r: (r["test_id"], r["lineno"], r["col"], r["text"])
        if [key(r) for r in allf if key(r) in {key(x) for x in rep}] != [key(r) for r in rep]:
            R.violations.append({"what": "findings reported with nosec handling are not a sub-list of the --ignore-nosec findings (a finding changed)",
                                 "input": p["src"], "observed": [key(r) for r in rep], "signature": None})
        withheld = [r for r in allf if key(r) not in {key(x) for x in rep}]
        if o["nosec"] + o["skipped_tests"] != len(withheld):
            R.violations.append({"what": "nosec(%d)+skipped_tests(%d) != %d findings withheld" % (o["nosec"], o["skipped_tests"], len(withheld)),
                                 "input": p["src"], "observed": o["metrics"], "signature": None})
        for r in allf:
            if r["lineno"] < mt["first"] or r["lineno"] >= mt["first"] + mt["n"]:
                if key(r) not in {key(x) for x in rep}:
                    # a finding outside the statement was withheld: only legitimate if a comment sits on its own line
                    if r["lineno"] not in mt["outside"] or mt["outside"][r["lineno"]][1] == "ordinary":
                        R.violations.append({"what": "finding %s on line %d withheld although no nosec comment is on its line or span" % (r["test_id"], r["lineno"]),
                                             "input": p["src"], "observed": None, "signature": None})
                continue
            span = set(r["linerange"]) | {r["lineno"]}
            fs = fstring_span(p["src"], r)
            if fs is not None:
                # the flagged expression is an f-string: its own lines are the span, whatever range the report carries
                span = fs | {r["lineno"]}
            relevant = [v for l, v in mt["placed"].items() if l in span]
            want = any(kind == "bare" or (kind == "names" and r["test_id"] in ids) for _, kind, ids in relevant)
            got = key(r) not in {key(x) for x in rep}
            if want != got:
                R.violations.append({"what": "finding %s (line %d, span %s) %s withheld, but the nosec comments on its line/span %s"
                                             % (r["test_id"], r["lineno"], sorted(span), "is" if got else "is not",
                                                "name it or are bare" if want else "do not name it"),
                                     "input": p["src"], "observed": {"reported": [(x["test_id"], x["lineno"]) for x in rep]}, "signature": None})
    return len(progs)


def cli_counters(R, rng, tier):
    """Through the command line, for targets of every spelling: the run's nosec and skipped_tests totals equal the number of
    findings the same run reports in addition under --ignore-nosec."""
    import climain
    import json
    import os
    import shutil
    d = os.path.join(impl.scratch(), "c02c")
    shutil.rmtree(d, ignore_errors=True)
    os.makedirs(os.path.join(d, "_vendor"))
    os.makedirs(os.path.join(d, "src"))
    files = {"_vendor/a.py": "assert a  # nosec\nassert b  # nosec B101\nassert c  # nosec B602\n",
             "src/b.py": "import subprocess\nsubprocess.Popen('ls *', shell=True)  # nosec\nexec(x)  # nosec exec_used\n",
             "_top.py": "assert t  # nosec\n"}
    for f, src in files.items():
        open(os.path.join(d, f), "w").write(src)
    for ts in (["-r", "_vendor"], ["-r", "_vendor", "src"], ["-r", "."], ["-r", "./_vendor"], ["_top.py"], ["-r", "src", "_top.py"]):
        a = climain.run_main(["-q", "-f", "json", "--exit-zero"] + ts, cwd=d)
        b = climain.run_main(["-q", "-f", "json", "--exit-zero", "--ignore-nosec"] + ts, cwd=d)
        R.case(("cli", tuple(ts)), nontrivial=True, sample={"targets": ts})
        R.count("cli-counters")
        if a["exception"] or b["exception"]:
            R.violations.append({"what": "no report for targets %s" % ts, "input": {"targets": ts}, "observed": a["exception"] or b["exception"], "signature": None})
            continue
        ja, jb = json.loads(a["stdout"]), json.loads(b["stdout"])
        withheld = len(jb["results"]) - len(ja["results"])
        tot = ja["metrics"]["_totals"]
        if tot["nosec"] + tot["skipped_tests"] != withheld:
            R.violations.append({"what": "targets %s: nosec(%d)+skipped_tests(%d) != %d findings withheld" % (ts, tot["nosec"], tot["skipped_tests"], withheld),
                                 "input": {"targets": ts, "files": files}, "observed": tot, "signature": None})
    shutil.rmtree(d, ignore_errors=True)


def run(R, replay=None):
    rng = random.Random(R.seed)
    for f in core.gen():
        R.broken.append({"what": "translator failed: " + f["translator"], "log": f["stderr"]})
    R.proof = core.prove(PROP_FILES, DEPS)
    for f in R.proof["failed"]:
        R.broken.append({"what": "proof obligation no longer checks: %s (%s) %s" % (f["file"], f["why"], f.get("theorem") or ""),
                         "log": f.get("log", "")})
    R.rule = ("(1) comment strings from a grammar of the nosec mini-language through _parse_nosec_comment vs the NosecParse model; "
              "(2) random comment maps / spans / reported lines through _get_nosecs_from_contexts vs the model and vs the statement; "
              "(3) single- and multi-line statements of ten finding kinds x 0-3 comments (bare, ids, names, mixed, separators, other "
              "pragmas, ordinary) on/before/after their lines, scanned with and without --ignore-nosec: whole-scan correspondence, "
              "comment map vs build_map over the COMMENT tokens, and the statement itself; non-trivial = a nosec comment is involved")
    unit_parse(R, rng, R.tier)
    unit_decision(R, rng, R.tier)
    system(R, rng, R.tier)
    cli_counters(R, rng, R.tier)
    R.disagreements_checked = R.evaluations
