"""C20 - bandit-baseline leaves the git repository as it found it."""
import itertools
import os
import random
import shutil
import stat
import subprocess
import sys
import tempfile

import climain
import core
import coqlit as L
import impl

PROP_FILES = ["theories/Props/C20.v", "theories/Inst/C20_inst.v"]
DEPS = ["theories/Proofs/C20_proofs.vo", "theories/Gen/Ladders.vo"]

SHIM = """#!/bin/sh
# shim for 'bandit': behaves as planned for the n-th invocation (plan in $SHIM_PLAN, counter in $SHIM_STATE)
n=$(cat "$SHIM_STATE" 2>/dev/null || echo 0)
echo $((n+1)) > "$SHIM_STATE"
act=$(echo "$SHIM_PLAN" | cut -d, -f$((n+1)))
case "$act" in
  real) exec env PYTHONPATH=%(repo)s %(py)s -m bandit "$@" 2>/dev/null ;;
  kill) kill -9 $$ ;;
  term) kill -15 $$ ;;
  hup) kill -1 $$ ;;
  *) exit "$act" ;;
esac
"""

RUNS = ["real", "0", "1", "2", "3", "kill", "term", "missing", "interrupt"]
RESETS = ["ok", "GitCommandError", "OSError"]


def git(cwd, *a):
    return subprocess.run(["git"] + list(a), cwd=cwd, capture_output=True, text=True, check=True,
                          env=dict(os.environ, GIT_AUTHOR_NAME="t", GIT_AUTHOR_EMAIL="t@t", GIT_COMMITTER_NAME="t",
                                   GIT_COMMITTER_EMAIL="t@t", GIT_CONFIG_GLOBAL="/dev/null", GIT_CONFIG_SYSTEM="/dev/null")).stdout.strip()


def make_repo(d):
    os.makedirs(d)
    git(d, "init", "-q", "-b", "work")
    open(os.path.join(d, "a.py"), "w").write("assert x\n")
    git(d, "add", ".")
    git(d, "commit", "-q", "-m", "one")
    open(os.path.join(d, "b.py"), "w").write("import pickle\npickle.loads(y)\n")
    git(d, "add", ".")
    git(d, "commit", "-q", "-m", "two")
    return git(d, "rev-parse", "HEAD"), git(d, "rev-parse", "HEAD~1")


def snapshot(d):
    return {"head": git(d, "rev-parse", "HEAD"), "branch": git(d, "rev-parse", "--abbrev-ref", "HEAD"),
            "branch_sha": git(d, "rev-parse", "work"), "status": git(d, "status", "--porcelain", "--untracked-files=all"),
            "files": sorted(os.listdir(d)),
            "content": {f: open(os.path.join(d, f), "rb").read().decode("latin-1") for f in sorted(os.listdir(d)) if os.path.isfile(os.path.join(d, f))}}


def run_baseline(repo, argv, plan, reset_plan, tmpdir, shimdir):
    """plan: two actions for the two bandit invocations ('missing' => no bandit executable on PATH);
    reset_plan: outcome for the 1st, 2nd, 3rd call of repo.head.reset."""
    import git as gitmod
    from bandit.cli import baseline as bb
    state = os.path.join(shimdir, "state")
    if os.path.exists(state):
        os.remove(state)
    missing_at = [i for i, a in enumerate(plan) if a == "missing"]
    interrupt_at = [i for i, a in enumerate(plan) if a == "interrupt"]
    old_env = dict(os.environ)
    real_reset = gitmod.refs.head.HEAD.reset
    calls = {"n": 0}

    def fake_reset(self, *a, **k):
        i = calls["n"]
        calls["n"] += 1
        how = reset_plan[i] if i < len(reset_plan) else "ok"
        if how == "GitCommandError":
            raise gitmod.GitCommandError("git reset", 128)
        if how == "OSError":
            raise OSError(5, "injected")
        return real_reset(self, *a, **k)

    real_co = subprocess.check_output
    inv = {"n": 0}

    def fake_co(cmd, *a, **k):
        i = inv["n"]
        inv["n"] += 1
        if i in missing_at:
            # consume the shim's counter as well so the plan stays aligned
            n = int(open(state).read()) if os.path.exists(state) else 0
            open(state, "w").write(str(n + 1))
            raise FileNotFoundError(2, "No such file or directory: 'bandit'")
        if i in interrupt_at:
            # the user presses ^C while the subprocess runs
            n = int(open(state).read()) if os.path.exists(state) else 0
            open(state, "w").write(str(n + 1))
            raise KeyboardInterrupt()
        return real_co(cmd, *a, **k)

    old_tmp = tempfile.tempdir
    # the tool must never take this process down with it: a signal it sends to itself is turned into an exception
    import signal

    class ToolKilledItself(BaseException):
        pass

    def on_signal(signum, frame):
        raise ToolKilledItself("the tool sent itself signal %d" % signum)
    old_handlers = {sg: signal.signal(sg, on_signal) for sg in (signal.SIGTERM, signal.SIGHUP)}
    try:
        os.environ["PATH"] = shimdir + os.pathsep + old_env.get("PATH", "")
        os.environ["SHIM_PLAN"] = ",".join(a if a not in ("missing", "interrupt") else "0" for a in plan)
        os.environ["SHIM_STATE"] = state
        for k in ("GIT_DIR", "GIT_WORK_TREE"):
            os.environ.pop(k, None)
        tempfile.tempdir = tmpdir
        gitmod.refs.head.HEAD.reset = fake_reset
        subprocess.check_output = fake_co
        bb.bandit_args = list(argv)
        bb.repo = None
        bb.current_commit = None
        r = climain.run_main(argv, cwd=repo, entry="bandit.cli.baseline")
    finally:
        for sg, h in old_handlers.items():
            signal.signal(sg, h)
        subprocess.check_output = real_co
        gitmod.refs.head.HEAD.reset = real_reset
        tempfile.tempdir = old_tmp
        os.environ.clear()
        os.environ.update(old_env)
    return r


def run_baseline_subprocess(repo, argv, plan, tmpdir, shimdir):
    """The tool as its own process (so that whatever it does to itself - exit, signal - is observed from outside)."""
    state = os.path.join(shimdir, "state")
    if os.path.exists(state):
        os.remove(state)
    env = dict(os.environ, PATH=shimdir + os.pathsep + os.environ.get("PATH", ""), SHIM_PLAN=",".join(plan), SHIM_STATE=state,
               TMPDIR=tmpdir, PYTHONPATH=core.REPO)
    for k_ in ("GIT_DIR", "GIT_WORK_TREE"):
        env.pop(k_, None)
    code = "import sys; sys.argv = ['bandit-baseline'] + %r; from bandit.cli import baseline as b; b.main()" % (list(argv),)
    p = subprocess.run([core.PY, "-c", code], cwd=repo, env=env, capture_output=True, text=True, timeout=300)
    return {"exit": p.returncode, "stdout": p.stdout, "stderr": p.stderr}


def run(R, replay=None):
    rng = random.Random(R.seed)
    for f in core.gen():
        R.broken.append({"what": "translator failed: " + f["translator"], "log": f["stderr"]})
    R.proof = core.prove(PROP_FILES, DEPS)
    for f in R.proof["failed"]:
        R.broken.append({"what": "proof obligation no longer checks: %s (%s) %s" % (f["file"], f["why"], f.get("theorem") or ""),
                         "log": f.get("log", "")})
    R.rule = ("scenario enumeration on real temporary git repositories (two commits on a branch): outcome of the first and second "
              "bandit subprocess in {real run, exit 0/1/2/3, killed by SIGKILL/SIGTERM, executable missing, interrupted by ^C} x outcome of each "
              "repo.head.reset in {ok, GitCommandError, OSError} x output format; HEAD, branch, working tree, temporary directory "
              "and exit status observed after bandit-baseline returns and compared with the BaselineTool model and with the "
              "statement; plus the refusal preconditions; non-trivial = every scenario"
              "; files at the old name of a file the current commit renamed")
    base = os.path.join(impl.scratch(), "c20")
    os.makedirs(base, exist_ok=True)
    shimdir = os.path.join(base, "shim")
    os.makedirs(shimdir, exist_ok=True)
    sp = os.path.join(shimdir, "bandit")
    open(sp, "w").write(SHIM % {"repo": core.REPO, "py": core.PY})
    os.chmod(sp, 0o755)
    scen = []
    for r1, r2 in itertools.product(RUNS, RUNS):
        scen.append(((r1, r2), ("ok", "ok", "ok")))
    for i in range(3):
        for how in RESETS[1:]:
            rp = ["ok", "ok", "ok"]
            rp[i] = how
            for runs in (("real", "real"), ("1", "0")):
                scen.append((runs, tuple(rp)))
    if R.tier == "quick":
        keep = [s for s in scen if s[0] in (("real", "real"), ("missing", "0"), ("0", "missing"), ("kill", "1"), ("2", "2"), ("1", "term"),
                                            ("interrupt", "0"), ("1", "interrupt"))]
        rest = [s for s in scen if s not in keep]
        scen = keep + rng.sample(rest, 14)
    else:
        R.exhaustive = True
    cases, descr = [], []
    k = 0
    for runs, resets in scen:
        for fmt in (None, "json") if (R.tier == "thorough" or runs == ("real", "real")) else (None,):
            k += 1
            repo = os.path.join(base, "r%d" % k)
            cur, parent = make_repo(repo)
            tmpd = os.path.join(base, "t%d" % k)
            os.makedirs(tmpd)
            argv = ["a.py", "b.py"] + (["-f", fmt] if fmt else [])
            before = snapshot(repo)
            r = run_baseline(repo, argv, runs, resets, tmpd, shimdir)
            after = snapshot(repo)
            left = os.listdir(tmpd)
            inp = {"bandit_runs": runs, "resets": resets, "format": fmt}
            R.case(("scenario", runs, resets, fmt), sample=dict(inp, exit=r["exit"], exception=r["exception"],
                                                               head_restored=after["head"] == cur, tmp_left=len(left)))
            R.count("run1:" + runs[0])
            R.count("resets:" + ",".join(resets))
            # ---- the statement
            cleanup_reset_ok = True
            n_resets_before_cleanup = 0
            if resets[0] == "ok":
                n_resets_before_cleanup = 1
                if runs[0] not in ("missing", "interrupt") and resets[1] == "ok":
                    n_resets_before_cleanup = 2
            cleanup_how = resets[n_resets_before_cleanup] if n_resets_before_cleanup < 3 else "ok"
            if cleanup_how == "ok":
                problems = []
                if after["head"] != cur or after["branch_sha"] != cur or after["branch"] != before["branch"]:
                    problems.append("HEAD/branch not restored (HEAD %s, branch %s->%s, expected %s)" % (after["head"][:8], after["branch"], after["branch_sha"][:8], cur[:8]))
                extra = set(after["files"]) - set(before["files"])
                allowed = {"bandit_baseline_result.%s" % fmt} if fmt else set()
                if extra - allowed or [l for l in after["status"].splitlines() if l[3:] not in allowed]:
                    problems.append("working tree changed: %r" % after["status"])
                if left:
                    problems.append("temporary directory left behind: %s" % left)
                if problems:
                    sig = "cleanup-not-in-finally" if (r["exception"] and (after["head"] == parent or left)) else None
                    R.violations.append({"what": "repository not restored after bandit-baseline: " + "; ".join(problems), "input": inp,
                                         "observed": {"exit": r["exit"], "exception": r["exception"]}, "signature": sig})
            if all(x in ("real", "0", "1", "2", "3") for x in runs) and resets == ("ok", "ok", "ok") and runs[1] != "real":
                if r["exit"] != int(runs[1]):
                    R.violations.append({"what": "exit status %s is not that of the comparison run (%s)" % (r["exit"], runs[1]), "input": inp,
                                         "observed": r["exit"], "signature": None})
            # ---- the model
            def ro(x):
                return "ResetDone" if x == "ok" else "(ResetRaised %s)" % L.pstr("git.GitCommandError" if x == "GitCommandError" else "OSError")
            def ru(x):
                if x == "missing":
                    return "(Raised %s)" % L.pstr("FileNotFoundError")
                if x == "interrupt":
                    return "(Raised %s)" % L.pstr("KeyboardInterrupt")
                code = {"real": None, "kill": -9, "term": -15}.get(x, None)
                if x in ("0", "1", "2", "3"):
                    code = int(x)
                if code is None:
                    code = 1 if x == "real" else 0
                return "(Exited %s)" % L.Z(code)
            # which reset outcome belongs to which role depends on how far the run got; give the model the roles
            roles = list(resets)
            if resets[0] != "ok":
                role = (resets[0], "ok", resets[1])
            elif runs[0] in ("missing", "interrupt"):
                role = ("ok", "ok", resets[1])
            elif resets[1] != "ok":
                role = ("ok", resets[1], resets[2])
            else:
                role = ("ok", "ok", resets[2])
            scoq = "(Scenario %s %s %s %s %s)" % (ro(role[0]), ru(runs[0]), ro(role[1]), ru(runs[1]), ro(role[2]))
            exp = "(%s, %s, %s)" % (L.B(after["head"] == cur), L.B(bool(left)),
                                    "None" if r["exception"] else "(Some %s)" % L.Z(r["exit"]))
            if runs[1] == "real" or runs[0] == "real":
                # the real comparison run's exit status is data of the run, not of the model: compare head/tmp only
                exp = "(%s, %s, %s)" % (L.B(after["head"] == cur), L.B(bool(left)), "None" if r["exception"] else "(Some 99%Z)")
            cases.append(("(%s, %s)" % (scoq, L.B(bool(fmt))), exp))
            descr.append(inp)
            shutil.rmtree(repo, ignore_errors=True)
            shutil.rmtree(tmpd, ignore_errors=True)
    imports = "From Bandit Require Import Engine.Facts Cli.BaselineTool Gen.Ladders Proofs.C20_proofs.\n"
    extra = ("Definition setup_fact := func_fact ladders (s2p \"cli.baseline:baseline_setup\").\n"
             "Definition main_fact := func_fact ladders (s2p \"cli.baseline:main\").\n"
             "Definition cif : bool := Nat.eqb (ff_unprotected_yields setup_fact) 0 && existsb (fun t => t_yield_inside t && t_finally t && mem_pstr (s2p \"shutil.rmtree\") (t_finally_calls t) && mem_pstr (s2p \"repo.head.reset\") (t_finally_calls t)) (ff_tries setup_fact).\n"
             "Definition hg : list pstr := match find (fun t => mem_pstr (s2p \"subprocess.check_output\") (t_calls t)) (ff_tries main_fact) with Some t => flat_map h_types (t_handlers t) | None => [] end.\n"
             "Definition TF := ToolFacts cif hg exn_supers.\n"
             "Definition obs (x : scenario * bool) : bool * bool * option Z :=\n"
             "  let r := run_tool nat TF 1%nat 0%nat (snd x) (fst x) in\n"
             "  (Nat.eqb (rs_head (fst r)) 1, rs_tmpdir (fst r), match snd r with ExitCode c => Some c | ExitTraceback _ => None end).\n"
             "Definition oeqb (a b : bool * bool * option Z) := match a, b with (h1, t1, e1), (h2, t2, e2) => Bool.eqb h1 h2 && Bool.eqb t1 t2 && match e1, e2 with None, None => true | Some x, Some y => Z.eqb x y || Z.eqb y 99 | _, _ => false end end.\n")
    mm, br = core.unit_corr(imports, "obs", "scenario * bool", "bool * bool * option Z", "oeqb", cases, extra_defs=extra, label="c20")
    R.broken.extend(br)
    for i, tail in mm[:10]:
        R.broken.append({"what": "correspondence: repository state / exit status after a scenario differ from the BaselineTool model",
                         "input": descr[i], "implementation": cases[i][1], "model_output_excerpt": tail[:500]})
    # ---- the same as a process of its own, for every way the bandit subprocess can end
    for runs in [("term", "0"), ("1", "term"), ("kill", "1"), ("0", "kill"), ("2", "1"), ("hup", "0"), ("1", "hup"), ("1", "1")]:
        k += 1
        repo = os.path.join(base, "s%d" % k)
        cur, parent = make_repo(repo)
        tmpd = os.path.join(base, "st%d" % k)
        os.makedirs(tmpd)
        before = snapshot(repo)
        r = run_baseline_subprocess(repo, ["a.py", "b.py"], runs, tmpd, shimdir)
        after = snapshot(repo)
        left = os.listdir(tmpd)
        R.case(("process", runs), sample={"bandit_runs": runs, "exit": r["exit"], "head_restored": after["head"] == cur, "tmp_left": len(left)})
        R.count("process")
        problems = []
        if after["head"] != cur or after["branch_sha"] != cur or after["branch"] != before["branch"]:
            problems.append("HEAD/branch not restored")
        if after["status"] != before["status"] or after["content"] != before["content"]:
            problems.append("working tree changed: %r" % after["status"])
        if left:
            problems.append("temporary directory left behind: %s" % left)
        if r["exit"] < 0:
            problems.append("the tool itself died of signal %d" % -r["exit"])
        if problems:
            R.violations.append({"what": "bandit-baseline as a process, bandit subprocess outcomes %s: %s" % (runs, "; ".join(problems)),
                                 "input": {"bandit_runs": runs}, "observed": {"exit": r["exit"], "stderr": r["stderr"][-300:]}, "signature": None})
        shutil.rmtree(repo, ignore_errors=True)
        shutil.rmtree(tmpd, ignore_errors=True)
    # ---- the reader of the tool's output goes away while it runs (bandit-baseline ... | head -1)
    for plan, nlines in [(pl, n_) for pl in (("real", "real"), ("1", "0")) for n_ in (1, 3, 4, 5, 6)]:
        k += 1
        repo = os.path.join(base, "q%d" % k)
        cur, parent = make_repo(repo)
        tmpd = os.path.join(base, "qt%d" % k)
        os.makedirs(tmpd)
        before = snapshot(repo)
        state = os.path.join(shimdir, "state")
        if os.path.exists(state):
            os.remove(state)
        env = dict(os.environ, PATH=shimdir + os.pathsep + os.environ.get("PATH", ""), SHIM_PLAN=",".join(plan), SHIM_STATE=state, TMPDIR=tmpd, PYTHONPATH=core.REPO)
        for k_ in ("GIT_DIR", "GIT_WORK_TREE"):
            env.pop(k_, None)
        code = "import sys; sys.argv = ['bandit-baseline', 'a.py', 'b.py']; from bandit.cli import baseline as b; b.main()"
        p_ = subprocess.Popen([core.PY, "-u", "-c", code], cwd=repo, env=env, stdout=subprocess.PIPE, stderr=subprocess.DEVNULL)
        for _ in range(nlines):       # like "| head -<nlines>": the reader takes some lines, then closes its end
            p_.stdout.readline()
        p_.stdout.close()
        try:
            rc = p_.wait(timeout=300)
        except subprocess.TimeoutExpired:
            p_.kill()
            rc = "timeout"
        after = snapshot(repo)
        left = os.listdir(tmpd)
        R.case(("closed-pipe", plan, nlines), sample={"bandit_runs": plan, "lines_read": nlines, "exit": rc, "head_restored": after["head"] == cur, "tmp_left": len(left)})
        R.count("process")
        problems = []
        if after["head"] != cur or after["branch_sha"] != cur:
            problems.append("HEAD/branch not restored")
        if after["status"] != before["status"] or after["content"] != before["content"]:
            problems.append("working tree changed: %r" % after["status"])
        if left:
            problems.append("temporary directory left behind")
        if problems:
            R.violations.append({"what": "the reader of bandit-baseline's output closed the pipe while it ran: " + "; ".join(problems),
                                 "input": {"bandit_runs": plan, "stdout": "pipe closed by the reader after %d lines" % nlines}, "observed": {"exit": rc}, "signature": None})
        shutil.rmtree(repo, ignore_errors=True)
        shutil.rmtree(tmpd, ignore_errors=True)
    # ---- refusals: nothing is reset, exit status 2
    pre = [("dirty", lambda d: open(os.path.join(d, "a.py"), "a").write("# x\n"), ["a.py"]),
           ("report-exists", lambda d: open(os.path.join(d, "bandit_baseline_result.json"), "w").write("{}"), ["a.py", "-f", "json"]),
           ("tmpfile-exists", lambda d: open(os.path.join(d, "_bandit_baseline_run.json_"), "w").write("{}"), ["a.py"]),
           ("-o", lambda d: None, ["a.py", "-o", "x.txt"]),
           ("staged-edit-working-copy-reverted", lambda d: (open(os.path.join(d, "a.py"), "a").write("# staged\n"), git(d, "add", "a.py"),
                                                            open(os.path.join(d, "a.py"), "w").write("assert x\n")), ["a.py"]),
           ("staged-edit", lambda d: (open(os.path.join(d, "a.py"), "a").write("# staged\n"), git(d, "add", "a.py")), ["a.py"]),
           ("staged-new-file", lambda d: (open(os.path.join(d, "n.py"), "w").write("x = 1\n"), git(d, "add", "n.py")), ["a.py"]),
           ("staged-deletion", lambda d: git(d, "rm", "-q", "--cached", "b.py"), ["a.py"]),
           ("not-a-repo", None, ["a.py"])]
    for name, prep, argv in pre:
        k += 1
        repo = os.path.join(base, "p%d" % k)
        if name == "not-a-repo":
            os.makedirs(repo)
            open(os.path.join(repo, "a.py"), "w").write("assert x\n")
            before = sorted(os.listdir(repo))
        else:
            cur, parent = make_repo(repo)
            if name in ("report-exists", "tmpfile-exists"):
                # must not make the tree dirty: put the file in .git/info/exclude
                open(os.path.join(repo, ".git", "info", "exclude"), "a").write("bandit_baseline_result.json\n_bandit_baseline_run.json_\n")
            prep(repo)
            before = snapshot(repo)
        tmpd = os.path.join(base, "pt%d" % k)
        os.makedirs(tmpd)
        r = run_baseline(repo, argv, ("real", "real"), ("ok", "ok", "ok"), tmpd, shimdir)
        after = sorted(os.listdir(repo)) if name == "not-a-repo" else snapshot(repo)
        R.case(("refusal", name), sample={"precondition": name, "exit": r["exit"], "exception": r["exception"]})
        R.count("refusal")
        if r["exception"] or r["exit"] != 2 or after != before or os.listdir(tmpd):
            R.violations.append({"what": "precondition '%s': expected refusal with exit status 2 and an untouched repository" % name,
                                 "input": {"precondition": name, "argv": argv}, "observed": {"exit": r["exit"], "exception": r["exception"],
                                                                                             "changed": after != before}, "signature": None})
        shutil.rmtree(repo, ignore_errors=True)
        shutil.rmtree(tmpd, ignore_errors=True)
    # ---- files git does not track survive the two hard resets (or the tool refuses to start)
    def repo_with_merge_head(d):
        """HEAD is a merge commit; local_settings.py is tracked by the merged-in branch (second parent) only, the merge dropped it
        from the index and the developer's copy stays in the working tree as an untracked file."""
        os.makedirs(d)
        git(d, "init", "-q", "-b", "work")
        open(os.path.join(d, "a.py"), "w").write("assert x\n")
        git(d, "add", ".")
        git(d, "commit", "-q", "-m", "one")
        git(d, "checkout", "-q", "-b", "side")
        open(os.path.join(d, "local_settings.py"), "w").write("zz_secret = 'from the side branch'\n")
        git(d, "add", ".")
        git(d, "commit", "-q", "-m", "side")
        git(d, "checkout", "-q", "work")
        open(os.path.join(d, "b.py"), "w").write("x = 1\n")
        git(d, "add", ".")
        git(d, "commit", "-q", "-m", "two")
        git(d, "merge", "-q", "--no-ff", "--no-commit", "side")
        git(d, "rm", "-q", "--cached", "local_settings.py")
        git(d, "commit", "-q", "-m", "merge side, settings stay local")

    def repo_with_removed_file(d):
        os.makedirs(d)
        git(d, "init", "-q", "-b", "work")
        open(os.path.join(d, "a.py"), "w").write("assert x\n")
        open(os.path.join(d, "old.py"), "w").write("import pickle\n")
        os.makedirs(os.path.join(d, "legacy"))
        open(os.path.join(d, "legacy", "mod.py"), "w").write("import marshal\n")
        open(os.path.join(d, "donn\u00e9es client.py"), "w").write("import dill\n")       # a name git quotes in its plain listings
        git(d, "add", ".")
        git(d, "commit", "-q", "-m", "one")
        open(os.path.join(d, "moved_from.py"), "w").write("import shelve\nzz_keep = 'a file long enough for git to recognise it after a rename'\n" * 3)
        git(d, "add", ".")
        git(d, "commit", "-q", "--amend", "-m", "one")
        git(d, "rm", "-q", "-r", "old.py", "legacy", "donn\u00e9es client.py")
        git(d, "mv", "moved_from.py", "moved_to.py")      # the parent tracks moved_from.py, the current commit has it under another name
        open(os.path.join(d, "b.py"), "w").write("x = 1\n")
        git(d, "add", ".")
        git(d, "commit", "-q", "-m", "two")
    for name, fn, ignored in (("untracked-scratch-file", "scratch.txt", False), ("untracked-file-tracked-in-parent", "old.py", False),
                              ("ignored-file", "notes.log", True), ("ignored-file-tracked-in-parent", "old.py", True),
                              ("untracked-directory-tracked-in-parent", "legacy/mod.py", False), ("untracked-directory", "scratchdir/x.txt", False),
                              ("untracked-file-at-the-old-name-of-a-renamed-file", "moved_from.py", False),
                              ("ignored-file-at-the-old-name-of-a-renamed-file", "moved_from.py", True),
                              ("untracked-file-with-a-quoted-name-tracked-in-parent", "donn\u00e9es client.py", False),
                              ("untracked-file-only-the-second-parent-of-a-merge-tracks", "local_settings.py", False)):
        k += 1
        repo = os.path.join(base, "u%d" % k)
        (repo_with_merge_head if "merge" in name else repo_with_removed_file)(repo)
        if ignored:
            open(os.path.join(repo, ".git", "info", "exclude"), "a").write(fn + "\n")
        os.makedirs(os.path.dirname(os.path.join(repo, fn)), exist_ok=True)
        open(os.path.join(repo, fn), "w").write("# not under version control: %s\n" % name)
        before = snapshot(repo)
        before_file = open(os.path.join(repo, fn)).read()
        tmpd = os.path.join(base, "ut%d" % k)
        os.makedirs(tmpd)
        r = run_baseline(repo, ["a.py", "b.py"], ("real", "real"), ("ok", "ok", "ok"), tmpd, shimdir)
        after = snapshot(repo)
        R.case(("untracked", name), sample={"scenario": name, "exit": r["exit"], "exception": r["exception"], "file_survives": os.path.exists(os.path.join(repo, fn))})
        R.count("untracked")
        now_file = open(os.path.join(repo, fn)).read() if os.path.exists(os.path.join(repo, fn)) else None
        if now_file != before_file or after["head"] != before["head"] or after["status"] != before["status"]:
            R.violations.append({"what": "a file git does not track (%s) is %s by bandit-baseline" % (
                name, "deleted" if now_file is None else "changed"), "input": {"scenario": name, "file": fn},
                "observed": {"exit": r["exit"], "status_after": after["status"], "content_after": after["content"].get(fn)},
                "signature": None})
        shutil.rmtree(repo, ignore_errors=True)
        shutil.rmtree(tmpd, ignore_errors=True)
    R.disagreements_checked = len(cases)
