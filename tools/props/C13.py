"""C13 - configuration sources are equivalent, and bad configuration is rejected."""
import glob
import itertools
import json
import os
import random

import climain
import core
import coqlit as L
import impl
import scancorr

PROP_FILES = ["theories/Props/C13.v", "theories/Inst/C13_inst.v"]
DEPS = ["theories/Proofs/OptionSource_proofs.vo", "theories/Proofs/C13_proofs.vo", "theories/Gen/Registry.vo", "theories/Gen/ConfigGen.vo", "theories/Gen/Ladders.vo"]

PROG = ("import pickle, subprocess\npickle.loads(x)\nsubprocess.Popen(c, shell=True)\nassert x\nexec(y)\npassword = 'pw'\n"
        "f('/tmp/x')\ng('/var/data/x')\nmyspawn(z)\ntry:\n    pass\nexcept ValueError:\n    pass\n")


def toml_value(v, indent=0):
    if isinstance(v, bool):
        return "true" if v else "false"
    if isinstance(v, int):
        return str(v)
    if isinstance(v, str):
        return json.dumps(v)
    if isinstance(v, list):
        return "[" + ", ".join(toml_value(x) for x in v) + "]"
    raise ValueError(v)


def to_toml(cfg):
    out = ["[tool.bandit]"]
    tables = []
    for k, v in cfg.items():
        if isinstance(v, dict):
            tables.append((k, v))
        else:
            out.append("%s = %s" % (k, toml_value(v)))
    for k, v in tables:
        out.append("[tool.bandit.%s]" % k)
        for kk, vv in v.items():
            out.append("%s = %s" % (kk, toml_value(vv)))
    return "\n".join(out) + "\n"


def results(r):
    try:
        j = json.loads(r["stdout"])
        # object addresses inside a message (C08's known finding message-embeds-object-address) are not this property's subject
        return [(x["test_id"], x["line_number"], x["issue_severity"], impl._ADDR.sub("<AST-OBJECT>", x["issue_text"])) for x in j["results"]]
    except Exception:
        return None


def carriers(R, rng, tier):
    import yaml
    d = os.path.join(impl.scratch(), "c13")
    os.makedirs(d, exist_ok=True)
    tgt = os.path.join(d, "prog.py")
    open(tgt, "w").write(PROG)
    ids = ["B101", "B102", "B105", "B108", "B110", "B301", "B403", "B404", "B602", "B603", "B604", "B607", "B001"]
    settings_pool = [None, {"hardcoded_tmp_directory": {"tmp_dirs": ["/var/data"]}},
                     {"shell_injection": {"subprocess": ["myspawn"], "shell": [], "no_shell": []}},
                     {"try_except_pass": {"check_typed_exception": True}},
                     {"assert_used": {"skips": ["*prog.py"]}}]
    n = 30 if tier == "quick" else 400
    # ids this release does not know (a typo, an id of a newer release), alone and next to known ones, on either side
    directed = [(["B1O1"], []), (["B999"], []), (["B999", "B101"], []), ([], ["B999"]), (["B101"], ["B1O1"]), (["B999"], ["B101"]), (["b101"], [])]
    for it in range(n + len(directed)):
        tests = rng.sample(ids, rng.randint(0, 4))
        skips = [x for x in rng.sample(ids, rng.randint(0, 3)) if x not in tests and not (x == "B001" and any(t.startswith(("B3", "B4")) for t in tests))]
        if "B001" in tests and any(s.startswith(("B3", "B4")) for s in skips):
            skips = [s for s in skips if not s.startswith(("B3", "B4"))]
        if it >= n:
            tests, skips = directed[it - n]
        settings = rng.choice(settings_pool)
        doc = {}
        if tests:
            doc["tests"] = tests
        if skips:
            doc["skips"] = skips
        full = dict(doc, **(settings or {}))
        runs = {}
        # YAML
        y = os.path.join(d, "c.yaml")
        yaml.safe_dump(full, open(y, "w"))
        runs["yaml"] = climain.run_main(["-q", "-f", "json", "-c", y, tgt])
        # TOML
        t = os.path.join(d, "c.toml")
        open(t, "w").write(to_toml(full))
        runs["toml"] = climain.run_main(["-q", "-f", "json", "-c", t, tgt])
        # the selection alone through CLI and INI (settings, if any, stay in a YAML file without tests/skips)
        ys = os.path.join(d, "s.yaml")
        yaml.safe_dump(settings or {"skips": []}, open(ys, "w"))
        argv = ["-q", "-f", "json", "-c", ys]
        cli = argv + (["-t", ",".join(tests)] if tests else []) + (["-s", ",".join(skips)] if skips else []) + [tgt]
        runs["cli"] = climain.run_main(cli)
        ini = os.path.join(d, "sel.ini")
        open(ini, "w").write("[bandit]\n" + ("tests = %s\n" % ",".join(tests) if tests else "") + ("skips = %s\n" % ",".join(skips) if skips else ""))
        runs["ini"] = climain.run_main(argv + ["--ini", ini, tgt])
        inp = {"tests": tests, "skips": skips, "settings": settings}
        base = runs["yaml"]
        R.case(("carriers", tuple(tests), tuple(skips), json.dumps(settings, sort_keys=True)), nontrivial=bool(tests or skips or settings),
               sample=dict(inp, exit=base["exit"], findings=None if results(base) is None else len(results(base))))
        R.count("carriers")
        for name, r in runs.items():
            if r["exception"]:
                R.violations.append({"what": "carrier %s ends in a traceback (%s)" % (name, r["exception"]), "input": inp,
                                     "observed": (r["traceback"] or "")[-400:], "signature": None})
            elif r["exit"] != base["exit"] or results(r) != results(base):
                R.violations.append({"what": "the same selection/settings through %s and through YAML give different results" % name,
                                     "input": inp, "observed": {"yaml": (base["exit"], (results(base) or [])[:5]), name: (r["exit"], (results(r) or [])[:5])},
                                     "signature": None})
        # settings are local: a setting for one plugin changes only that plugin's findings
        if settings and not tests and not skips:
            plain = climain.run_main(["-q", "-f", "json", tgt])
            owner = {"hardcoded_tmp_directory": {"B108"}, "shell_injection": {"B602", "B603", "B604", "B605", "B606", "B607", "B609"},
                     "try_except_pass": {"B110"}, "assert_used": {"B101"}}[list(settings)[0]]
            a = [x for x in (results(plain) or []) if x[0] not in owner]
            b = [x for x in (results(base) or []) if x[0] not in owner]
            if a != b:
                R.violations.append({"what": "settings for %s changed the findings of other checks" % list(settings)[0], "input": inp,
                                     "observed": {"without": a[:5], "with": b[:5]}, "signature": None})


def generator(R, rng, tier):
    d = os.path.join(impl.scratch(), "c13g")
    os.makedirs(d, exist_ok=True)
    out = os.path.join(d, "generated.yaml")
    if os.path.exists(out):
        os.remove(out)
    r = climain.run_main(["-o", out], entry="bandit.cli.config_generator")
    if r["exception"] or not os.path.exists(out):
        R.violations.append({"what": "bandit-config-generator did not write a file", "input": ["-o", "generated.yaml"],
                             "observed": r["exception"] or r["stdout"][-200:], "signature": None})
        return
    ex = sorted(glob.glob(os.path.join(core.REPO, "examples", "*.py")))
    for f in rng.sample(ex, 10 if tier == "quick" else 60):
        a = climain.run_main(["-q", "-f", "json", f])
        b = climain.run_main(["-q", "-f", "json", "-c", out, f])
        R.case(("generator", os.path.basename(f)), sample={"example": os.path.basename(f), "findings": None if results(a) is None else len(results(a))})
        R.count("generator")
        if a["exit"] != b["exit"] or results(a) != results(b) or b["exception"]:
            R.violations.append({"what": "the unmodified generated config changes the scan of %s" % os.path.basename(f), "input": f,
                                 "observed": {"without": (a["exit"], (results(a) or [])[:4]), "with": (b["exit"], (results(b) or [])[:4], b["exception"])},
                                 "signature": None})


def generated_plus_settings(R, rng, tier):
    """The generated file with a documented settings block edited: the edit takes effect exactly as if the block stood alone
    (the per-plugin-name sections the generator also writes are never looked up)."""
    import yaml
    d = os.path.join(impl.scratch(), "c13gs")
    os.makedirs(d, exist_ok=True)
    out = os.path.join(d, "generated.yaml")
    r = climain.run_main(["-o", out], entry="bandit.cli.config_generator")
    if r["exception"] or not os.path.exists(out):
        return
    gen = yaml.safe_load(open(out)) or {}
    tgt = os.path.join(d, "prog.py")
    open(tgt, "w").write(PROG + "import subprocess\nmyspawn(zz_c, shell=True)\nmyspawn('ls')\nf = open('/var/data/zz')\nzz_g('/var/data/x')\n")
    blocks = [{"shell_injection": {"subprocess": ["myspawn"], "shell": [], "no_shell": []}},
              {"shell_injection": {"subprocess": [], "shell": ["myspawn"], "no_shell": []}},
              {"hardcoded_tmp_directory": {"tmp_dirs": ["/var/data"]}},
              {"try_except_pass": {"check_typed_exception": True}},
              {"ssl_with_bad_version": {"bad_protocol_versions": ["PROTOCOL_ZZ"]}},
              {"weak_cryptographic_key": {"weak_key_size_dsa_high": 4096}}]
    for blk in blocks:
        for fmt in ("yaml", "toml"):
            alone = os.path.join(d, "alone." + fmt)
            both = os.path.join(d, "both." + fmt)
            merged = dict(gen)
            merged.update(blk)
            if fmt == "yaml":
                yaml.safe_dump(blk, open(alone, "w"))
                yaml.safe_dump(merged, open(both, "w"))
            else:
                try:
                    open(alone, "w").write(to_toml(blk))
                    open(both, "w").write(to_toml(merged))
                except Exception:
                    continue
            a = climain.run_main(["-q", "-f", "json", "-c", alone, tgt])
            b = climain.run_main(["-q", "-f", "json", "-c", both, tgt])
            R.case(("gen+settings", json.dumps(blk, sort_keys=True), fmt), sample={"block": blk, "format": fmt, "exit": b["exit"]})
            R.count("generated+settings")
            if a["exception"] or b["exception"] or a["exit"] != b["exit"] or results(a) != results(b):
                R.violations.append({"what": "settings block %s takes a different effect inside the generated %s file than alone" % (list(blk)[0], fmt),
                                     "input": {"block": blk, "format": fmt},
                                     "observed": {"alone": (a["exit"], a["exception"], (results(a) or [])[:6]), "in_generated": (b["exit"], b["exception"], (results(b) or [])[:6])},
                                     "signature": None})


def default_blocks(R, rng, tier):
    """A settings block that spells out a plugin's own defaults (what gen_config returns for its config key), alone or
    next to the other blocks, in YAML and in TOML: the findings are those of a run without any config ("settings given for
    one plugin replace that plugin's defaults only" - and equal settings replace them by themselves)."""
    import importlib
    import yaml
    from bandit.core import extension_loader
    d = os.path.join(impl.scratch(), "c13d")
    os.makedirs(d, exist_ok=True)
    keys = {}
    for pl in extension_loader.MANAGER.plugins:
        k = getattr(pl.plugin, "_takes_config", None)
        mod = importlib.import_module(pl.plugin.__module__)
        if k and hasattr(mod, "gen_config") and k not in keys:
            keys[k] = mod.gen_config(k)
    tgt = os.path.join(d, "prog.py")
    open(tgt, "w").write(PROG + "import os, ssl, hashlib\nsubprocess.call(['ls', '-l'])\nos.system('ls -l')\nos.execl('/bin/ls', 'ls')\nos.popen('ls')\n"
                         "os.spawnl(0, 'ls')\nsubprocess.Popen(['ls'], shell=False)\nos.execvp('ls', ['ls'])\nopen('/tmp/zz_f')\n"
                         "ssl.wrap_socket(ssl_version=ssl.PROTOCOL_SSLv3)\nfrom Crypto.PublicKey import RSA\nRSA.generate(1024)\n"
                         "try:\n    zz_h()\nexcept Exception:\n    pass\n")
    base = climain.run_main(["-q", "-f", "json", tgt])
    blocks = [{k: v} for k, v in sorted(keys.items())] + [dict(keys)]
    for blk in blocks:
        for fmt in ("yaml", "toml"):
            cf = os.path.join(d, "defaults." + fmt)
            try:
                if fmt == "yaml":
                    yaml.safe_dump(blk, open(cf, "w"))
                else:
                    open(cf, "w").write(to_toml(blk))
            except Exception:
                continue
            b = climain.run_main(["-q", "-f", "json", "-c", cf, tgt])
            R.case(("default-block", tuple(sorted(blk)), fmt), nontrivial=True, sample={"blocks": sorted(blk), "format": fmt, "exit": b["exit"]})
            R.count("default-block")
            if b["exception"] or b["exit"] != base["exit"] or results(b) != results(base):
                rb, ra = results(b) or [], results(base) or []
                R.violations.append({"what": "a %s config that only spells out the defaults of %s changes the findings" % (fmt, sorted(blk)),
                                     "input": {"config": open(cf).read()[:600], "program": open(tgt).read()},
                                     "observed": {"extra": [x for x in rb if x not in ra][:6], "missing": [x for x in ra if x not in rb][:6],
                                                  "exception": b["exception"]}, "signature": None})


def option_source(R, rng, tier):
    """cli/main.py _log_option_source on every combination of parser default, command-line value and .bandit value from a small
    pool (None, the empty string, the default itself, other strings) vs the model; and the statement: a command-line value
    that is not the default is what applies."""
    import itertools
    from bandit.cli import main as bmain
    pool = [None, "", ".svn,CVS", "x", "a,b", "tests"]
    cases, meta = [], []

    def oc(v):
        return "None" if v is None else "(Some %s)" % L.pstr(v)
    for d_, a_, i_ in itertools.product(pool, pool, pool):
        try:
            got = bmain._log_option_source(d_, a_, i_, "zz option")
        except Exception as e:  # noqa: BLE001
            R.violations.append({"what": "_log_option_source(%r, %r, %r) raised %s" % (d_, a_, i_, type(e).__name__), "input": [d_, a_, i_], "observed": str(e), "signature": None})
            continue
        R.case(("optsrc", d_, a_, i_), nontrivial=True, sample={"default": d_, "arg": a_, "ini": i_, "used": got})
        R.count("option-source")
        if d_ is not None and a_ != d_ and got != a_:
            R.violations.append({"what": "the command line says %r (the default is %r) but %r is used" % (a_, d_, got), "input": {"default": d_, "arg": a_, "ini": i_},
                                 "observed": got, "signature": None})
        cases.append(("(%s, %s, %s)" % (oc(d_), oc(a_), oc(i_)), oc(got)))
        meta.append({"default": d_, "arg": a_, "ini": i_})
    mm, br = core.unit_corr("From Bandit Require Import Cli.OptionSource.\n", "fun x => match x with (d, a, i) => log_option_source d a i end",
                            "option pstr * option pstr * option pstr", "option pstr", "opt_eqb", cases, label="c13o")
    R.broken.extend(br)
    for k, tail in mm[:10]:
        R.broken.append({"what": "correspondence: _log_option_source differs from the model", "input": meta[k], "implementation": cases[k][1], "model_output_excerpt": tail[:300]})


def ini_discovery(R, rng, tier):
    """A .bandit file lying in the scanned directory is found and used whatever that directory is called (names with characters
    that mean something to glob or fnmatch, dot-directories), exactly like the same file given with --ini or the same selection
    given on the command line."""
    import shutil
    d = os.path.join(impl.scratch(), "c13disc")
    shutil.rmtree(d, ignore_errors=True)
    for name in ("proj", "proj[v2]", "rel*ease", "a?b", "release[1-9]", "sp ace", "pkg.d"):
        root = os.path.join(d, name)
        os.makedirs(os.path.join(root, "sub"))
        open(os.path.join(root, "m.py"), "w").write(PROG)
        open(os.path.join(root, "sub", "n.py"), "w").write("assert zz_n\nexec(zz_m)\n")
        open(os.path.join(root, ".bandit"), "w").write("[bandit]\ntests = B101,B110\n")
        a = climain.run_main(["-q", "-f", "json", "-r", name], cwd=d)
        b = climain.run_main(["-q", "-f", "json", "-t", "B101,B110", "-r", name], cwd=d)
        c = climain.run_main(["-q", "-f", "json", "--ini", os.path.join(name, ".bandit"), "-r", name], cwd=d)
        R.case(("ini-discovery", name), nontrivial=True, sample={"directory": name, "exit": a["exit"]})
        R.count("ini-discovery")
        if a["exception"] or results(a) != results(b) or results(c) != results(b) or a["exit"] != b["exit"]:
            R.violations.append({"what": "the .bandit file in the scanned directory %r is not used like the same selection on the command line" % name,
                                 "input": {"directory": name, "ini": "tests = B101,B110"},
                                 "observed": {"discovered": sorted({x[0] for x in (results(a) or [])}), "cli": sorted({x[0] for x in (results(b) or [])}),
                                              "--ini": sorted({x[0] for x in (results(c) or [])}), "exception": a["exception"]}, "signature": None})
    shutil.rmtree(d, ignore_errors=True)


def contradictions(R, rng, tier):
    """A test both selected and skipped is rejected (status 2, diagnostic) wherever the two halves come from."""
    import yaml
    d = os.path.join(impl.scratch(), "c13x")
    os.makedirs(d, exist_ok=True)
    tgt = os.path.join(d, "prog.py")
    open(tgt, "w").write(PROG)

    def cfg(fmt, doc):
        path = os.path.join(d, "c." + fmt)
        if fmt == "yaml":
            yaml.safe_dump(doc, open(path, "w"))
        else:
            open(path, "w").write(to_toml(doc))
        return ["-c", path]

    def ini(tests=None, skips=None):
        path = os.path.join(d, "x.ini")
        open(path, "w").write("[bandit]\n" + ("tests = %s\n" % tests if tests else "") + ("skips = %s\n" % skips if skips else ""))
        return ["--ini", path]
    combos = []
    for fmt in ("yaml", "toml"):
        combos += [("%s tests + cli -s" % fmt, cfg, (fmt, {"tests": ["B101", "B102"]}), ["-s", "B101"]),
                   ("%s skips + cli -t" % fmt, cfg, (fmt, {"skips": ["B101", "B102"]}), ["-t", "B102"]),
                   ("%s tests + ini skips" % fmt, cfg, (fmt, {"tests": ["B101", "B102"]}), ("ini", None, "B102")),
                   ("%s skips + ini tests" % fmt, cfg, (fmt, {"skips": ["B101"]}), ("ini", "B101,B602", None)),
                   ("%s tests + %s skips" % (fmt, fmt), cfg, (fmt, {"tests": ["B101"], "skips": ["B101"]}), [])]
    combos += [("cli -t + cli -s", None, None, ["-t", "B101,B102", "-s", "B102"]), ("ini tests + ini skips", None, None, ("ini", "B101", "B101")),
               ("ini tests + cli -s", None, None, ("ini+cli", "B101,B102", None, ["-s", "B101"])),
               ("cli -t + ini skips", None, None, ("ini+cli", None, "B602", ["-t", "B602,B101"]))]
    for name, mk, mkargs, rest in combos:
        argv = ["-q", "-f", "json"]
        if mk is not None:
            argv += mk(*mkargs)
        if isinstance(rest, tuple):
            if rest[0] == "ini":
                argv += ini(rest[1], rest[2])
            else:
                argv += ini(rest[1], rest[2]) + rest[3]
        else:
            argv += rest
        r = climain.run_main(argv + [tgt])
        R.case(("contradiction", name), sample={"case": name, "exit": r["exit"], "exception": r["exception"]})
        R.count("contradiction")
        inp = {"case": name, "argv": [a if not a.startswith(d) else os.path.basename(a) for a in argv]}
        if r["exception"]:
            R.violations.append({"what": "contradictory selection (%s) ends in a traceback (%s)" % (name, r["exception"]), "input": inp,
                                 "observed": (r["traceback"] or "")[-300:], "signature": None})
        elif r["exit"] != 2:
            R.violations.append({"what": "contradictory selection (%s) is not rejected with exit status 2 (exit %s): scanned with silently changed settings" % (name, r["exit"]),
                                 "input": inp, "observed": {"exit": r["exit"], "findings": (results(r) or [])[:5]}, "signature": None})
        elif not (r["stderr"].strip() or r["stdout"].strip()):
            R.violations.append({"what": "contradictory selection (%s) rejected without a diagnostic" % name, "input": inp, "observed": "", "signature": None})


def ini_equivalence(R, rng, tier):
    """Every option a .bandit file can carry gives the run the command-line spelling gives (values with blanks, commas, globs)."""
    import shutil
    d = os.path.join(impl.scratch(), "c13i")
    shutil.rmtree(d, ignore_errors=True)
    for sub in ("build output", "builder", "pkg", "pkg/tests"):
        os.makedirs(os.path.join(d, sub))
    for f in ("build output/gen.py", "builder/tool.py", "pkg/a.py", "pkg/tests/t.py", "top.py"):
        open(os.path.join(d, f), "w").write("assert x\nexec(y)\n")
    cases = [("exclude", "*/build output/*", ["-x", "*/build output/*"]), ("exclude", "./build output", ["-x", "./build output"]),
             ("exclude", "*/tests/*,*/builder/*", ["-x", "*/tests/*,*/builder/*"]), ("tests", "B101", ["-t", "B101"]),
             ("skips", "B101,B102", ["-s", "B101,B102"]), ("exclude", "top.py", ["-x", "top.py"])]
    for key, val, argv in cases:
        ini = os.path.join(d, "o.ini")
        open(ini, "w").write("[bandit]\n%s = %s\n" % (key, val))
        a = climain.run_main(["-q", "-r", "-f", "json", "--ini", ini, "."], cwd=d)
        b = climain.run_main(["-q", "-r", "-f", "json"] + argv + ["."], cwd=d)
        R.case(("ini-eq", key, val), nontrivial=True, sample={"ini": "%s = %s" % (key, val), "exit": a["exit"]})
        R.count("ini-equivalence")
        fa = None if results_files(a) is None else results_files(a)
        fb = None if results_files(b) is None else results_files(b)
        if a["exception"] or b["exception"] or a["exit"] != b["exit"] or fa != fb:
            R.violations.append({"what": "'%s = %s' in a .bandit file gives another run than %s" % (key, val, " ".join(argv)),
                                 "input": {"ini": "%s = %s" % (key, val), "argv": argv},
                                 "observed": {"ini": (a["exit"], a["exception"], fa and fa[:6]), "cli": (b["exit"], b["exception"], fb and fb[:6])}, "signature": None})
    # profile names: a name that is not defined is a usage error whatever it looks like; a defined name may contain dots
    import yaml
    cf = os.path.join(d, "p.yaml")
    yaml.safe_dump({"profiles": {"web": {"include": ["B101"]}, "py3.x": {"include": ["B102"]}}}, open(cf, "w"))
    for name, want in (("web", (1, ["B101"] * 5)), ("py3.x", (1, ["B102"] * 5)), ("web.include", 2), ("web.exclude", 2), ("nosuch", 2), ("profiles", 2), ("", 2)):
        r = climain.run_main(["-q", "-r", "-f", "json", "-c", cf, "-p", name, "."], cwd=d)
        R.case(("profile-name", name), nontrivial=True, sample={"profile": name, "exit": r["exit"], "exception": r["exception"]})
        R.count("profile-names")
        if r["exception"]:
            R.violations.append({"what": "-p %r ends in a traceback (%s)" % (name, r["exception"]), "input": {"profile": name}, "observed": (r["traceback"] or "")[-300:], "signature": None})
        elif want == 2 and r["exit"] != 2 and name != "":
            R.violations.append({"what": "-p %r (not a defined profile) is not rejected with exit status 2 (exit %s)" % (name, r["exit"]), "input": {"profile": name}, "observed": r["exit"], "signature": None})
        elif want != 2:
            got = sorted(x[0] for x in (results(r) or []))
            if r["exit"] != want[0] or got != sorted(want[1]):
                R.violations.append({"what": "-p %r (a defined profile) gives exit %s and findings %s" % (name, r["exit"], got), "input": {"profile": name}, "observed": got, "signature": None})
    shutil.rmtree(d, ignore_errors=True)


def results_files(r):
    try:
        j = json.loads(r["stdout"])
        return sorted((os.path.normpath(x["filename"]), x["test_id"], x["line_number"]) for x in j["results"])
    except Exception:
        return None


TOP = [("empty", ""), ("null", "null\n"), ("int", "3\n"), ("str", "hello\n"), ("list", "- a\n- b\n"), ("bool", "true\n"),
       ("syntax", "a: [1\n"), ("tabs", "a:\n\t- b\n"), ("binary", "\x00\x01"), ("mapping-empty", "{}\n")]
VALUES = [("null", "null"), ("int", "3"), ("str", "B101"), ("list-int", "[1, 2]"), ("map", "{a: 1}"), ("bool", "true"), ("nested", "[[B101]]")]
KEYS = ["tests", "skips", "exclude_dirs", "profiles", "shell_injection", "hardcoded_tmp_directory", "assert_used", "include"]


def malformed(R, rng, tier):
    d = os.path.join(impl.scratch(), "c13m")
    os.makedirs(d, exist_ok=True)
    tgt = os.path.join(d, "prog.py")
    open(tgt, "w").write(PROG)
    cases = []
    for name, text in TOP:
        cases.append(("yaml-top-" + name, "c.yaml", text, []))
    cases.append(("toml-syntax", "c.toml", "[tool.bandit\n", []))
    cases.append(("toml-tool-int", "c.toml", "tool = 1\n", []))
    cases.append(("toml-bandit-int", "c.toml", "[tool]\nbandit = 2\n", []))
    cases.append(("toml-empty", "c.toml", "", []))
    # the bytes of the file: TOML is UTF-8 by definition, YAML also comes as UTF-16 with a byte order mark
    cases.append(("toml-invalid-utf8", "c.toml", b'[tool.bandit]\nskips = ["B101"] # caf\xe9\n', []))
    cases.append(("toml-utf16", "c.toml", '[tool.bandit]\nskips = ["B101"]\n'.encode("utf-16"), []))
    cases.append(("yaml-top-invalid-utf8", "c.yaml", b"skips: [B101] # caf\xe9\n", []))
    # YAML the parser itself refuses: keys that are not scalars (a "parse error", never a traceback)
    cases.append(("yaml-top-complex-key-seq", "c.yaml", "? [a, b]\n: 1\n", []))
    cases.append(("yaml-top-complex-key-flow", "c.yaml", "{[B110]: x}\n", []))
    cases.append(("yaml-top-complex-key-nested", "c.yaml", "try_except_pass:\n  ? {a: 1}\n  : true\n", []))
    cases.append(("missing-file", None, None, []))
    cases.append(("unknown-profile", "c.yaml", "profiles:\n  a:\n    include: [B101]\n", ["-p", "nosuch"]))
    cases.append(("contradictory", "c.yaml", "tests: [B101]\nskips: [B101]\n", []))
    cases.append(("directory-as-config", "DIR", None, []))
    for k, (vn, vt) in itertools.product(KEYS, VALUES):
        cases.append(("value-%s-%s" % (k, vn), "c.yaml", "%s: %s\n" % (k, vt), []))
    for name, fn, text, extra in cases:
        if fn is None:
            path = os.path.join(d, "does-not-exist.yaml")
        elif fn == "DIR":
            path = d
        else:
            path = os.path.join(d, fn)
            if isinstance(text, bytes):
                open(path, "wb").write(text)
                text = repr(text)
            else:
                open(path, "w").write(text)
        r = climain.run_main(["-q", "-f", "json", "-c", path] + extra + [tgt])
        R.case(("malformed", name), sample={"case": name, "exit": r["exit"], "exception": r["exception"]})
        R.count("malformed:" + name.split("-")[0])
        inp = {"case": name, "config_text": text}
        if r["exception"]:
            sig = "config-value-wrong-type" if name.startswith("value-") else None
            R.violations.append({"what": "malformed configuration (%s) ends in a traceback (%s) instead of a diagnostic and exit status 2" % (name, r["exception"]),
                                 "input": inp, "observed": (r["traceback"] or "")[-300:], "signature": sig})
        elif name.startswith(("yaml-top-", "toml-", "missing", "unknown", "contradictory", "directory")) and name not in ("yaml-top-mapping-empty", "toml-empty"):
            if r["exit"] != 2:
                R.violations.append({"what": "malformed configuration (%s) is not rejected with exit status 2 (exit %s)" % (name, r["exit"]),
                                     "input": inp, "observed": r["exit"], "signature": None})
            elif not (r["stderr"].strip() or r["stdout"].strip()):
                R.violations.append({"what": "malformed configuration (%s) rejected without a diagnostic" % name, "input": inp, "observed": "", "signature": None})
    # YAML spellings of one and the same mapping - anchors and merge keys, flow and block style, quoted keys - are one configuration
    same = [("try_except_pass:\n  check_typed_exception: true\n", "zz_base: &zz_b\n  check_typed_exception: true\ntry_except_pass:\n  <<: *zz_b\n"),
            ("skips: [B101]\nhardcoded_tmp_directory:\n  tmp_dirs: [/var/data]\n", "{skips: [B101], hardcoded_tmp_directory: {tmp_dirs: [/var/data]}}\n"),
            ("tests: [B110, B101]\ntry_except_pass: {check_typed_exception: true}\n", "'tests': &zz_t ['B110', \"B101\"]\n\"try_except_pass\":\n  'check_typed_exception': yes\n")]
    for plain_doc, fancy in same:
        pa, pb = os.path.join(d, "plain.yaml"), os.path.join(d, "fancy.yaml")
        open(pa, "w").write(plain_doc)
        open(pb, "w").write(fancy)
        a = climain.run_main(["-q", "-f", "json", "-c", pa, tgt])
        b = climain.run_main(["-q", "-f", "json", "-c", pb, tgt])
        R.case(("yaml-spelling", fancy), sample={"config": fancy, "exit_plain": a["exit"], "exit_other": b["exit"], "exception": b["exception"]})
        R.count("malformed:spelling")
        if a["exception"] or b["exception"] or a["exit"] != b["exit"] or results(a) != results(b):
            R.violations.append({"what": "two YAML spellings of the same mapping give different results (%s vs %s)" % (
                a["exception"] or "exit %s" % a["exit"], b["exception"] or "exit %s" % b["exit"]), "input": {"plain": plain_doc, "other": fancy},
                "observed": {"plain": (results(a) or [])[:5], "other": (results(b) or [])[:5], "stderr": b["stderr"][-200:]}, "signature": None})
    # a YAML file in UTF-16 (byte order mark) is the same configuration as its UTF-8 rendering
    for doc in ("skips: [B101]\n", "tests: [B102, B105]\n", "shell_injection:\n  subprocess: [myspawn]\n  shell: []\n  no_shell: []\n"):
        p8, p16 = os.path.join(d, "u8.yaml"), os.path.join(d, "u16.yaml")
        open(p8, "wb").write(doc.encode("utf-8"))
        open(p16, "wb").write(doc.encode("utf-16"))
        a = climain.run_main(["-q", "-f", "json", "-c", p8, tgt])
        b = climain.run_main(["-q", "-f", "json", "-c", p16, tgt])
        R.case(("yaml-utf16", doc), sample={"config": doc, "exit_utf8": a["exit"], "exit_utf16": b["exit"], "exception": b["exception"]})
        R.count("malformed:encoding")
        if b["exception"] or a["exit"] != b["exit"] or results(a) != results(b):
            R.violations.append({"what": "the same YAML configuration in UTF-16 gives %s, in UTF-8 exit %s" % (b["exception"] or "exit %s" % b["exit"], a["exit"]),
                                 "input": {"config_text": doc}, "observed": (b["traceback"] or "")[-300:], "signature": None})
    # INI values arrive as strings
    for key, val, what in (("level", "2", "ini-level"), ("confidence", "3", "ini-confidence"), ("recursive", "false", "ini-recursive"),
                           ("number", "x", "ini-number"), ("aggregate", "nosuch", "ini-aggregate"), ("format", "nosuch", "ini-format")):
        ini = os.path.join(d, "o.ini")
        open(ini, "w").write("[bandit]\n%s = %s\n" % (key, val))
        r = climain.run_main(["-q", "-f", "json", "--ini", ini, tgt])
        R.case(("ini", key), sample={"ini": "%s = %s" % (key, val), "exit": r["exit"], "exception": r["exception"]})
        R.count("ini-option")
        if r["exception"]:
            R.violations.append({"what": "ini option '%s = %s' ends in a traceback (%s)" % (key, val, r["exception"]), "input": {"ini": "%s = %s" % (key, val)},
                                 "observed": (r["traceback"] or "")[-300:], "signature": "ini-values-are-strings"})


def ini_booleans(R, rng, tier):
    """boolean options of the ini file mean what they say"""
    d = os.path.join(impl.scratch(), "c13b")
    os.makedirs(os.path.join(d, "pkg"), exist_ok=True)
    open(os.path.join(d, "pkg", "m.py"), "w").write("assert x  # nosec\n")
    for key, val, probe in (("recursive", "false", "files"), ("ignore-nosec", "false", "nosec"), ("recursive", "0", "files")):
        ini = os.path.join(d, "b.ini")
        open(ini, "w").write("[bandit]\n%s = %s\n" % (key, val))
        argv = ["-q", "-f", "json", "--ini", ini] + (["-r"] if probe == "nosec" else []) + [os.path.join(d, "pkg")]
        r = climain.run_main(argv)
        R.case(("ini-bool", key, val), sample={"ini": "%s = %s" % (key, val), "exit": r["exit"]})
        R.count("ini-boolean")
        try:
            j = json.loads(r["stdout"])
        except Exception:
            continue
        scanned = [k for k in j["metrics"] if k != "_totals"]
        if probe == "files" and scanned:
            R.violations.append({"what": "ini option '%s = %s' is treated as true (the directory was descended)" % (key, val),
                                 "input": {"ini": "%s = %s" % (key, val)}, "observed": scanned, "signature": "ini-boolean-strings-are-truthy"})
        if probe == "nosec" and j["results"]:
            R.violations.append({"what": "ini option '%s = %s' is treated as true (nosec comments were ignored)" % (key, val),
                                 "input": {"ini": "%s = %s" % (key, val)}, "observed": len(j["results"]), "signature": "ini-boolean-strings-are-truthy"})


def model_corr(R, rng, tier):
    """init_config on parsed documents vs BanditConfig (outcome classes)."""
    import yaml
    from bandit.core import config as bc
    from bandit.core import utils as bu
    d = os.path.join(impl.scratch(), "c13c")
    os.makedirs(d, exist_ok=True)
    docs = [None, 3, "s", [1], True, {}, {"tests": ["B101"]}, {"profiles": {"p": {"include": ["B101"]}}},
            {"profiles": {"p": {"include": ["blacklist_calls"]}}}, {"profiles": {"p": {"include": None, "exclude": ["B1"]}}},
            {"profiles": {}}, {"tool": 1}, {"tool": {"bandit": {"tests": ["B1"]}}}, {"tool": {"bandit": 2}}, {"tool": {}},
            {"profiles": {"p": {"include": ["blacklist_imports"]}}, "blacklist_imports": {"bad_import_sets": []}}]
    cases, descr = [], []
    for doc in docs:
        for toml in (False, True):
            if toml:
                if not isinstance(doc, dict):
                    continue
                try:
                    text = to_toml_doc(doc)
                except Exception:
                    continue
                p = os.path.join(d, "m.toml")
            else:
                text = yaml.safe_dump(doc)
                p = os.path.join(d, "m.yaml")
            open(p, "w").write(text)
            try:
                c = bc.BanditConfig(p)
                got = "(CfgOk [])"
            except bu.ConfigError:
                got = "CfgError"
            except Exception as e:
                got = "(CfgTraceback %s)" % impl.EXN.get(type(e).__name__, "OtherError")
            cases.append(("(%s, Loaded %s)" % (L.B(toml), scancorr.jv(doc)), got))
            descr.append({"toml": toml, "doc": doc})
            R.case(("init", toml, json.dumps(doc, sort_keys=True, default=str)), sample={"toml": toml, "document": doc, "outcome": got})
            R.count("init_config")
    imports = "From Bandit Require Import Cli.Config.\n"
    extra = ("Definition req (a b : cfg_result) := match a, b with CfgOk _, CfgOk _ => true | CfgError, CfgError => true | CfgTraceback x, CfgTraceback y => exn_eqb x y | _, _ => false end.\n")
    mm, br = core.unit_corr(imports, "fun x => init_config (fst x) (snd x)", "bool * load_outcome", "cfg_result", "req", cases,
                            extra_defs=extra, label="c13i")
    R.broken.extend(br)
    for i, tail in mm[:10]:
        R.broken.append({"what": "correspondence: BanditConfig outcome differs from init_config", "input": descr[i],
                         "implementation": cases[i][1], "model_output_excerpt": tail[:300]})


def to_toml_doc(doc):
    """dict -> TOML text for the few shapes used above."""
    lines = []
    def emit(prefix, d):
        scal = [(k, v) for k, v in d.items() if not isinstance(v, dict)]
        tabs = [(k, v) for k, v in d.items() if isinstance(v, dict)]
        if prefix:
            lines.append("[%s]" % prefix)
        for k, v in scal:
            if v is None:
                raise ValueError("null")
            lines.append("%s = %s" % (k, toml_value(v)))
        for k, v in tabs:
            emit((prefix + "." if prefix else "") + k, v)
    emit("", doc)
    return "\n".join(lines) + "\n"


def run(R, replay=None):
    rng = random.Random(R.seed)
    for f in core.gen():
        R.broken.append({"what": "translator failed: " + f["translator"], "log": f["stderr"]})
    R.proof = core.prove(PROP_FILES, DEPS)
    for f in R.proof["failed"]:
        R.broken.append({"what": "proof obligation no longer checks: %s (%s) %s" % (f["file"], f["why"], f.get("theorem") or ""),
                         "log": f.get("log", "")})
    R.rule = ("(1) random selections (tests/skips incl. B001 and blacklist ids) and per-plugin settings expressed as YAML, TOML "
              "([tool.bandit]), .bandit INI and CLI options, results compared through main(); settings locality; (2) the unmodified "
              "output of bandit-config-generator vs no config on example files; (3) malformed configurations: top-level kinds, syntax "
              "errors, missing file, directory, unknown profile, contradictory tests, every known key x wrong value kinds, INI values; "
              "(4) BanditConfig outcome classes vs init_config on parsed documents; non-trivial = a non-default configuration"
              "; settings blocks spelling out a plugin's own defaults; ids no release knows, through every carrier")
    carriers(R, rng, R.tier)
    generator(R, rng, R.tier)
    malformed(R, rng, R.tier)
    contradictions(R, rng, R.tier)
    ini_equivalence(R, rng, R.tier)
    generated_plus_settings(R, rng, R.tier)
    default_blocks(R, rng, R.tier)
    option_source(R, rng, R.tier)
    ini_discovery(R, rng, R.tier)
    ini_booleans(R, rng, R.tier)
    model_corr(R, rng, R.tier)
    R.disagreements_checked = R.evaluations
